//! Prover plumbing: build AIRs + preprocessed data for a compiled circuit, prove a
//! (possibly forged) `Traces`, verify.  One implementation per field configuration
//! because the extension degree is a const generic of the prover API.

use p3_batch_stark::ProverData;
use p3_circuit::{Circuit, Traces};
use p3_circuit_prover::batch_stark_prover::{recompose_air_builders, recompose_preprocessor};
use p3_circuit_prover::common::{NpoAirBuilder, NpoPreprocessor, get_airs_and_degrees_with_prep};
use p3_circuit_prover::config::{self, BabyBearConfig, GoldilocksConfig, KoalaBearConfig};
use p3_circuit_prover::{
    BatchStarkProof, BatchStarkProver, CircuitProverData, ConstraintProfile, TablePacking,
};
use p3_uni_stark::{StarkGenericConfig, Val};

use crate::fields::*;
use crate::fw::catch;

/// What went wrong, as far as the harness can tell.
#[derive(Clone, Debug, PartialEq, Eq)]
pub enum PvErr {
    /// building AIRs / preprocessed columns failed (`CircuitError`)
    Setup(String),
    /// `prove_all_tables` returned `Err`
    Prove(String),
    /// the prover panicked (debug-assertion self-checks, index errors …)
    ProvePanic(String),
    /// the verifier rejected
    Verify(String),
    /// the verifier panicked
    VerifyPanic(String),
}

impl PvErr {
    pub fn kind(&self) -> &'static str {
        match self {
            PvErr::Setup(_) => "setup",
            PvErr::Prove(_) => "prove-err",
            PvErr::ProvePanic(_) => "prove-panic",
            PvErr::Verify(_) => "verify-reject",
            PvErr::VerifyPanic(_) => "verify-panic",
        }
    }
    pub fn msg(&self) -> &str {
        match self {
            PvErr::Setup(s)
            | PvErr::Prove(s)
            | PvErr::ProvePanic(s)
            | PvErr::Verify(s)
            | PvErr::VerifyPanic(s) => s,
        }
    }
}

pub struct Setup<SC: StarkGenericConfig + 'static> {
    pub cpd: CircuitProverData<SC>,
    pub prover: BatchStarkProver<SC>,
    pub packing: TablePacking,
    /// log2 degree of every table, in AIR order
    pub degrees: Vec<usize>,
}

#[derive(Clone, Debug, Default)]
pub struct NpoSel {
    /// register the recompose tables (standard + coeff)
    pub recompose: bool,
    /// run p3-lookup's multiset debugger inside `prove` (panics with details on imbalance)
    pub debug_lookups: bool,
    /// register the Poseidon2 permutation table for this configuration
    pub poseidon2: Option<p3_circuit::ops::Poseidon2Config>,
    /// register the Poseidon1 permutation table for this configuration
    pub poseidon1: Option<p3_circuit::ops::Poseidon1Config>,
}

/// One WitnessChecks bus interaction decoded from a committed preprocessed trace.
#[derive(Clone, Debug)]
pub struct BusEntry {
    pub table: String,
    pub row: usize,
    /// operand position, e.g. "a", "b", "c", "out", "packed.a1", "coeff2"
    pub pos: String,
    /// witness slot (already divided by D)
    pub slot: u64,
    /// signed multiplicity (creator > 0, reader < 0)
    pub mult: i64,
}

/// Per-op view of the ALU preprocessed columns (before lane scheduling / Horner packing).
#[derive(Clone, Debug)]
pub struct AluOpPrep {
    pub kind: &'static str,
    /// (position, slot, effective signed multiplicity)
    pub operands: Vec<(&'static str, u64, i64)>,
}

#[derive(Clone, Debug, Default)]
pub struct PrepTables {
    pub entries: Vec<BusEntry>,
    pub alu_ops: Vec<AluOpPrep>,
}

fn signed(x: u64, p: u64) -> i64 {
    if x > p / 2 { -((p - x) as i64) } else { x as i64 }
}

/// Decode `[mult, idx]` lanes (Const / Public tables).
fn decode_send_table(name: &str, flat: &[u64], width: usize, p: u64, d: u64, out: &mut Vec<BusEntry>) {
    if width == 0 {
        return;
    }
    for (r, row) in flat.chunks(width).enumerate() {
        for lane in row.chunks(2) {
            if lane.len() == 2 && lane[0] != 0 {
                out.push(BusEntry {
                    table: name.to_string(),
                    row: r,
                    pos: "out".into(),
                    slot: lane[1] / d,
                    mult: signed(lane[0], p),
                });
            }
        }
    }
}

/// Decode the scheduled ALU preprocessed trace (documented layout: 13 columns per lane, then
/// `k-1` arity selectors and 6 columns per packed step).
fn decode_alu_sched(flat: &[u64], width: usize, k: usize, p: u64, d: u64, out: &mut Vec<BusEntry>) {
    let extra = (k - 1) + 6 * (k - 1);
    if width < extra + 13 {
        return;
    }
    let lanes = (width - extra) / 13;
    for (r, row) in flat.chunks(width).enumerate() {
        for l in 0..lanes {
            let c = &row[l * 13..(l + 1) * 13];
            let mult_a = signed(c[0], p);
            let e = [
                ("a", c[5], mult_a * signed(c[11], p)),
                ("b", c[6], signed(c[9], p)),
                ("c", c[7], mult_a * signed(c[12], p)),
                ("out", c[8], signed(c[10], p)),
            ];
            for (pos, idx, m) in e {
                if m != 0 {
                    out.push(BusEntry {
                        table: "alu".into(),
                        row: r,
                        pos: format!("lane{l}.{pos}"),
                        slot: idx / d,
                        mult: m,
                    });
                }
            }
        }
        let base = lanes * 13 + (k - 1);
        for t in 1..k {
            let s = &row[base + 6 * (t - 1)..base + 6 * t];
            for (pos, idx, m) in [("a", s[0], signed(s[4], p)), ("c", s[1], signed(s[5], p))] {
                if m != 0 {
                    out.push(BusEntry {
                        table: "alu".into(),
                        row: r,
                        pos: format!("packed.{pos}{t}"),
                        slot: idx / d,
                        mult: m,
                    });
                }
            }
        }
    }
}

/// Permutation-table support per field configuration (the prover API has tables for the
/// circuit degrees 2, 4 and 5 only).
pub trait PosSupport<SC: StarkGenericConfig + 'static, const D: usize> {
    #[allow(clippy::type_complexity)]
    fn poseidon2_parts(
        _cfg: p3_circuit::ops::Poseidon2Config,
    ) -> Option<(Box<dyn NpoPreprocessor<Val<SC>>>, Vec<Box<dyn NpoAirBuilder<SC, D>>>)> {
        None
    }
    fn register_poseidon2(_prover: &mut BatchStarkProver<SC>, _cfg: p3_circuit::ops::Poseidon2Config) {}
    #[allow(clippy::type_complexity)]
    fn poseidon1_parts(
        _cfg: p3_circuit::ops::Poseidon1Config,
    ) -> Option<(Box<dyn NpoPreprocessor<Val<SC>>>, Vec<Box<dyn NpoAirBuilder<SC, D>>>)> {
        None
    }
    fn register_poseidon1(_prover: &mut BatchStarkProver<SC>, _cfg: p3_circuit::ops::Poseidon1Config) {}
}

macro_rules! impl_pos {
    ($ty:ty, $sc:ty, $d:literal, $p2b:ident, $p1b:ident) => {
        impl PosSupport<$sc, $d> for $ty {
            fn poseidon2_parts(
                _cfg: p3_circuit::ops::Poseidon2Config,
            ) -> Option<(Box<dyn NpoPreprocessor<Val<$sc>>>, Vec<Box<dyn NpoAirBuilder<$sc, $d>>>)> {
                Some((
                    p3_circuit_prover::batch_stark_prover::poseidon2_preprocessor::<Val<$sc>>(),
                    p3_circuit_prover::batch_stark_prover::$p2b::<$sc>(),
                ))
            }
            fn register_poseidon2(prover: &mut BatchStarkProver<$sc>, cfg: p3_circuit::ops::Poseidon2Config) {
                prover.register_poseidon2_table::<$d>(cfg);
            }
            fn poseidon1_parts(
                _cfg: p3_circuit::ops::Poseidon1Config,
            ) -> Option<(Box<dyn NpoPreprocessor<Val<$sc>>>, Vec<Box<dyn NpoAirBuilder<$sc, $d>>>)> {
                Some((
                    p3_circuit_prover::batch_stark_prover::poseidon1_preprocessor::<Val<$sc>>(),
                    p3_circuit_prover::batch_stark_prover::$p1b::<$sc>(),
                ))
            }
            fn register_poseidon1(prover: &mut BatchStarkProver<$sc>, cfg: p3_circuit::ops::Poseidon1Config) {
                prover.register_poseidon1_table::<$d>(cfg);
            }
        }
    };
}
impl_pos!(Bb4, BabyBearConfig, 4, poseidon2_air_builders_d4, poseidon1_air_builders_d4);
impl_pos!(Kb4, KoalaBearConfig, 4, poseidon2_air_builders_d4, poseidon1_air_builders_d4);
impl_pos!(Kb5, KoalaBearConfig, 5, poseidon2_air_builders_d5, poseidon1_air_builders_d5);
impl_pos!(Gl2, GoldilocksConfig, 2, poseidon2_air_builders_d2, poseidon1_air_builders_d2);
impl PosSupport<BabyBearConfig, 1> for Bb1 {}
impl PosSupport<KoalaBearConfig, 1> for Kb1 {}
impl PosSupport<GoldilocksConfig, 1> for Gl1 {}

pub trait Pv: Fc {
    type SC: StarkGenericConfig + 'static + Send + Sync;

    /// Build the AIRs and decode every WitnessChecks interaction from the preprocessed traces.
    fn prep(
        circuit: &Circuit<Self::EF>,
        packing: &TablePacking,
        npo: &NpoSel,
    ) -> Result<PrepTables, PvErr>;

    fn setup(
        circuit: &Circuit<Self::EF>,
        packing: &TablePacking,
        npo: &NpoSel,
    ) -> Result<Setup<Self::SC>, PvErr>;

    fn prove(
        setup: &Setup<Self::SC>,
        traces: &Traces<Self::EF>,
    ) -> Result<BatchStarkProof<Self::SC>, PvErr>;

    fn verify(setup: &Setup<Self::SC>, proof: &BatchStarkProof<Self::SC>) -> Result<(), PvErr>;

    /// Canonical rendering of the preprocessed commitment and its instance metadata.
    fn commitment_string(setup: &Setup<Self::SC>) -> String;

    fn proof_to_json(proof: &BatchStarkProof<Self::SC>) -> serde_json::Value;
    fn proof_from_json(v: serde_json::Value) -> Result<BatchStarkProof<Self::SC>, String>;
    fn proof_to_postcard(proof: &BatchStarkProof<Self::SC>) -> Vec<u8>;
    fn proof_from_postcard(b: &[u8]) -> Result<BatchStarkProof<Self::SC>, String>;

    /// setup + prove + verify
    fn prove_verify(
        circuit: &Circuit<Self::EF>,
        traces: &Traces<Self::EF>,
        packing: &TablePacking,
        npo: &NpoSel,
    ) -> Result<(), PvErr> {
        let s = Self::setup(circuit, packing, npo)?;
        let p = Self::prove(&s, traces)?;
        Self::verify(&s, &p)
    }
}

macro_rules! impl_pv {
    ($ty:ty, $sc:ty, $cfg:expr, $d:literal) => {
        impl Pv for $ty {
            type SC = $sc;

            fn prep(
                circuit: &Circuit<Self::EF>,
                packing: &TablePacking,
                npo: &NpoSel,
            ) -> Result<PrepTables, PvErr> {
                use p3_air::BaseAir;
                use p3_field::PrimeField64;
                use p3_matrix::Matrix;
                let mut npo_prep: Vec<Box<dyn NpoPreprocessor<Val<$sc>>>> = vec![];
                let mut air_builders: Vec<Box<dyn NpoAirBuilder<$sc, $d>>> = vec![];
                if let Some(pc) = npo.poseidon2 {
                    match <Self as PosSupport<$sc, $d>>::poseidon2_parts(pc) {
                        Some((prep, builders)) => {
                            npo_prep.push(prep);
                            air_builders.extend(builders);
                        }
                        None => return Err(PvErr::Setup("Poseidon2 table not supported for this field configuration".into())),
                    }
                }
                if let Some(pc) = npo.poseidon1 {
                    match <Self as PosSupport<$sc, $d>>::poseidon1_parts(pc) {
                        Some((prep, builders)) => {
                            npo_prep.push(prep);
                            air_builders.extend(builders);
                        }
                        None => return Err(PvErr::Setup("Poseidon1 table not supported for this field configuration".into())),
                    }
                }
                // recompose operations per table row: taken from the packing (default 1)
                let rl = packing
                    .npo_lanes(&p3_circuit::ops::NpoTypeId::recompose_with_coeff_lookups())
                    .unwrap_or(1);
                if npo.recompose && $d > 1 {
                    npo_prep.push(recompose_preprocessor::<Val<$sc>>(true));
                    air_builders.extend(recompose_air_builders::<$sc, $d>(rl, true));
                }
                let r = catch(|| {
                    get_airs_and_degrees_with_prep::<$sc, Self::EF, $d>(
                        circuit,
                        packing,
                        &npo_prep,
                        &air_builders,
                        ConstraintProfile::Standard,
                    )
                });
                let (airs_degrees, prim, nonprim) = match r {
                    Ok(Ok(x)) => x,
                    Ok(Err(e)) => return Err(PvErr::Setup(format!("{e:?}"))),
                    Err(p) => return Err(PvErr::Setup(format!("panic: {p}"))),
                };
                let p = <Val<$sc> as PrimeField64>::ORDER_U64;
                let d = $d as u64;
                let mut t = PrepTables::default();
                let to_u64 = |m: &p3_matrix::dense::RowMajorMatrix<Val<$sc>>| -> (Vec<u64>, usize) {
                    (m.values.iter().map(|x| x.as_canonical_u64()).collect(), m.width())
                };
                for (i, (air, _)) in airs_degrees.iter().enumerate().take(3) {
                    let Some(m) = BaseAir::<Val<$sc>>::preprocessed_trace(air) else {
                        continue;
                    };
                    let (flat, w) = to_u64(&m);
                    match i {
                        0 => decode_send_table("const", &flat, w, p, d, &mut t.entries),
                        1 => decode_send_table("public", &flat, w, p, d, &mut t.entries),
                        _ => decode_alu_sched(&flat, w, packing.horner_packed_steps(), p, d, &mut t.entries),
                    }
                }
                // non-primitive tables: flat per-op columns
                let mut names: Vec<_> = nonprim.keys().cloned().collect();
                names.sort();
                for name in names {
                    let flat: Vec<u64> = nonprim[&name].iter().map(|x| x.as_canonical_u64()).collect();
                    let nm = name.as_str().to_string();
                    let w = if nm == "recompose" { 2 } else if nm == "recompose/coeff" { 2 + 2 * $d } else { 0 };
                    if w == 0 {
                        continue;
                    }
                    for (r, row) in flat.chunks(w).enumerate() {
                        let mut push = |pos: String, idx: u64, m: u64| {
                            if m != 0 {
                                t.entries.push(BusEntry { table: nm.clone(), row: r, pos, slot: idx / d, mult: signed(m, p) });
                            }
                        };
                        push("out".into(), row[0], row[1]);
                        for j in 0..(w - 2) / 2 {
                            push(format!("coeff{j}"), row[2 + 2 * j], row[3 + 2 * j]);
                        }
                    }
                }
                // per-op ALU view (13 columns per op, before scheduling)
                for c in prim[2].chunks(13) {
                    if c.len() < 13 {
                        break;
                    }
                    let v: Vec<u64> = c.iter().map(|x| x.as_canonical_u64()).collect();
                    let mult_a = signed(v[0], p);
                    if mult_a == 0 {
                        continue; // padding row
                    }
                    let kind = if v[1] == 1 { "Add" } else if v[2] == 1 { "BoolCheck" } else if v[3] == 1 { "MulAdd" } else if v[4] == 1 { "HornerAcc" } else { "Mul" };
                    t.alu_ops.push(AluOpPrep {
                        kind,
                        operands: vec![
                            ("a", v[5] / d, mult_a * signed(v[11], p)),
                            ("b", v[6] / d, signed(v[9], p)),
                            ("c", v[7] / d, mult_a * signed(v[12], p)),
                            ("out", v[8] / d, signed(v[10], p)),
                        ],
                    });
                }
                Ok(t)
            }

            fn setup(
                circuit: &Circuit<Self::EF>,
                packing: &TablePacking,
                npo: &NpoSel,
            ) -> Result<Setup<Self::SC>, PvErr> {
                let mut npo_prep: Vec<Box<dyn NpoPreprocessor<Val<$sc>>>> = vec![];
                let mut air_builders: Vec<Box<dyn NpoAirBuilder<$sc, $d>>> = vec![];
                if let Some(pc) = npo.poseidon2 {
                    match <Self as PosSupport<$sc, $d>>::poseidon2_parts(pc) {
                        Some((prep, builders)) => {
                            npo_prep.push(prep);
                            air_builders.extend(builders);
                        }
                        None => return Err(PvErr::Setup("Poseidon2 table not supported for this field configuration".into())),
                    }
                }
                if let Some(pc) = npo.poseidon1 {
                    match <Self as PosSupport<$sc, $d>>::poseidon1_parts(pc) {
                        Some((prep, builders)) => {
                            npo_prep.push(prep);
                            air_builders.extend(builders);
                        }
                        None => return Err(PvErr::Setup("Poseidon1 table not supported for this field configuration".into())),
                    }
                }
                // recompose operations per table row: taken from the packing (default 1)
                let rl = packing
                    .npo_lanes(&p3_circuit::ops::NpoTypeId::recompose_with_coeff_lookups())
                    .unwrap_or(1);
                if npo.recompose && $d > 1 {
                    npo_prep.push(recompose_preprocessor::<Val<$sc>>(true));
                    air_builders.extend(recompose_air_builders::<$sc, $d>(rl, true));
                }
                let r = catch(|| {
                    get_airs_and_degrees_with_prep::<$sc, Self::EF, $d>(
                        circuit,
                        packing,
                        &npo_prep,
                        &air_builders,
                        ConstraintProfile::Standard,
                    )
                });
                let (airs_degrees, prim, nonprim) = match r {
                    Ok(Ok(x)) => x,
                    Ok(Err(e)) => return Err(PvErr::Setup(format!("{e:?}"))),
                    Err(p) => return Err(PvErr::Setup(format!("panic: {p}"))),
                };
                let (airs, degrees): (Vec<_>, Vec<usize>) = airs_degrees.into_iter().unzip();
                let cfg: $sc = $cfg;
                let pd = match catch(|| ProverData::from_airs_and_degrees(&cfg, &airs, &degrees)) {
                    Ok(pd) => pd,
                    Err(p) => return Err(PvErr::Setup(format!("panic in ProverData: {p}"))),
                };
                let cpd = CircuitProverData::new(pd, prim, nonprim);
                let mut prover = BatchStarkProver::new(cfg).with_table_packing(packing.clone());
                if let Some(pc) = npo.poseidon2 {
                    <Self as PosSupport<$sc, $d>>::register_poseidon2(&mut prover, pc);
                }
                if let Some(pc) = npo.poseidon1 {
                    <Self as PosSupport<$sc, $d>>::register_poseidon1(&mut prover, pc);
                }
                if npo.recompose && $d > 1 {
                    for tp in p3_circuit_prover::batch_stark_prover::recompose_table_provers::<$sc, $d>(rl, true) {
                        prover.register_table_prover(tp);
                    }
                }
                if npo.debug_lookups {
                    prover = prover.with_debug_lookups();
                }
                Ok(Setup {
                    cpd,
                    prover,
                    packing: packing.clone(),
                    degrees,
                })
            }

            fn prove(
                setup: &Setup<Self::SC>,
                traces: &Traces<Self::EF>,
            ) -> Result<BatchStarkProof<Self::SC>, PvErr> {
                match catch(|| setup.prover.prove_all_tables(traces, &setup.cpd)) {
                    Ok(Ok(p)) => Ok(p),
                    Ok(Err(e)) => Err(PvErr::Prove(format!("{e:?}"))),
                    Err(p) => Err(PvErr::ProvePanic(p)),
                }
            }

            fn commitment_string(setup: &Setup<Self::SC>) -> String {
                match &setup.cpd.prover_data.common.preprocessed {
                    None => "none".to_string(),
                    Some(g) => format!(
                        "{}|{:?}|{:?}",
                        serde_json::to_string(&g.commitment).unwrap_or_default(),
                        g.instances
                            .iter()
                            .map(|m| m.as_ref().map(|m| (m.matrix_index, m.width, m.degree_bits)))
                            .collect::<Vec<_>>(),
                        g.matrix_to_instance
                    ),
                }
            }

            fn proof_to_json(proof: &BatchStarkProof<Self::SC>) -> serde_json::Value {
                serde_json::to_value(proof).expect("proof serialises to JSON")
            }
            fn proof_from_json(v: serde_json::Value) -> Result<BatchStarkProof<Self::SC>, String> {
                match catch(|| serde_json::from_value::<BatchStarkProof<Self::SC>>(v)) {
                    Ok(Ok(p)) => Ok(p),
                    Ok(Err(e)) => Err(format!("{e}")),
                    Err(p) => Err(format!("panic while deserialising: {p}")),
                }
            }
            fn proof_to_postcard(proof: &BatchStarkProof<Self::SC>) -> Vec<u8> {
                postcard::to_allocvec(proof).expect("proof serialises to postcard")
            }
            fn proof_from_postcard(b: &[u8]) -> Result<BatchStarkProof<Self::SC>, String> {
                match catch(|| postcard::from_bytes::<BatchStarkProof<Self::SC>>(b)) {
                    Ok(Ok(p)) => Ok(p),
                    Ok(Err(e)) => Err(format!("{e}")),
                    Err(p) => Err(format!("panic while deserialising: {p}")),
                }
            }

            fn verify(
                setup: &Setup<Self::SC>,
                proof: &BatchStarkProof<Self::SC>,
            ) -> Result<(), PvErr> {
                match catch(|| setup.prover.verify_all_tables::<Self::EF>(proof)) {
                    Ok(Ok(())) => Ok(()),
                    Ok(Err(e)) => Err(PvErr::Verify(format!("{e:?}"))),
                    Err(p) => Err(PvErr::VerifyPanic(p)),
                }
            }
        }
    };
}

impl_pv!(Bb1, BabyBearConfig, config::baby_bear(), 1);
impl_pv!(Bb4, BabyBearConfig, config::baby_bear(), 4);
impl_pv!(Kb1, KoalaBearConfig, config::koala_bear(), 1);
impl_pv!(Kb4, KoalaBearConfig, config::koala_bear(), 4);
impl_pv!(Kb5, KoalaBearConfig, config::koala_bear(), 5);
impl_pv!(Gl1, GoldilocksConfig, config::goldilocks(), 1);
impl_pv!(Gl2, GoldilocksConfig, config::goldilocks(), 2);
