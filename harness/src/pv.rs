//! Prover plumbing: build AIRs + preprocessed data for a compiled circuit, prove a
//! (possibly forged) `Traces`, verify.  One implementation per field configuration
//! because the extension degree is a const generic of the prover API.

use p3_batch_stark::ProverData;
use p3_circuit::{Circuit, Traces};
use p3_circuit_prover::batch_stark_prover::{recompose_air_builders, recompose_preprocessor};
use p3_circuit_prover::common::{NpoAirBuilder, NpoPreprocessor, get_airs_and_degrees_with_prep};
use p3_circuit_prover::config::{self, BabyBearConfig, GoldilocksConfig, KoalaBearConfig};
use p3_circuit_prover::{
    BatchStarkProof, BatchStarkProver, CircuitProverData, ConstraintProfile, TablePacking,
};
use p3_uni_stark::{StarkGenericConfig, Val};

use crate::fields::*;
use crate::fw::catch;

/// What went wrong, as far as the harness can tell.
#[derive(Clone, Debug, PartialEq, Eq)]
pub enum PvErr {
    /// building AIRs / preprocessed columns failed (`CircuitError`)
    Setup(String),
    /// `prove_all_tables` returned `Err`
    Prove(String),
    /// the prover panicked (debug-assertion self-checks, index errors …)
    ProvePanic(String),
    /// the verifier rejected
    Verify(String),
    /// the verifier panicked
    VerifyPanic(String),
}

impl PvErr {
    pub fn kind(&self) -> &'static str {
        match self {
            PvErr::Setup(_) => "setup",
            PvErr::Prove(_) => "prove-err",
            PvErr::ProvePanic(_) => "prove-panic",
            PvErr::Verify(_) => "verify-reject",
            PvErr::VerifyPanic(_) => "verify-panic",
        }
    }
    pub fn msg(&self) -> &str {
        match self {
            PvErr::Setup(s)
            | PvErr::Prove(s)
            | PvErr::ProvePanic(s)
            | PvErr::Verify(s)
            | PvErr::VerifyPanic(s) => s,
        }
    }
}

pub struct Setup<SC: StarkGenericConfig + 'static> {
    pub cpd: CircuitProverData<SC>,
    pub prover: BatchStarkProver<SC>,
    pub packing: TablePacking,
    /// log2 degree of every table, in AIR order
    pub degrees: Vec<usize>,
}

#[derive(Clone, Debug, Default)]
pub struct NpoSel {
    /// register the recompose tables (standard + coeff)
    pub recompose: bool,
    /// run p3-lookup's multiset debugger inside `prove` (panics with details on imbalance)
    pub debug_lookups: bool,
}

pub trait Pv: Fc {
    type SC: StarkGenericConfig + 'static + Send + Sync;

    fn setup(
        circuit: &Circuit<Self::EF>,
        packing: &TablePacking,
        npo: &NpoSel,
    ) -> Result<Setup<Self::SC>, PvErr>;

    fn prove(
        setup: &Setup<Self::SC>,
        traces: &Traces<Self::EF>,
    ) -> Result<BatchStarkProof<Self::SC>, PvErr>;

    fn verify(setup: &Setup<Self::SC>, proof: &BatchStarkProof<Self::SC>) -> Result<(), PvErr>;

    /// setup + prove + verify
    fn prove_verify(
        circuit: &Circuit<Self::EF>,
        traces: &Traces<Self::EF>,
        packing: &TablePacking,
        npo: &NpoSel,
    ) -> Result<(), PvErr> {
        let s = Self::setup(circuit, packing, npo)?;
        let p = Self::prove(&s, traces)?;
        Self::verify(&s, &p)
    }
}

macro_rules! impl_pv {
    ($ty:ty, $sc:ty, $cfg:expr, $d:literal) => {
        impl Pv for $ty {
            type SC = $sc;

            fn setup(
                circuit: &Circuit<Self::EF>,
                packing: &TablePacking,
                npo: &NpoSel,
            ) -> Result<Setup<Self::SC>, PvErr> {
                let mut npo_prep: Vec<Box<dyn NpoPreprocessor<Val<$sc>>>> = vec![];
                let mut air_builders: Vec<Box<dyn NpoAirBuilder<$sc, $d>>> = vec![];
                if npo.recompose && $d > 1 {
                    npo_prep.push(recompose_preprocessor::<Val<$sc>>(true));
                    air_builders.extend(recompose_air_builders::<$sc, $d>(1, true));
                }
                let r = catch(|| {
                    get_airs_and_degrees_with_prep::<$sc, Self::EF, $d>(
                        circuit,
                        packing,
                        &npo_prep,
                        &air_builders,
                        ConstraintProfile::Standard,
                    )
                });
                let (airs_degrees, prim, nonprim) = match r {
                    Ok(Ok(x)) => x,
                    Ok(Err(e)) => return Err(PvErr::Setup(format!("{e:?}"))),
                    Err(p) => return Err(PvErr::Setup(format!("panic: {p}"))),
                };
                let (airs, degrees): (Vec<_>, Vec<usize>) = airs_degrees.into_iter().unzip();
                let cfg: $sc = $cfg;
                let pd = match catch(|| ProverData::from_airs_and_degrees(&cfg, &airs, &degrees)) {
                    Ok(pd) => pd,
                    Err(p) => return Err(PvErr::Setup(format!("panic in ProverData: {p}"))),
                };
                let cpd = CircuitProverData::new(pd, prim, nonprim);
                let mut prover = BatchStarkProver::new(cfg).with_table_packing(packing.clone());
                if npo.recompose && $d > 1 {
                    prover.register_recompose_table::<$d>(true);
                }
                if npo.debug_lookups {
                    prover = prover.with_debug_lookups();
                }
                Ok(Setup {
                    cpd,
                    prover,
                    packing: packing.clone(),
                    degrees,
                })
            }

            fn prove(
                setup: &Setup<Self::SC>,
                traces: &Traces<Self::EF>,
            ) -> Result<BatchStarkProof<Self::SC>, PvErr> {
                match catch(|| setup.prover.prove_all_tables(traces, &setup.cpd)) {
                    Ok(Ok(p)) => Ok(p),
                    Ok(Err(e)) => Err(PvErr::Prove(format!("{e:?}"))),
                    Err(p) => Err(PvErr::ProvePanic(p)),
                }
            }

            fn verify(
                setup: &Setup<Self::SC>,
                proof: &BatchStarkProof<Self::SC>,
            ) -> Result<(), PvErr> {
                match catch(|| setup.prover.verify_all_tables::<Self::EF>(proof)) {
                    Ok(Ok(())) => Ok(()),
                    Ok(Err(e)) => Err(PvErr::Verify(format!("{e:?}"))),
                    Err(p) => Err(PvErr::VerifyPanic(p)),
                }
            }
        }
    };
}

impl_pv!(Bb1, BabyBearConfig, config::baby_bear(), 1);
impl_pv!(Bb4, BabyBearConfig, config::baby_bear(), 4);
impl_pv!(Kb1, KoalaBearConfig, config::koala_bear(), 1);
impl_pv!(Kb4, KoalaBearConfig, config::koala_bear(), 4);
impl_pv!(Kb5, KoalaBearConfig, config::koala_bear(), 5);
impl_pv!(Gl1, GoldilocksConfig, config::goldilocks(), 1);
impl_pv!(Gl2, GoldilocksConfig, config::goldilocks(), 2);
