//! E2 — trace forger and validity oracle.
//!
//! `Traces` and its row structs have public fields, so a malicious prover is modelled
//! without touching /repo: build the execution traces from an arbitrary assignment
//! (`traces_from_assignment`), or edit single cells of them, prove with the honest
//! `CircuitProverData`, and ask the native verifier.
//!
//! `trace_validity` is the independent oracle: does the (forged) set of traces describe one
//! consistent assignment that satisfies every relation of `Circuit::ops`?

use std::collections::HashMap;

use p3_circuit::ops::NpoTypeId;
use p3_circuit::ops::recompose::{RecomposeCircuitRow, RecomposeTrace, RecomposeTraceKind};
use p3_circuit::tables::{AluTrace, ConstTrace, NonPrimitiveTrace, PublicTrace, WitnessTrace};
use p3_circuit::{AluOpKind, Circuit, Op, Traces, WitnessId};
use p3_field::{PrimeCharacteristicRing, PrimeField64};

use crate::fields::Fc;

fn recompose_kind(t: &NpoTypeId) -> Option<RecomposeTraceKind> {
    if *t == NpoTypeId::recompose() {
        Some(RecomposeTraceKind::Standard)
    } else if *t == NpoTypeId::recompose_with_coeff_lookups() {
        Some(RecomposeTraceKind::WithCoeffLookups)
    } else {
        None
    }
}

/// Build the execution traces a prover would commit for the assignment `w`.
/// Index columns come from the circuit (they are preprocessed, a prover cannot choose them);
/// every value column is read from `w`.
pub fn traces_from_assignment<C: Fc>(
    circuit: &Circuit<C::EF>,
    w: &[C::EF],
    honest: &Traces<C::EF>,
) -> Traces<C::EF> {
    let g = |id: WitnessId| w[id.0 as usize];
    let mut const_trace = ConstTrace {
        index: vec![],
        values: vec![],
    };
    let mut public_trace = PublicTrace {
        index: vec![],
        values: vec![],
    };
    let mut alu = AluTrace {
        op_kind: vec![],
        values: vec![],
        indices: vec![],
    };
    let mut rec: HashMap<bool, Vec<RecomposeCircuitRow<C::BF>>> = HashMap::new();
    for op in &circuit.ops {
        match op {
            Op::Const { out, .. } => {
                const_trace.index.push(*out);
                const_trace.values.push(g(*out));
            }
            Op::Public { out, .. } => {
                public_trace.index.push(*out);
                public_trace.values.push(g(*out));
            }
            Op::Alu {
                kind, a, b, c, out, ..
            } => {
                alu.op_kind.push(*kind);
                alu.indices.push([*a, *b, c.unwrap_or(WitnessId(0)), *out]);
                let cv = c.map(g).unwrap_or(C::EF::ZERO);
                alu.values.push([g(*a), g(*b), cv, g(*out)]);
            }
            Op::Hint { .. } => {}
            Op::NonPrimitiveOpWithExecutor {
                inputs,
                outputs,
                executor,
                ..
            } => {
                if let Some(kind) = recompose_kind(executor.op_type()) {
                    // the row's D value columns are what the output is received with
                    let out = outputs[0][0];
                    let values: Vec<C::BF> = C::coeffs(&g(out))
                        .iter()
                        .map(|c| C::BF::from_u64(*c))
                        .collect();
                    rec.entry(matches!(kind, RecomposeTraceKind::WithCoeffLookups))
                        .or_default()
                        .push(RecomposeCircuitRow {
                            input_wids: inputs[0].clone(),
                            output_wid: out,
                            values,
                        });
                }
            }
        }
    }
    let mut npt: hashbrown::HashMap<NpoTypeId, Box<dyn NonPrimitiveTrace<C::EF>>> =
        hashbrown::HashMap::new();
    for (coeff, rows) in rec {
        let kind = if coeff {
            RecomposeTraceKind::WithCoeffLookups
        } else {
            RecomposeTraceKind::Standard
        };
        let t = RecomposeTrace::<C::BF> {
            operations: rows,
            kind,
        };
        let ty = if coeff {
            NpoTypeId::recompose_with_coeff_lookups()
        } else {
            NpoTypeId::recompose()
        };
        npt.insert(ty, Box::new(t));
    }
    Traces {
        witness_trace: WitnessTrace::new(w.to_vec()),
        const_trace,
        public_trace,
        alu_trace: alu,
        non_primitive_traces: npt,
        tag_to_witness: honest.tag_to_witness.clone(),
    }
}

/// Read the honest assignment out of `traces`.
pub fn assignment_of<C: Fc>(circuit: &Circuit<C::EF>, traces: &Traces<C::EF>) -> Vec<C::EF> {
    (0..circuit.witness_count)
        .map(|i| *traces.witness_trace.get_value(WitnessId(i)).unwrap())
        .collect()
}

/// The recompose rows of `traces`, by table kind (false = standard, true = coeff).
pub fn recompose_rows<C: Fc>(traces: &Traces<C::EF>, coeff: bool) -> Option<&RecomposeTrace<C::BF>> {
    let ty = if coeff {
        NpoTypeId::recompose_with_coeff_lookups()
    } else {
        NpoTypeId::recompose()
    };
    traces.non_primitive_trace::<RecomposeTrace<C::BF>>(&ty)
}

pub fn recompose_rows_mut<C: Fc>(
    traces: &mut Traces<C::EF>,
    coeff: bool,
) -> Option<RecomposeTrace<C::BF>> {
    recompose_rows::<C>(traces, coeff).cloned()
}

pub fn set_recompose_rows<C: Fc>(traces: &mut Traces<C::EF>, t: RecomposeTrace<C::BF>) {
    let ty = match t.kind {
        RecomposeTraceKind::Standard => NpoTypeId::recompose(),
        RecomposeTraceKind::WithCoeffLookups => NpoTypeId::recompose_with_coeff_lookups(),
    };
    traces.non_primitive_traces.insert(ty, Box::new(t));
}

/// Why a set of traces is not a valid execution.
#[derive(Clone, Debug)]
pub struct Invalid {
    /// short class name used in signatures
    pub class: String,
    pub detail: String,
}

/// Independent validity oracle for a (forged) set of traces.
///
/// Valid ⇔ (1) all semantically relevant cells agree on one value per witness slot,
/// (2) constant rows carry exactly the circuit's constants, (3) every ALU row satisfies its
/// op's relation on its own cells (Horner accumulators are read from the slot named by the
/// op, which for well-formed chains is the previous row's output), (4) every recompose row's
/// value columns are the coefficients of its output *and* coefficient 0 of its inputs.
pub fn trace_validity<C: Fc>(circuit: &Circuit<C::EF>, t: &Traces<C::EF>) -> Vec<Invalid> {
    let found: std::cell::RefCell<Vec<Invalid>> = std::cell::RefCell::new(vec![]);
    let inv = |class: &str, detail: String| {
        found.borrow_mut().push(Invalid {
            class: class.to_string(),
            detail,
        });
    };
    let wcell: std::cell::RefCell<HashMap<u32, C::EF>> = std::cell::RefCell::new(HashMap::new());
    let bind = |slot: WitnessId, v: C::EF, who: &str| {
        let cur = wcell.borrow().get(&slot.0).copied();
        match cur {
        Some(old) if old != v => {
            found.borrow_mut().push(Invalid {
                class: format!("bus-inconsistent:{who}"),
                detail: format!("slot {} has two values", slot.0),
            });
        }
        Some(_) => {}
        None => {
            wcell.borrow_mut().insert(slot.0, v);
        }
        }
    };
    // constants
    let consts: Vec<(WitnessId, C::EF)> = circuit
        .ops
        .iter()
        .filter_map(|op| match op {
            Op::Const { out, val } => Some((*out, *val)),
            _ => None,
        })
        .collect();
    if consts.len() != t.const_trace.values.len() {
        inv("const-count", "number of constant rows differs".into());
        return found.into_inner();
    }
    for ((out, val), got) in consts.iter().zip(&t.const_trace.values) {
        if val != got {
            inv(
                "const-value",
                format!("constant slot {} carries {:?} instead of {:?}", out.0, C::coeffs(got), C::coeffs(val)),
            );
        }
        bind(*out, *got, "const");
    }
    let publics: Vec<WitnessId> = circuit
        .ops
        .iter()
        .filter_map(|op| match op {
            Op::Public { out, .. } => Some(*out),
            _ => None,
        })
        .collect();
    // an empty table is padded with one dummy row (all selectors / multiplicities zero)
    let public_dummy = publics.is_empty() && t.public_trace.values.len() == 1;
    if !public_dummy && publics.len() != t.public_trace.values.len() {
        inv("public-count", "number of public rows differs".into());
        return found.into_inner();
    }
    for (out, got) in publics.iter().zip(&t.public_trace.values) {
        bind(*out, *got, "public");
    }
    // ALU rows
    let alu_ops: Vec<&Op<C::EF>> = circuit
        .ops
        .iter()
        .filter(|op| matches!(op, Op::Alu { .. }))
        .collect();
    let alu_dummy = alu_ops.is_empty() && t.alu_trace.values.len() == 1;
    if !alu_dummy && alu_ops.len() != t.alu_trace.values.len() {
        inv("alu-count", "number of ALU rows differs".into());
        return found.into_inner();
    }
    // first pass: bind relevant cells
    for (op, row) in alu_ops.iter().zip(&t.alu_trace.values) {
        let Op::Alu {
            kind, a, b, c, out, ..
        } = op
        else {
            unreachable!()
        };
        let [av, bv, cv, ov] = *row;
        match kind {
            AluOpKind::Add | AluOpKind::Mul => {
                bind(*a, av, "alu.a");
                bind(*b, bv, "alu.b");
                bind(*out, ov, "alu.out");
            }
            AluOpKind::MulAdd | AluOpKind::HornerAcc => {
                bind(*a, av, "alu.a");
                bind(*b, bv, "alu.b");
                bind(c.expect("c operand"), cv, "alu.c");
                bind(*out, ov, "alu.out");
            }
            AluOpKind::BoolCheck => {
                bind(*a, av, "alu.a");
                bind(*out, ov, "alu.out");
            }
        }
    }
    // recompose rows
    for coeff in [false, true] {
        let Some(rt) = recompose_rows::<C>(t, coeff) else {
            continue;
        };
        for row in &rt.operations {
            let vals: Vec<u64> = row.values.iter().map(|v| v.as_canonical_u64()).collect();
            bind(row.output_wid, C::ef(&vals), "recompose.out");
        }
    }
    // second pass: relations
    for (i, (op, row)) in alu_ops.iter().zip(&t.alu_trace.values).enumerate() {
        let Op::Alu {
            kind,
            intermediate_out,
            ..
        } = op
        else {
            unreachable!()
        };
        let [av, bv, cv, ov] = *row;
        let ok = match kind {
            AluOpKind::Add => av + bv == ov,
            AluOpKind::Mul => av * bv == ov,
            AluOpKind::MulAdd => av * bv + cv == ov,
            AluOpKind::BoolCheck => (av == C::EF::ZERO || av == C::EF::ONE) && ov == av,
            AluOpKind::HornerAcc => {
                let acc_slot = intermediate_out.expect("accumulator");
                let acc_v = wcell.borrow().get(&acc_slot.0).copied();
                match acc_v {
                    Some(acc) => acc * bv + cv - av == ov,
                    None => true, // accumulator slot appears in no row: nothing to compare with
                }
            }
        };
        if !ok {
            inv(&format!("alu-relation:{kind:?}"), format!("ALU row {i} violates its relation"));
        }
    }
    for coeff in [false, true] {
        let Some(rt) = recompose_rows::<C>(t, coeff) else {
            continue;
        };
        for (i, row) in rt.operations.iter().enumerate() {
            for (j, inw) in row.input_wids.iter().enumerate() {
                let inv_v = wcell.borrow().get(&inw.0).copied();
                if let Some(v) = inv_v {
                    let cs = C::coeffs(&v);
                    let is_base = cs[1..].iter().all(|c| *c == 0);
                    if !is_base || cs[0] != row.values[j].as_canonical_u64() {
                        inv(
                            if coeff { "recompose-coeff:input-mismatch" } else { "recompose-std:input-mismatch" },
                            format!("recompose row {i}: value column {j} is not the (base-field) value of its input slot"),
                        );
                    }
                }
            }
        }
    }
    found.into_inner()
}

/// ALU trace cells `(op row, column)` that never reach the committed matrix.
///
/// Consecutive `HornerAcc` ops form a chain; `AluAir` packs each prefix of a chain greedily
/// into rows of up to `pack_k` steps that share the `b` slot (module docs of alu_air.rs).  A
/// packed row stores `a, b, c` of its first step, `out` of its last step and `(a_t, c_t)` of
/// the other steps; the `b` cell of the later steps and the `out` cell of all but the last
/// step are recomputed or dropped.  Editing those cells of `AluTrace` changes nothing a
/// verifier sees.
pub fn uncommitted_alu_cells<F: p3_field::Field>(
    circuit: &Circuit<F>,
    pack_k: usize,
) -> std::collections::HashSet<(usize, usize)> {
    let alu: Vec<(AluOpKind, WitnessId)> = circuit
        .ops
        .iter()
        .filter_map(|op| match op {
            Op::Alu { kind, b, .. } => Some((*kind, *b)),
            _ => None,
        })
        .collect();
    let mut out = std::collections::HashSet::new();
    let mut i = 0;
    while i < alu.len() {
        if alu[i].0 != AluOpKind::HornerAcc {
            i += 1;
            continue;
        }
        let mut j = i;
        while j < alu.len() && alu[j].0 == AluOpKind::HornerAcc {
            j += 1;
        }
        // chain i..j
        let mut p = i;
        while p < j {
            let k_try = (j - p).min(pack_k);
            let mut best = 1;
            for k in (2..=k_try).rev() {
                if (p..p + k).all(|q| alu[q].1 == alu[p].1) {
                    best = k;
                    break;
                }
            }
            if best >= 2 {
                for t in 0..best {
                    if t >= 1 {
                        out.insert((p + t, 1));
                    }
                    if t + 1 < best {
                        out.insert((p + t, 3));
                    }
                }
            }
            p += best;
        }
        i = j;
    }
    out
}

/// Overwrite the ALU trace cells that never reach the committed matrix (see
/// [`uncommitted_alu_cells`]) with the values the matrix builder derives for them: the shared
/// `b` of the packed row and the running Horner value for intermediate outputs (the chain
/// starts from 0 after a separator).  After this, the trace rows describe exactly what a
/// verifier sees.
pub fn normalize_uncommitted<C: Fc>(circuit: &Circuit<C::EF>, pack_k: usize, t: &mut Traces<C::EF>) {
    let unc = uncommitted_alu_cells(circuit, pack_k);
    if unc.is_empty() {
        return;
    }
    let kinds = t.alu_trace.op_kind.clone();
    let n = kinds.len();
    let mut i = 0;
    while i < n {
        if kinds[i] != AluOpKind::HornerAcc {
            i += 1;
            continue;
        }
        let mut j = i;
        while j < n && kinds[j] == AluOpKind::HornerAcc {
            j += 1;
        }
        let mut acc = C::EF::ZERO;
        let mut first_b = t.alu_trace.values[i][1];
        for p in i..j {
            if !unc.contains(&(p, 1)) {
                first_b = t.alu_trace.values[p][1];
            } else {
                t.alu_trace.values[p][1] = first_b;
            }
            let [a, b, c, out] = t.alu_trace.values[p];
            if unc.contains(&(p, 3)) {
                let derived = acc * b + c - a;
                t.alu_trace.values[p][3] = derived;
                acc = derived;
            } else {
                acc = out;
            }
        }
        i = j;
    }
}

/// Re-execute the whole op list the way the honest runner does — including non-primitive
/// executors, so that permutation / recompose rows are regenerated from the *current* input
/// values — but with some slots pinned to prover-chosen values and without any conflict
/// check.  Returns the resulting assignment and the traces a prover would commit for it.
///
/// `freeze_others`: every slot that is not pinned keeps its honest value (a slot is changed
/// "everywhere it appears" without propagation); otherwise every op recomputes the slots it
/// defines from the current values (the change propagates).
pub fn reexecute<C: Fc>(
    circuit: &Circuit<C::EF>,
    honest: &Traces<C::EF>,
    pins: &HashMap<u32, C::EF>,
    freeze_others: bool,
) -> Result<(Vec<C::EF>, Traces<C::EF>), String> {
    reexecute_pd::<C>(circuit, honest, pins, freeze_others, Vec::new())
}

/// `reexecute` with the private payloads of non-primitive ops (`(op id, payload)`), e.g. the
/// sibling limbs of Merkle-mode permutation rows.
pub fn reexecute_pd<C: Fc>(
    circuit: &Circuit<C::EF>,
    honest: &Traces<C::EF>,
    pins: &HashMap<u32, C::EF>,
    freeze_others: bool,
    payloads: Vec<(u32, p3_circuit::ops::NpoPrivateData)>,
) -> Result<(Vec<C::EF>, Traces<C::EF>), String> {
    use p3_circuit::ops::{ExecutionContext, NpoPrivateData, OpStateMap};
    let w0 = assignment_of::<C>(circuit, honest);
    let n = w0.len();
    let defs = crate::opsem::definers(circuit);
    let pinned = |s: u32| pins.contains_key(&s) || freeze_others;
    let val0 = |s: u32| pins.get(&s).copied().unwrap_or(w0[s as usize]);
    // inputs and pinned slots start set; everything else is filled by its defining op
    let mut wit: Vec<Option<C::EF>> = vec![None; n];
    for s in circuit.public_rows.iter().chain(&circuit.private_input_rows) {
        wit[s.0 as usize] = Some(val0(s.0));
    }
    for s in 0..n as u32 {
        if pinned(s) {
            wit[s as usize] = Some(val0(s));
        }
    }
    let max_op = circuit
        .ops
        .iter()
        .filter_map(|op| match op {
            Op::NonPrimitiveOpWithExecutor { op_id, .. } => Some(op_id.0 as usize + 1),
            _ => None,
        })
        .max()
        .unwrap_or(0);
    let mut private_data: Vec<Option<NpoPrivateData>> = (0..max_op).map(|_| None).collect();
    for (op, pd) in payloads {
        if let Some(slot) = private_data.get_mut(op as usize) {
            *slot = Some(pd);
        }
    }
    let mut op_states: OpStateMap = Default::default();
    let get = |wit: &[Option<C::EF>], id: WitnessId| wit[id.0 as usize].unwrap_or(w0[id.0 as usize]);
    for (i, op) in circuit.ops.iter().enumerate() {
        let mine: Vec<u32> = defs[i].iter().copied().filter(|s| !pinned(*s)).collect();
        match op {
            Op::Const { out, val } => {
                if mine.contains(&out.0) {
                    wit[out.0 as usize] = Some(*val);
                }
            }
            Op::Public { .. } => {}
            Op::Alu { kind, a, b, c, out, intermediate_out } => {
                let (av, bv, ov) = (get(&wit, *a), get(&wit, *b), get(&wit, *out));
                let cv = c.map(|x| get(&wit, x)).unwrap_or(C::EF::ZERO);
                match kind {
                    AluOpKind::Add => {
                        if mine.contains(&b.0) {
                            wit[b.0 as usize] = Some(ov - av);
                        } else if mine.contains(&out.0) {
                            wit[out.0 as usize] = Some(av + bv);
                        }
                    }
                    AluOpKind::Mul => {
                        if mine.contains(&b.0) {
                            if let Some(inv) = p3_field::Field::try_inverse(&av) {
                                wit[b.0 as usize] = Some(ov * inv);
                            }
                        } else if mine.contains(&out.0) {
                            wit[out.0 as usize] = Some(av * bv);
                        }
                    }
                    AluOpKind::MulAdd => {
                        if let Some(io) = intermediate_out {
                            if mine.contains(&io.0) {
                                wit[io.0 as usize] = Some(av * bv);
                            }
                        }
                        if mine.contains(&out.0) {
                            wit[out.0 as usize] = Some(av * bv + cv);
                        }
                    }
                    AluOpKind::BoolCheck => {
                        if mine.contains(&out.0) {
                            wit[out.0 as usize] = Some(av);
                        }
                    }
                    AluOpKind::HornerAcc => {
                        if mine.contains(&out.0) {
                            let acc = get(&wit, intermediate_out.unwrap());
                            wit[out.0 as usize] = Some(acc * bv + cv - av);
                        }
                    }
                }
            }
            Op::Hint { inputs, outputs, executor } => {
                for o in outputs {
                    if mine.contains(&o.0) {
                        wit[o.0 as usize] = None;
                    }
                }
                let _ = executor.execute(inputs, outputs, &mut wit);
            }
            Op::NonPrimitiveOpWithExecutor { inputs, outputs, executor, op_id } => {
                // the executor records the table row from the *current* inputs; let it write
                // all of its outputs, then put pinned values back
                let saved: Vec<(u32, Option<C::EF>)> = outputs
                    .iter()
                    .flatten()
                    .map(|o| (o.0, wit[o.0 as usize]))
                    .collect();
                for (s, _) in &saved {
                    wit[*s as usize] = None;
                }
                for g in inputs.iter().flatten() {
                    if wit[g.0 as usize].is_none() {
                        wit[g.0 as usize] = Some(w0[g.0 as usize]);
                    }
                }
                {
                    let mut ctx = ExecutionContext::new(
                        &mut wit,
                        &private_data,
                        &circuit.enabled_ops,
                        *op_id,
                        &mut op_states,
                    );
                    executor
                        .execute(inputs, outputs, &mut ctx)
                        .map_err(|e| format!("re-execution of non-primitive op #{}: {e:?}", op_id.0))?;
                }
                for (s, old) in saved {
                    if pinned(s) {
                        wit[s as usize] = old;
                    }
                }
            }
        }
    }
    let w: Vec<C::EF> = wit
        .iter()
        .enumerate()
        .map(|(i, v)| v.unwrap_or(w0[i]))
        .collect();
    let mut t = traces_from_assignment::<C>(circuit, &w, honest);
    // non-primitive traces from the recorded rows, through the circuit's own generators
    t.non_primitive_traces.clear();
    for ty in &circuit.non_primitive_trace_generator_order {
        let g = &circuit.non_primitive_trace_generators[ty];
        match g(&op_states) {
            Ok(Some(tr)) => {
                t.non_primitive_traces.insert(tr.op_type(), tr);
            }
            Ok(None) => {}
            Err(e) => return Err(format!("trace generator {ty:?}: {e:?}")),
        }
    }
    Ok((w, t))
}
