//! E1 — source-program generator and reference semantics.
//!
//! A *program* is a list of statements over previously created nodes.  It is replayed
//! against the real `CircuitBuilder` and, independently, interpreted by a reference
//! evaluator written from the mathematical meaning of each statement (plain `p3-field`
//! arithmetic on the un-simplified statement list: no folding, no CSE, no slot sharing).

use std::collections::BTreeSet;

use p3_circuit::ops::generate_recompose_trace;
use p3_circuit::{CircuitBuilder, ExprId};
use p3_field::{Field, PrimeCharacteristicRing, PrimeField64};
use proptest::prelude::*;
use serde::{Deserialize, Serialize};

use crate::fields::Fc;
use crate::fw::pick;

/// Symbolic base-field coefficient (resolved per field, so `NegOne` is `p-1` everywhere).
#[derive(Clone, Debug, Serialize, Deserialize, PartialEq, Eq, Hash)]
pub enum Co {
    Z,
    One,
    Two,
    NegOne,
    Small(u8),
    /// 2^k (mod p)
    Pow2(u8),
    /// 2^k - 1 (mod p)
    Pow2m1(u8),
    /// p - 1 - k
    NearP(u8),
    Rand(u64),
}

impl Co {
    pub fn resolve<C: Fc>(&self) -> C::BF {
        let p = C::p();
        let f = |x: u64| C::BF::from_u64(x);
        match self {
            Co::Z => C::BF::ZERO,
            Co::One => C::BF::ONE,
            Co::Two => C::BF::TWO,
            Co::NegOne => C::BF::NEG_ONE,
            Co::Small(k) => f(*k as u64),
            Co::Pow2(k) => C::BF::TWO.exp_u64((*k % 64) as u64),
            Co::Pow2m1(k) => C::BF::TWO.exp_u64((*k % 64) as u64) - C::BF::ONE,
            Co::NearP(k) => f(p - 1 - (*k as u64 % p.min(200))),
            Co::Rand(r) => f(*r % p),
        }
    }
}

/// A field value: up to 5 coefficients (missing = 0; extra ignored for smaller D).
#[derive(Clone, Debug, Serialize, Deserialize, PartialEq, Eq, Hash)]
pub struct Val(pub Vec<Co>);

impl Val {
    pub fn resolve<C: Fc>(&self) -> C::EF {
        let cs: Vec<u64> = self
            .0
            .iter()
            .take(C::D)
            .map(|c| c.resolve::<C>().as_canonical_u64())
            .collect();
        C::ef(&cs)
    }
    pub fn zero() -> Self {
        Val(vec![])
    }
    pub fn is_zero_sym(&self) -> bool {
        self.0.iter().all(|c| matches!(c, Co::Z))
    }
}

pub fn co_strategy() -> impl Strategy<Value = Co> {
    prop_oneof![
        3 => Just(Co::Z),
        3 => Just(Co::One),
        1 => Just(Co::Two),
        2 => Just(Co::NegOne),
        3 => (0u8..16).prop_map(Co::Small),
        1 => (0u8..64).prop_map(Co::Pow2),
        1 => (0u8..64).prop_map(Co::Pow2m1),
        1 => (0u8..8).prop_map(Co::NearP),
        4 => any::<u64>().prop_map(Co::Rand),
    ]
}

pub fn val_strategy() -> impl Strategy<Value = Val> {
    prop_oneof![
        // base-embedded
        3 => co_strategy().prop_map(|c| Val(vec![c])),
        // full extension value
        2 => proptest::collection::vec(co_strategy(), 5).prop_map(Val),
    ]
}

pub fn nonzero_val_strategy() -> impl Strategy<Value = Val> {
    prop_oneof![
        Just(Val(vec![Co::One])),
        Just(Val(vec![Co::NegOne])),
        (1u8..16).prop_map(|k| Val(vec![Co::Small(k)])),
        (1u64..u64::MAX).prop_map(|r| Val(vec![Co::Rand(r | 1), Co::One])),
    ]
}

/// How to obtain a second expression with the same value as an existing node.
#[derive(Clone, Debug, Serialize, Deserialize, PartialEq, Eq, Hash)]
pub enum CopyVia {
    /// fresh public input set to value+delta, then `connect`
    Public,
    /// fresh private input set to value+delta, then `connect`
    Private,
    /// constant value+delta, then `connect`
    Const,
}

#[derive(Clone, Debug, Serialize, Deserialize, PartialEq, Eq, Hash)]
pub enum Stmt {
    Const(Val),
    Public(Val),
    Private(Val),
    Add(u16, u16),
    Sub(u16, u16),
    Mul(u16, u16),
    Div(u16, u16),
    MulAdd(u16, u16, u16),
    /// horner_acc_step(acc, alpha, p_at_z, p_at_x)
    Horner(u16, u16, u16, u16),
    AssertBool(u16),
    Select(u16, u16, u16),
    AssertZero(u16),
    Connect(u16, u16),
    /// Create a copy of node `i` through an input/constant whose value is `val(i) + delta`
    /// and `connect` it to `i`.  `delta != 0` makes the program's inputs violating.
    Copy(u16, CopyVia, Val),
    /// decompose_to_bits(node, n_bits)
    Bits(u16, u8),
    /// decompose_ext_to_base_coeffs(node)
    ExtDecomp(u16),
    /// recompose_base_coeffs_to_ext(D base-valued nodes chosen by these indices)
    ExtRecomp(Vec<u16>),
    /// A well-formed Horner chain: acc_0 = 0, acc_{k+1} = horner(acc_k, alpha, z_k, x_k),
    /// followed by one ordinary op on the result (so that the next chain is not adjacent).
    HornerChain(u16, Vec<(u16, u16)>),
    /// exp_power_of_2(node, k)
    ExpPow2(u16, u8),
    /// mul_many / inner_product style helpers
    MulMany(Vec<u16>),
    InnerProduct(Vec<(u16, u16)>),
}

#[derive(Clone, Debug, Serialize, Deserialize, PartialEq, Eq, Hash)]
pub struct Prog {
    /// index into the field registry (see `dispatch_field!`)
    pub field: u8,
    /// enable the recompose NPO tables on the builder
    pub recompose_npo: bool,
    pub stmts: Vec<Stmt>,
}

#[derive(Clone, Copy, Debug, PartialEq, Eq, Hash, PartialOrd, Ord, Serialize)]
pub enum NK {
    Const,
    Public,
    Private,
    Add,
    Sub,
    Mul,
    Div,
    MulAdd,
    Horner,
    Select,
    Bit,
    Coeff,
    Recomp,
    Helper,
}

#[derive(Clone, Debug)]
pub struct Node<C: Fc> {
    pub expr: ExprId,
    pub val: C::EF,
    pub kind: NK,
    pub stmt: usize,
    /// value depends on a division by zero (reference value undefined)
    pub undefined: bool,
    /// operand nodes of the statement that produced this node
    pub deps: Vec<usize>,
}

#[derive(Clone, Debug)]
pub struct StmtRec {
    pub si: usize,
    pub operands: Vec<usize>,
    pub produced: Vec<usize>,
}

#[derive(Clone, Debug)]
pub struct Assertion {
    pub kind: &'static str,
    pub stmt: usize,
    pub holds: bool,
}

pub struct Built<C: Fc> {
    pub builder: CircuitBuilder<C::EF>,
    pub nodes: Vec<Node<C>>,
    pub publics: Vec<C::EF>,
    pub privates: Vec<C::EF>,
    pub asserts: Vec<Assertion>,
    pub div_zero: bool,
    pub features: BTreeSet<String>,
    /// (expr a, expr b) for every connect issued, with the node kinds
    pub connects: Vec<(NK, NK)>,
    cur_deps: Vec<usize>,
    /// per executed statement: (statement index, operand nodes, produced nodes)
    pub recs: Vec<StmtRec>,
    /// statements skipped because they fall into a listed known-finding class
    pub excluded: Vec<&'static str>,
    has_ext_decomp: bool,
    /// expressions already decomposed into coefficients (a repeated decomposition is served from the builder's cache)
    decomposed: Vec<u32>,
}

impl<C: Fc> Built<C> {
    /// An empty value (used to rebuild a `Built` around an already consumed builder).
    pub fn empty() -> Self {
        Built {
            builder: CircuitBuilder::new(),
            nodes: vec![],
            publics: vec![],
            privates: vec![],
            asserts: vec![],
            div_zero: false,
            features: BTreeSet::new(),
            connects: vec![],
            cur_deps: vec![],
            recs: vec![],
            excluded: vec![],
            has_ext_decomp: false,
            decomposed: vec![],
        }
    }

    pub fn src_sat(&self) -> bool {
        !self.div_zero && self.asserts.iter().all(|a| a.holds)
    }
}

/// Number of distinct `Const`/`Public` expressions the connect class of `a` would contain
/// if `a` and `b` were connected (uses the read-only `verif-hooks` view of the builder).
pub fn creators_if_connected<C: Fc>(b: &CircuitBuilder<C::EF>, x: ExprId, y: ExprId) -> usize {
    class_profile_if_connected::<C>(b, x, y).0
}

/// `(Const/Public expressions, non-primitive output expressions)` in the connect class `x`
/// would belong to after `connect(x, y)`.
pub fn class_profile_if_connected<C: Fc>(
    b: &CircuitBuilder<C::EF>,
    x: ExprId,
    y: ExprId,
) -> (usize, usize) {
    use p3_circuit::Expr;
    let graph = b.verif_graph();
    let mut parent: std::collections::HashMap<u32, u32> = std::collections::HashMap::new();
    fn find(p: &mut std::collections::HashMap<u32, u32>, v: u32) -> u32 {
        let mut r = v;
        while let Some(&q) = p.get(&r) {
            if q == r {
                break;
            }
            r = q;
        }
        r
    }
    let mut members: Vec<u32> = vec![x.0, y.0];
    for (a, c) in b.verif_pending_connects().iter().chain(std::iter::once(&(x, y))) {
        members.push(a.0);
        members.push(c.0);
        let (ra, rc) = (find(&mut parent, a.0), find(&mut parent, c.0));
        if ra != rc {
            parent.insert(rc, ra);
        }
    }
    let root = find(&mut parent, x.0);
    members.sort_unstable();
    members.dedup();
    let mut creators = 0;
    let mut npo_outs = 0;
    for m in members {
        if find(&mut parent, m) != root {
            continue;
        }
        match graph.get_expr(ExprId(m)) {
            Expr::Const(_) | Expr::Public(_) => creators += 1,
            Expr::NonPrimitiveOutput { call, .. } => {
                // hint outputs are not table rows; only table-backed outputs count
                if let Expr::NonPrimitiveCall { op_id, .. } = graph.get_expr(*call) {
                    let is_hint = b
                        .verif_npo_calls()
                        .iter()
                        .any(|(id, ty, _, _)| id == op_id && *ty == p3_circuit::NpoTypeId::unconstrained());
                    if !is_hint {
                        npo_outs += 1;
                    }
                }
            }
            _ => {}
        }
    }
    (creators, npo_outs)
}

/// Would `connect(x, y)` create a connect class of a listed known-finding shape?  Returns
/// `true` when the statement has to be skipped (exclusion on); otherwise records the shape
/// as a feature so that failures can be attributed.
fn known_class_if_connected<C: Fc>(o: &mut Built<C>, x: ExprId, y: ExprId, excl: Excl) -> bool {
    if x == y {
        return false;
    }
    let (creators, npo_outs) = class_profile_if_connected::<C>(&o.builder, x, y);
    if creators >= 2 {
        // known finding (C09/C10): two Const/Public creators in one connect class
        if excl.two_creators {
            o.excluded.push("two-creators");
            return true;
        }
        o.features.insert("two-creators".into());
    }
    if npo_outs >= 2 {
        // known finding (C09/C10): two non-primitive rows writing one slot
        if excl.two_creators {
            o.excluded.push("npo-duplicate-output");
            return true;
        }
        o.features.insert("npo-duplicate-output".into());
    }
    false
}

fn is_base<C: Fc>(x: &C::EF) -> bool {
    C::is_base(x)
}

/// Known-finding classes are excluded by construction unless `VERIF_NO_EXCLUDE` is set
/// (used when replaying the minimal case of a finding).
pub static NO_EXCLUDE: std::sync::atomic::AtomicBool = std::sync::atomic::AtomicBool::new(false);
thread_local! {
    pub static NO_EXCLUDE_TL: std::cell::Cell<bool> = const { std::cell::Cell::new(false) };
}
pub fn exclude_known() -> bool {
    !NO_EXCLUDE.load(std::sync::atomic::Ordering::Relaxed) && !NO_EXCLUDE_TL.with(|c| c.get())
}
/// Run `f` with known-finding exclusions switched off on this thread.
pub fn without_exclusions<R>(f: impl FnOnce() -> R) -> R {
    NO_EXCLUDE_TL.with(|c| c.set(true));
    let r = f();
    NO_EXCLUDE_TL.with(|c| c.set(false));
    r
}

/// Which known-finding classes the interpreter avoids by construction.
#[derive(Clone, Copy, Debug)]
pub struct Excl {
    /// ext-decomposition of a select whose selector is not a base-field value (C02 finding)
    pub select_ext: bool,
    /// a connect class with two Const/Public creators (C09/C10 finding)
    pub two_creators: bool,
    /// construction over rejection: skip statements whose asserted relation would be
    /// violated by the generated inputs (or that divide by zero)
    pub sat_only: bool,
}

impl Excl {
    pub const NONE: Excl = Excl {
        select_ext: false,
        two_creators: false,
        sat_only: false,
    };
    pub const ALL: Excl = Excl {
        select_ext: true,
        two_creators: true,
        sat_only: false,
    };
    /// prover-level checks on satisfying programs
    pub const ALL_SAT: Excl = Excl {
        select_ext: true,
        two_creators: true,
        sat_only: true,
    };
    /// runner-level checks: two creators are harmless there
    pub const RUNNER: Excl = Excl {
        select_ext: true,
        two_creators: false,
        sat_only: false,
    };
}

thread_local! {
    /// Builder switch `set_recompose_coeff_ctl_for_decompose_links` (decompositions go through the
    /// `recompose/coeff` table, which puts the coefficients on the bus) for the next `interpret`
    /// calls of this thread.  Values and relations of a program do not depend on it.
    pub static COEFF_CTL: std::cell::Cell<bool> = const { std::cell::Cell::new(false) };
}

/// `interpret` with the decompose linkage (`recompose/coeff` table) switched on for every other
/// program length: a pure function of the program, so that replay and shrinking stay deterministic.
pub fn interpret_linked<C: Fc>(prog: &Prog, excl: Excl) -> (Built<C>, bool) {
    let on = prog.recompose_npo && C::D > 1 && prog.stmts.len() % 2 == 1;
    COEFF_CTL.with(|f| f.set(on));
    let b = interpret::<C>(prog, excl);
    COEFF_CTL.with(|f| f.set(false));
    (b, on)
}

/// Interpret `prog` against a fresh builder and the reference semantics.
pub fn interpret<C: Fc>(prog: &Prog, excl: Excl) -> Built<C> {
    let excl = if exclude_known() {
        excl
    } else {
        Excl {
            sat_only: excl.sat_only,
            ..Excl::NONE
        }
    };
    let mut b = CircuitBuilder::<C::EF>::new();
    if prog.recompose_npo && C::D > 1 {
        b.enable_recompose::<C::BF>(generate_recompose_trace::<C::BF, C::EF>);
        if COEFF_CTL.with(|f| f.get()) {
            b.set_recompose_coeff_ctl_for_decompose_links(true);
        }
    }
    let mut out = Built::<C> {
        builder: b,
        nodes: vec![],
        publics: vec![],
        privates: vec![],
        asserts: vec![],
        div_zero: false,
        features: BTreeSet::new(),
        connects: vec![],
        cur_deps: vec![],
        recs: vec![],
        excluded: vec![],
        has_ext_decomp: prog.stmts.iter().any(|s| matches!(s, Stmt::ExtDecomp(_))),
        decomposed: vec![],
    };
    // node 0: the shared zero constant, node 1: one
    let z = out.builder.define_const(C::EF::ZERO);
    out.nodes.push(Node {
        expr: z,
        val: C::EF::ZERO,
        kind: NK::Const,
        stmt: usize::MAX,
        undefined: false,
        deps: vec![],
    });
    for (si, st) in prog.stmts.iter().enumerate() {
        let (n0, a0) = (out.nodes.len(), out.asserts.len());
        step::<C>(&mut out, si, st, excl);
        if out.nodes.len() > n0 || out.asserts.len() > a0 {
            let rec = StmtRec {
                si,
                operands: out.cur_deps.clone(),
                produced: (n0..out.nodes.len()).collect(),
            };
            out.recs.push(rec);
        }
    }
    out
}

fn push<C: Fc>(o: &mut Built<C>, expr: ExprId, val: C::EF, kind: NK, stmt: usize, undefined: bool) {
    let deps = o.cur_deps.clone();
    o.nodes.push(Node {
        expr,
        val,
        kind,
        stmt,
        undefined,
        deps,
    });
}

fn step<C: Fc>(o: &mut Built<C>, si: usize, st: &Stmt, excl: Excl) {
    let n = o.nodes.len();
    let ix = |i: &u16| node_index(*i, n);
    o.cur_deps = stmt_operands(st).iter().map(|i| node_index(*i, n)).collect();
    match st {
        Stmt::Const(v) => {
            let val = v.resolve::<C>();
            let e = o.builder.define_const(val);
            push(o, e, val, NK::Const, si, false);
        }
        Stmt::Public(v) => {
            let val = v.resolve::<C>();
            let e = o.builder.public_input();
            o.publics.push(val);
            push(o, e, val, NK::Public, si, false);
        }
        Stmt::Private(v) => {
            let val = v.resolve::<C>();
            let e = o.builder.alloc_private_input("p");
            o.privates.push(val);
            push(o, e, val, NK::Private, si, false);
            o.features.insert("private".into());
        }
        Stmt::Add(i, j) => {
            let (a, c) = (o.nodes[ix(i)].clone(), o.nodes[ix(j)].clone());
            let e = o.builder.add(a.expr, c.expr);
            push(o, e, a.val + c.val, NK::Add, si, a.undefined || c.undefined);
        }
        Stmt::Sub(i, j) => {
            let (a, c) = (o.nodes[ix(i)].clone(), o.nodes[ix(j)].clone());
            let e = o.builder.sub(a.expr, c.expr);
            push(o, e, a.val - c.val, NK::Sub, si, a.undefined || c.undefined);
            o.features.insert("sub".into());
        }
        Stmt::Mul(i, j) => {
            let (a, c) = (o.nodes[ix(i)].clone(), o.nodes[ix(j)].clone());
            let e = o.builder.mul(a.expr, c.expr);
            push(o, e, a.val * c.val, NK::Mul, si, a.undefined || c.undefined);
        }
        Stmt::Div(i, j) => {
            let (a, c) = (o.nodes[ix(i)].clone(), o.nodes[ix(j)].clone());
            if excl.sat_only && c.val == C::EF::ZERO {
                return;
            }
            let e = o.builder.div(a.expr, c.expr);
            let (val, undef) = match c.val.try_inverse() {
                Some(inv) => (a.val * inv, a.undefined || c.undefined),
                None => {
                    o.div_zero = true;
                    (C::EF::ZERO, true)
                }
            };
            push(o, e, val, NK::Div, si, undef);
            o.features.insert("div".into());
        }
        Stmt::MulAdd(i, j, k) => {
            let (a, c, d) = (
                o.nodes[ix(i)].clone(),
                o.nodes[ix(j)].clone(),
                o.nodes[ix(k)].clone(),
            );
            let e = o.builder.mul_add(a.expr, c.expr, d.expr);
            push(
                o,
                e,
                a.val * c.val + d.val,
                NK::MulAdd,
                si,
                a.undefined || c.undefined || d.undefined,
            );
            o.features.insert("mul_add".into());
        }
        Stmt::Horner(acc, alpha, z, x) => {
            let (a, al, pz, px) = (
                o.nodes[ix(acc)].clone(),
                o.nodes[ix(alpha)].clone(),
                o.nodes[ix(z)].clone(),
                o.nodes[ix(x)].clone(),
            );
            let e = o.builder.horner_acc_step(a.expr, al.expr, pz.expr, px.expr);
            push(
                o,
                e,
                a.val * al.val + pz.val - px.val,
                NK::Horner,
                si,
                a.undefined || al.undefined || pz.undefined || px.undefined,
            );
            o.features.insert("horner".into());
            if a.kind == NK::Horner {
                o.features.insert("horner-chain".into());
            } else if a.val != C::EF::ZERO {
                o.features.insert("horner-foreign-acc".into());
            }
        }
        Stmt::AssertBool(i) => {
            let a = o.nodes[ix(i)].clone();
            if excl.sat_only && !(a.val == C::EF::ZERO || a.val == C::EF::ONE) {
                return;
            }
            o.builder.assert_bool(a.expr);
            o.asserts.push(Assertion {
                kind: "bool",
                stmt: si,
                holds: a.undefined || a.val == C::EF::ZERO || a.val == C::EF::ONE,
            });
            o.features.insert("assert_bool".into());
        }
        Stmt::Select(bi, ti, sidx) => {
            let (bb, t, s) = (
                o.nodes[ix(bi)].clone(),
                o.nodes[ix(ti)].clone(),
                o.nodes[ix(sidx)].clone(),
            );
            if o.has_ext_decomp && !is_base::<C>(&bb.val) && excl.select_ext {
                // known finding C02/...:select-with-extension-selector: coefficients of a
                // select on a non-base selector are miscomputed; excluded by construction.
                o.excluded.push("select-with-extension-selector");
                return;
            }
            let e = o.builder.select(bb.expr, t.expr, s.expr);
            push(
                o,
                e,
                s.val + bb.val * (t.val - s.val),
                NK::Select,
                si,
                bb.undefined || t.undefined || s.undefined,
            );
            o.features.insert("select".into());
        }
        Stmt::AssertZero(i) => {
            let a = o.nodes[ix(i)].clone();
            if excl.sat_only && a.val != C::EF::ZERO {
                return;
            }
            if known_class_if_connected::<C>(o, a.expr, ExprId::ZERO, excl) {
                return;
            }
            o.builder.assert_zero(a.expr);
            o.asserts.push(Assertion {
                kind: "zero",
                stmt: si,
                holds: a.undefined || a.val == C::EF::ZERO,
            });
            o.connects.push((a.kind, NK::Const));
            o.features.insert("assert_zero".into());
        }
        Stmt::Connect(i, j) => {
            let (a, c) = (o.nodes[ix(i)].clone(), o.nodes[ix(j)].clone());
            if excl.sat_only && a.val != c.val {
                return;
            }
            if known_class_if_connected::<C>(o, a.expr, c.expr, excl) {
                return;
            }
            o.builder.connect(a.expr, c.expr);
            o.asserts.push(Assertion {
                kind: "connect",
                stmt: si,
                holds: a.undefined || c.undefined || a.val == c.val,
            });
            if a.expr != c.expr {
                o.connects.push((a.kind, c.kind));
                o.features.insert("connect".into());
            }
        }
        Stmt::Copy(i, via, delta) => {
            let a = o.nodes[ix(i)].clone();
            let d = delta.resolve::<C>();
            let val = a.val + d;
            let (e, kind) = match via {
                CopyVia::Public => {
                    o.publics.push(val);
                    (o.builder.public_input(), NK::Public)
                }
                CopyVia::Private => {
                    o.privates.push(val);
                    o.features.insert("private".into());
                    (o.builder.alloc_private_input("c"), NK::Private)
                }
                CopyVia::Const => (o.builder.define_const(val), NK::Const),
            };
            if a.expr != e && known_class_if_connected::<C>(o, a.expr, e, excl) {
                // the new input/constant stays free; no connect is issued
                o.cur_deps.clear();
                push(o, e, val, kind, si, false);
                return;
            }
            o.builder.connect(a.expr, e);
            o.asserts.push(Assertion {
                kind: "copy",
                stmt: si,
                holds: a.undefined || d == C::EF::ZERO,
            });
            if a.expr != e {
                o.connects.push((a.kind, kind));
                o.features.insert(format!("copy-{via:?}"));
            }
            push(o, e, val, kind, si, a.undefined);
        }
        Stmt::Bits(i, nb) => {
            let a = o.nodes[ix(i)].clone();
            let mut nb = *nb as usize;
            let fb = <C::BF as Field>::bits();
            if excl.sat_only {
                // use exactly as many bits as the value needs (at least the requested count)
                let cs = C::coeffs(&a.val);
                let top = (0..C::D).rev().find(|&l| cs[l] != 0).unwrap_or(0);
                let need = top * fb + (64 - cs[top].leading_zeros() as usize);
                nb = nb.max(need).max(1).min(fb * C::D);
            }
            match o.builder.decompose_to_bits::<C::BF>(a.expr, nb) {
                Ok(bits) => {
                    let cs = C::coeffs(&a.val);
                    let mut recon = vec![0u64; C::D];
                    let mut vals = vec![];
                    let mut ok = true;
                    for (k, _) in bits.iter().enumerate() {
                        let limb = k / fb;
                        let pos = k % fb;
                        let bit = (cs[limb] >> pos) & 1;
                        vals.push(bit);
                        // accumulate mod 2^64 is fine: limb value < 2^fb <= 2^64
                        recon[limb] = recon[limb].wrapping_add(bit << pos);
                    }
                    for l in 0..C::D {
                        if recon[l] != cs[l] {
                            ok = false;
                        }
                    }
                    o.asserts.push(Assertion {
                        kind: "bits",
                        stmt: si,
                        holds: a.undefined || ok,
                    });
                    for (e, v) in bits.into_iter().zip(vals) {
                        push(o, e, C::base(v), NK::Bit, si, a.undefined);
                    }
                    o.features.insert("bits".into());
                }
                Err(_) => {
                    // documented: more bits than the field can represent
                    assert!(nb > <C::EF as Field>::bits(), "decompose_to_bits rejected {nb} bits");
                    o.features.insert("bits-too-many".into());
                }
            }
        }
        Stmt::ExtDecomp(i) => {
            let a = o.nodes[ix(i)].clone();
            // The decomposition ties a new recompose row's output to `a`.  If `a`'s connect class
            // already holds a table-backed non-primitive output (an earlier decomposition of an
            // expression of the same class), two rows of one table write one slot: the listed
            // duplicate-output finding, reached without an explicit connect statement.
            let (_, pre) = class_profile_if_connected::<C>(&o.builder, a.expr, a.expr);
            let a_is_npo_out = matches!(o.builder.verif_graph().get_expr(a.expr), p3_circuit::Expr::NonPrimitiveOutput { .. });
            let again = o.decomposed.contains(&a.expr.0);
            o.decomposed.push(a.expr.0);
            if pre >= 1 && !a_is_npo_out && !again && excl.two_creators {
                o.excluded.push("npo-duplicate-output");
                return;
            }
            let coeffs = o
                .builder
                .decompose_ext_to_base_coeffs::<C::BF>(a.expr)
                .expect("decompose_ext_to_base_coeffs");
            let (_, post) = class_profile_if_connected::<C>(&o.builder, a.expr, a.expr);
            if post >= 2 && post > pre {
                o.features.insert("npo-duplicate-output".into());
            }
            let cs = C::coeffs(&a.val);
            for (e, c) in coeffs.into_iter().zip(cs) {
                push(o, e, C::base(c), NK::Coeff, si, a.undefined);
            }
            o.features.insert("ext-decomp".into());
        }
        Stmt::ExtRecomp(idx) => {
            // only base-valued, well-defined nodes are legal coefficients (documented precondition)
            let cand: Vec<usize> = (0..n)
                .filter(|&k| !o.nodes[k].undefined && is_base::<C>(&o.nodes[k].val))
                .collect();
            if cand.is_empty() {
                return;
            }
            let mut exprs = vec![];
            let mut cs = vec![];
            o.cur_deps.clear();
            for d in 0..C::D {
                let k = cand[pick(idx.get(d).copied().unwrap_or(0).min(REL_BASE - 1), cand.len())];
                o.cur_deps.push(k);
                exprs.push(o.nodes[k].expr);
                cs.push(C::coeffs(&o.nodes[k].val)[0]);
            }
            let e = o
                .builder
                .recompose_base_coeffs_to_ext::<C::BF>(&exprs)
                .expect("recompose");
            push(o, e, C::ef(&cs), NK::Recomp, si, false);
            o.features.insert("ext-recomp".into());
        }
        Stmt::HornerChain(alpha, terms) => {
            let al = o.nodes[ix(alpha)].clone();
            let mut acc_e = ExprId::ZERO;
            let mut acc_v = C::EF::ZERO;
            let mut undef = al.undefined;
            for (zi, xi) in terms {
                let (pz, px) = (o.nodes[ix(zi)].clone(), o.nodes[ix(xi)].clone());
                acc_e = o.builder.horner_acc_step(acc_e, al.expr, pz.expr, px.expr);
                acc_v = acc_v * al.val + pz.val - px.val;
                undef |= pz.undefined || px.undefined;
            }
            // only the final value is handed out: intermediates stay private to the chain
            push(o, acc_e, acc_v, NK::Horner, si, undef);
            let e2 = o.builder.add(acc_e, al.expr);
            push(o, e2, acc_v + al.val, NK::Add, si, undef);
            o.features.insert("horner".into());
            o.features.insert("horner-wellformed-chain".into());
        }
        Stmt::ExpPow2(i, k) => {
            let a = o.nodes[ix(i)].clone();
            let k = (*k % 6) as usize;
            let e = o.builder.exp_power_of_2(a.expr, k);
            let mut v = a.val;
            for _ in 0..k {
                v = v * v;
            }
            push(o, e, v, NK::Helper, si, a.undefined);
        }
        Stmt::MulMany(idx) => {
            let ns: Vec<Node<C>> = idx.iter().map(|i| o.nodes[ix(i)].clone()).collect();
            let exprs: Vec<ExprId> = ns.iter().map(|x| x.expr).collect();
            let e = o.builder.mul_many(&exprs);
            let v = ns.iter().fold(C::EF::ONE, |acc, x| acc * x.val);
            let u = ns.iter().any(|x| x.undefined);
            push(o, e, v, NK::Helper, si, u);
        }
        Stmt::InnerProduct(pairs) => {
            let xs: Vec<Node<C>> = pairs.iter().map(|(i, _)| o.nodes[ix(i)].clone()).collect();
            let ys: Vec<Node<C>> = pairs.iter().map(|(_, j)| o.nodes[ix(j)].clone()).collect();
            let ex: Vec<ExprId> = xs.iter().map(|x| x.expr).collect();
            let ey: Vec<ExprId> = ys.iter().map(|x| x.expr).collect();
            let e = o.builder.inner_product(&ex, &ey);
            let v = xs
                .iter()
                .zip(&ys)
                .fold(C::EF::ZERO, |acc, (x, y)| acc + x.val * y.val);
            let u = xs.iter().chain(&ys).any(|x| x.undefined);
            push(o, e, v, NK::Helper, si, u);
            o.features.insert("inner_product".into());
        }
    }
}

/// Indices `>= REL_BASE` address nodes relative to the end (`REL_BASE + k` = k-th most recent
/// node), so that generated multi-statement patterns can refer to the nodes they just
/// created; smaller indices are scaled monotonically over all existing nodes.
pub const REL_BASE: u16 = 0xFF00;
pub fn rel(k: u16) -> u16 {
    REL_BASE + k
}
pub fn node_index(i: u16, n: usize) -> usize {
    if i >= REL_BASE {
        n.saturating_sub(1 + (i - REL_BASE) as usize)
    } else {
        ((i as usize) * n) / (REL_BASE as usize)
    }
}

/// Raw operand indices of a statement (before `pick`).
pub fn stmt_operands(st: &Stmt) -> Vec<u16> {
    match st {
        Stmt::Const(_) | Stmt::Public(_) | Stmt::Private(_) => vec![],
        Stmt::Add(a, b) | Stmt::Sub(a, b) | Stmt::Mul(a, b) | Stmt::Div(a, b) | Stmt::Connect(a, b) => {
            vec![*a, *b]
        }
        Stmt::MulAdd(a, b, c) | Stmt::Select(a, b, c) => vec![*a, *b, *c],
        Stmt::Horner(a, b, c, d) => vec![*a, *b, *c, *d],
        Stmt::AssertBool(a)
        | Stmt::AssertZero(a)
        | Stmt::Copy(a, _, _)
        | Stmt::Bits(a, _)
        | Stmt::ExtDecomp(a)
        | Stmt::ExpPow2(a, _) => vec![*a],
        Stmt::ExtRecomp(_) => vec![],
        Stmt::HornerChain(a, t) => std::iter::once(*a)
            .chain(t.iter().flat_map(|(z, x)| [*z, *x]))
            .collect(),
        Stmt::MulMany(v) => v.clone(),
        Stmt::InnerProduct(v) => v.iter().flat_map(|(a, b)| [*a, *b]).collect(),
    }
}

/// Generator knobs.
#[derive(Clone, Debug)]
pub struct GenOpts {
    pub min_len: usize,
    pub max_len: usize,
    /// allow deltas != 0 in Copy (violating inputs)
    pub violating: bool,
    /// allow arbitrary Connect(i,j) (mostly violating)
    pub free_connect: bool,
    pub allow_div: bool,
    pub allow_hints: bool,
    /// ExtDecomp / ExtRecomp statements (need allow_hints too)
    pub allow_ext: bool,
    pub allow_horner: bool,
    pub allow_private: bool,
    /// weight of free-form `Horner` statements (arbitrary accumulators)
    pub free_horner_weight: u32,
    /// out of 20: how often a chunk is an optimiser-oriented multi-statement pattern
    pub pattern_weight: u32,
    pub fields: Vec<u8>,
}

impl Default for GenOpts {
    fn default() -> Self {
        Self {
            min_len: 2,
            max_len: 40,
            violating: true,
            free_connect: true,
            allow_div: true,
            allow_hints: true,
            allow_ext: true,
            allow_horner: true,
            allow_private: true,
            free_horner_weight: 6,
            pattern_weight: 3,
            fields: vec![0, 1, 3, 4, 6],
        }
    }
}

/// Index biased to recent nodes (high values) half of the time.
fn idx() -> impl Strategy<Value = u16> {
    prop_oneof![
        3 => (0u16..REL_BASE),
        2 => (0xC000u16..REL_BASE),
        2 => (0u16..6).prop_map(rel),
    ]
}

/// Multi-statement patterns aimed at the optimiser: the same op applied to aliased copies of
/// its operands (ALU de-duplication) and a product consumed by a single add while being
/// tied to something else (mul+add fusion).
pub fn pattern_strategy(o: &GenOpts) -> BoxedStrategy<Vec<Stmt>> {
    let via = || {
        prop_oneof![
            Just(CopyVia::Public),
            Just(CopyVia::Private),
            Just(CopyVia::Const)
        ]
    };
    let z = Val::zero;
    // --- dedup: op(a, b) and op(a, copy(b)) [result optionally aliased to an input]
    let dedup = (val_strategy(), val_strategy(), via(), 0u8..5, proptest::option::of(via()), any::<bool>(), 0u8..4)
        .prop_map(move |(va, vb, v, op, alias, swap, fin)| {
            let mut s = vec![Stmt::Public(va), Stmt::Public(vb), Stmt::Copy(rel(0), v, z())];
            // nodes: a = rel(2), b = rel(1), c = rel(0)
            let mk = |op: u8, x: u16, y: u16| match op {
                0 => Stmt::Mul(x, y),
                1 => Stmt::Add(x, y),
                2 => Stmt::Sub(x, y),
                3 => Stmt::MulAdd(x, y, x),
                _ => Stmt::Horner(ExprIdx::ZERO, x, y, x),
            };
            s.push(mk(op, rel(2), rel(1))); // r1 ; now a=rel(3) b=rel(2) c=rel(1)
            if swap && op < 2 {
                s.push(mk(op, rel(1), rel(3)));
            } else {
                s.push(mk(op, rel(3), rel(1)));
            }
            // a=rel(4) b=rel(3) c=rel(2) r1=rel(1) r2=rel(0)
            let mut a = 4u16;
            if let Some(av) = alias {
                s.push(Stmt::Copy(rel(0), av, z()));
                a += 1;
            }
            // the (possibly aliased, possibly de-duplicated) result read once, by an Add whose
            // other operand is an input: a fusion candidate sitting on a renamed slot
            match fin {
                0 => s.push(Stmt::Add(rel(0), rel(a))),
                1 => s.push(Stmt::Add(rel(a), rel(0))),
                _ => s.push(Stmt::Add(rel(0), rel(1))),
            }
            s
        });
    // --- fusion: m = a*b; [m tied to something]; r = m + c
    let fusion = (val_strategy(), val_strategy(), val_strategy(), 0u8..6, via(), any::<bool>())
        .prop_map(move |(va, vb, vc, tie, v, flip)| {
            let mut s = vec![Stmt::Public(va), Stmt::Private(vb), Stmt::Public(vc), Stmt::Mul(rel(2), rel(1))];
            // a=rel(3) b=rel(2) c=rel(1) m=rel(0)
            let mut m = 0u16; // distance of m from the end
            match tie {
                0 => {}
                1 => {
                    s.push(Stmt::Copy(rel(0), v, z()));
                    m += 1;
                }
                2 => {
                    s.push(Stmt::Bits(rel(0), 64));
                    // unknown number of bit nodes: refer to m through a copy made first
                }
                3 => {
                    s.push(Stmt::AssertBool(rel(0)));
                }
                4 => {
                    // another ALU result aliased to m
                    s.push(Stmt::Add(rel(3), rel(2)));
                    s.push(Stmt::Connect(rel(0), rel(1)));
                    m += 1;
                }
                _ => {
                    s.push(Stmt::Horner(rel(0), rel(3), rel(1), rel(2)));
                    m += 1;
                }
            }
            if tie != 2 {
                let c = m + 1;
                if flip {
                    s.push(Stmt::Add(rel(c), rel(m)));
                } else {
                    s.push(Stmt::Add(rel(m), rel(c)));
                }
            }
            s
        });
    // --- an input read by a non-primitive op before a later ALU op (re)defines its slot:
    //     p private; r = recompose(p, .., p); q = x * 1 + 0 with x public = p; connect(p, q)
    let heal = (co_strategy(), any::<bool>()).prop_map(move |(cv, public_side)| {
        let v = Val(vec![cv]);
        let last_base = REL_BASE - 1; // ExtRecomp picks among base-valued nodes: the newest
        let mut s = vec![
            if public_side { Stmt::Public(v.clone()) } else { Stmt::Private(v.clone()) },
            Stmt::ExtRecomp(vec![last_base; 5]),
            if public_side { Stmt::Private(v) } else { Stmt::Public(v) },
            Stmt::Const(Val(vec![Co::One])),
            Stmt::MulAdd(rel(1), rel(0), ExprIdx::ZERO),
            Stmt::Connect(rel(4), rel(0)),
        ];
        s.push(Stmt::Mul(rel(3), rel(0)));
        s
    });
    // --- select provenance: sel = select(b, t, s) with a recomposed branch, optionally tied
    //     back to one of its own branches by `connect`, then decomposed into coefficients
    //     (coefficient-wise select shortcut of `decompose_ext_to_base_coeffs`)
    let selprov = (any::<bool>(), val_strategy(), co_strategy(), 0u8..3, any::<bool>(), any::<bool>())
        .prop_map(move |(bit, vt, cv, tie, swap, nest)| {
            let last_base = REL_BASE - 1;
            let b = Val(vec![if bit { Co::One } else { Co::Z }]);
            let mut s = vec![
                Stmt::Public(b),
                Stmt::Public(vt),
                Stmt::Public(Val(vec![cv])),
                Stmt::ExtRecomp(vec![last_base; 5]),
            ];
            // b=rel(3) t=rel(2) c=rel(1) s=rel(0)
            if swap {
                s.push(Stmt::Select(rel(3), rel(0), rel(2)));
            } else {
                s.push(Stmt::Select(rel(3), rel(2), rel(0)));
            }
            // b=rel(4) t=rel(3) c=rel(2) s=rel(1) sel=rel(0)
            match tie {
                1 => s.push(Stmt::Connect(rel(0), rel(3))),
                2 => s.push(Stmt::Connect(rel(0), rel(1))),
                _ => {}
            }
            if nest {
                // a select over the select: sel2 = select(b, sel, t)
                s.push(Stmt::Select(rel(4), rel(0), rel(3)));
            }
            s.push(Stmt::ExtDecomp(rel(0)));
            s.push(Stmt::Add(rel(0), rel(1)));
            s
        });
    // --- products first, folded afterwards: m_i = a_i * b_i (all of them), then
    //     o_1 = k + m_1, o_2 = o_1 + m_2, ...: every fusion after the first is legal only because
    //     the previous one is fused too (its addend is the previous fusion's output)
    let foldafter = (proptest::collection::vec((val_strategy(), val_strategy()), 2..=6), val_strategy(), any::<bool>())
        .prop_map(move |(pairs, k, flip)| {
            let n = pairs.len();
            let mut s: Vec<Stmt> = vec![];
            let mut pushed = 0u16;
            // node `i` (0-based within the pattern) is `rel(pushed - 1 - i)` once `pushed` nodes exist
            let at = |i: u16, pushed: u16| rel(pushed - 1 - i);
            for (va, vb) in &pairs {
                s.push(Stmt::Public(va.clone()));
                s.push(Stmt::Public(vb.clone()));
                pushed += 2;
            }
            for i in 0..n as u16 {
                s.push(Stmt::Mul(at(2 * i, pushed), at(2 * i + 1, pushed)));
                pushed += 1;
            }
            s.push(Stmt::Const(k.clone()));
            pushed += 1;
            let mut acc = pushed - 1; // node index of the running sum
            for i in 0..n as u16 {
                let m = 2 * n as u16 + i;
                if flip {
                    s.push(Stmt::Add(at(m, pushed), at(acc, pushed)));
                } else {
                    s.push(Stmt::Add(at(acc, pushed), at(m, pushed)));
                }
                pushed += 1;
                acc = pushed - 1;
            }
            s
        });
    if o.allow_hints && o.allow_ext {
        prop_oneof![4 => dedup, 4 => fusion, 1 => heal, 2 => selprov, 2 => foldafter].boxed()
    } else {
        // the `heal` pattern recomposes coefficients; generators without ext statements skip it
        prop_oneof![4 => dedup, 4 => fusion, 2 => foldafter].boxed()
    }
}

struct ExprIdx;
impl ExprIdx {
    /// scaled index 0 always addresses node 0, the zero constant
    const ZERO: u16 = 0;
}

pub fn stmt_strategy(o: &GenOpts) -> BoxedStrategy<Stmt> {
    let delta = if o.violating {
        prop_oneof![
            9 => Just(Val::zero()),
            1 => nonzero_val_strategy(),
        ]
        .boxed()
    } else {
        Just(Val::zero()).boxed()
    };
    let via = if o.allow_private {
        prop_oneof![
            Just(CopyVia::Public),
            Just(CopyVia::Private),
            Just(CopyVia::Const)
        ]
        .boxed()
    } else {
        prop_oneof![Just(CopyVia::Public), Just(CopyVia::Const)].boxed()
    };
    let mut alts: Vec<(u32, BoxedStrategy<Stmt>)> = vec![
        (6, val_strategy().prop_map(Stmt::Const).boxed()),
        (8, val_strategy().prop_map(Stmt::Public).boxed()),
        (10, (idx(), idx()).prop_map(|(a, b)| Stmt::Add(a, b)).boxed()),
        (8, (idx(), idx()).prop_map(|(a, b)| Stmt::Sub(a, b)).boxed()),
        (10, (idx(), idx()).prop_map(|(a, b)| Stmt::Mul(a, b)).boxed()),
        (
            6,
            (idx(), idx(), idx())
                .prop_map(|(a, b, c)| Stmt::MulAdd(a, b, c))
                .boxed(),
        ),
        (2, idx().prop_map(Stmt::AssertBool).boxed()),
        (
            3,
            (idx(), idx(), idx())
                .prop_map(|(a, b, c)| Stmt::Select(a, b, c))
                .boxed(),
        ),
        (
            10,
            (idx(), via, delta)
                .prop_map(|(i, v, d)| Stmt::Copy(i, v, d))
                .boxed(),
        ),
        (1, (idx(), 0u8..4).prop_map(|(i, k)| Stmt::ExpPow2(i, k)).boxed()),
        (
            1,
            proptest::collection::vec(idx(), 0..4)
                .prop_map(Stmt::MulMany)
                .boxed(),
        ),
        (
            1,
            proptest::collection::vec((idx(), idx()), 0..3)
                .prop_map(Stmt::InnerProduct)
                .boxed(),
        ),
    ];
    if o.allow_private {
        alts.push((4, val_strategy().prop_map(Stmt::Private).boxed()));
    }
    if o.allow_div {
        alts.push((5, (idx(), idx()).prop_map(|(a, b)| Stmt::Div(a, b)).boxed()));
    }
    if o.free_connect {
        alts.push((3, (idx(), idx()).prop_map(|(a, b)| Stmt::Connect(a, b)).boxed()));
        alts.push((1, idx().prop_map(Stmt::AssertZero).boxed()));
    }
    if o.allow_horner {
        alts.push((
            5,
            (idx(), proptest::collection::vec((idx(), idx()), 1..7))
                .prop_map(|(a, t)| Stmt::HornerChain(a, t))
                .boxed(),
        ));
        alts.push((
            o.free_horner_weight.max(1),
            (idx(), idx(), idx(), idx())
                .prop_map(|(a, b, c, d)| Stmt::Horner(a, b, c, d))
                .boxed(),
        ));
    }
    if o.allow_hints {
        alts.push((
            3,
            (idx(), prop_oneof![1u8..8, 1u8..70, Just(31u8), Just(32u8), Just(64u8)])
                .prop_map(|(i, n)| Stmt::Bits(i, n))
                .boxed(),
        ));
    }
    if o.allow_hints && o.allow_ext {
        alts.push((3, idx().prop_map(Stmt::ExtDecomp).boxed()));
        alts.push((
            3,
            proptest::collection::vec(idx(), 5)
                .prop_map(Stmt::ExtRecomp)
                .boxed(),
        ));
    }
    proptest::strategy::Union::new_weighted(alts).boxed()
}

pub fn prog_strategy(o: GenOpts) -> impl Strategy<Value = Prog> {
    let fields = o.fields.clone();
    let single = stmt_strategy(&o).prop_map(|s| vec![s]);
    let chunk = if o.pattern_weight > 0 {
        prop_oneof![
            (20 - o.pattern_weight.min(19)) => single,
            o.pattern_weight.min(19) => pattern_strategy(&o),
        ]
        .boxed()
    } else {
        single.boxed()
    };
    let max_len = o.max_len;
    (
        proptest::sample::select(fields),
        any::<bool>(),
        proptest::collection::vec(chunk, o.min_len..=o.max_len),
    )
        .prop_map(move |(field, recompose_npo, chunks)| {
            let mut stmts: Vec<Stmt> = chunks.into_iter().flatten().collect();
            stmts.truncate(max_len.max(8) * 2);
            Prog {
                field,
                recompose_npo,
                stmts,
            }
        })
}

/// Compact rendering of an op for debugging output.
pub fn fmt_op<C: Fc>(op: &p3_circuit::Op<C::EF>) -> String {
    use p3_circuit::Op;
    match op {
        Op::Const { out, val } => format!("Const w{} = {:?}", out.0, C::coeffs(val)),
        Op::Public { out, public_pos } => format!("Public w{} = pub[{}]", out.0, public_pos),
        Op::Alu { kind, a, b, c, out, intermediate_out } => format!(
            "{:?} a=w{} b=w{} c={:?} out=w{} io={:?}",
            kind, a.0, b.0, c.map(|x| x.0), out.0, intermediate_out.map(|x| x.0)
        ),
        Op::Hint { inputs, outputs, .. } => format!(
            "Hint in={:?} out={:?}",
            inputs.iter().map(|w| w.0).collect::<Vec<_>>(),
            outputs.iter().map(|w| w.0).collect::<Vec<_>>()
        ),
        Op::NonPrimitiveOpWithExecutor { inputs, outputs, executor, op_id } => format!(
            "Npo#{} {:?} in={:?} out={:?}",
            op_id.0,
            executor.op_type(),
            inputs.iter().map(|g| g.iter().map(|w| w.0).collect::<Vec<_>>()).collect::<Vec<_>>(),
            outputs.iter().map(|g| g.iter().map(|w| w.0).collect::<Vec<_>>()).collect::<Vec<_>>()
        ),
    }
}

/// Known-finding class "coeff-slot-second-creator" (C09/C10, decompose linkage on): a
/// `recompose/coeff` row sends each of its hint-derived coefficient slots with creator
/// multiplicity.  That is only right when the row is the slot's single creator and the slot's
/// first appearance: the preprocessing does not notice a coefficient slot that (a) occurs twice
/// among the coefficient inputs of such rows (two coefficients tied by `connect`), (b) is also
/// the output of an ALU / Const / Public / table-backed non-primitive row, or (c) is used by an
/// op that precedes the row in the op list (that op then took the creator role of a fresh hint
/// output).  Returns `false` for circuits of that shape.
pub fn coeff_slots_ok<F: p3_field::Field>(circuit: &p3_circuit::Circuit<F>) -> bool {
    use p3_circuit::Op;
    let mut seen_use: std::collections::HashSet<u32> = std::collections::HashSet::new();
    let mut produced: std::collections::HashSet<u32> = std::collections::HashSet::new();
    let mut coeffs: std::collections::HashSet<u32> = std::collections::HashSet::new();
    let mut later_check: Vec<u32> = vec![];
    for op in &circuit.ops {
        match op {
            Op::Const { out, .. } | Op::Public { out, .. } => {
                produced.insert(out.0);
            }
            Op::Alu { a, b, c, out, .. } => {
                for w in [Some(*a), Some(*b), *c].into_iter().flatten() {
                    seen_use.insert(w.0);
                }
                produced.insert(out.0);
                seen_use.insert(out.0);
            }
            Op::Hint { inputs, .. } => {
                for w in inputs {
                    seen_use.insert(w.0);
                }
            }
            Op::NonPrimitiveOpWithExecutor { executor, inputs, outputs, .. } => {
                // the coefficient inputs of a `recompose/coeff` row (first input limb) are sent
                // with creator multiplicity (decided on the type id: no dependency on the
                // executor trait's helper, which a change of the repo may rename)
                let created: Vec<p3_circuit::WitnessId> = if executor.op_type().as_str() == "recompose/coeff" {
                    inputs.first().cloned().unwrap_or_default()
                } else {
                    Vec::new()
                };
                for w in &created {
                    // (a) twice among coefficient inputs, (c) used before this row
                    if !coeffs.insert(w.0) || seen_use.contains(&w.0) {
                        return false;
                    }
                    later_check.push(w.0);
                }
                for w in inputs.iter().flatten() {
                    seen_use.insert(w.0);
                }
                for w in outputs.iter().flatten() {
                    // the row's own output equal to one of its coefficients
                    if created.iter().any(|c| c.0 == w.0) {
                        return false;
                    }
                    produced.insert(w.0);
                    seen_use.insert(w.0);
                }
            }
        }
    }
    // (b) another producer anywhere in the op list
    later_check.iter().all(|w| !produced.contains(w))
}

/// Does every `HornerAcc` op of the compiled circuit follow the positional contract of the
/// ALU table?  The table takes the accumulator of a Horner row from the previous ALU row:
/// a maximal run of consecutive `HornerAcc` ops is one chain that starts from 0, and the
/// outputs of all but the last step of a run are not placed on the witness bus.  A circuit
/// in which a step's accumulator is anything else, or in which an intermediate output is
/// referenced elsewhere, falls into the known finding "horner-positional-contract".
pub fn horner_shape_ok<F: p3_field::Field>(circuit: &p3_circuit::Circuit<F>) -> bool {
    use p3_circuit::{AluOpKind, Op};
    let alu: Vec<&Op<F>> = circuit
        .ops
        .iter()
        .filter(|op| matches!(op, Op::Alu { .. }))
        .collect();
    let zero_slots: std::collections::HashSet<u32> = circuit
        .ops
        .iter()
        .filter_map(|op| match op {
            Op::Const { out, val } if *val == F::ZERO => Some(out.0),
            _ => None,
        })
        .collect();
    // reference counts of every slot over all ops (any role)
    let mut refs: std::collections::HashMap<u32, usize> = std::collections::HashMap::new();
    for op in &circuit.ops {
        match op {
            Op::Const { out, .. } | Op::Public { out, .. } => *refs.entry(out.0).or_default() += 1,
            Op::Alu { a, b, c, out, intermediate_out, .. } => {
                for w in [Some(*a), Some(*b), *c, Some(*out), *intermediate_out].into_iter().flatten() {
                    *refs.entry(w.0).or_default() += 1;
                }
            }
            Op::Hint { inputs, outputs, .. } => {
                for w in inputs.iter().chain(outputs) {
                    *refs.entry(w.0).or_default() += 1;
                }
            }
            Op::NonPrimitiveOpWithExecutor { inputs, outputs, .. } => {
                for w in inputs.iter().flatten().chain(outputs.iter().flatten()) {
                    *refs.entry(w.0).or_default() += 1;
                }
            }
        }
    }
    for (i, op) in alu.iter().enumerate() {
        let Op::Alu { kind: AluOpKind::HornerAcc, out, intermediate_out, .. } = op else {
            continue;
        };
        let acc = intermediate_out.expect("HornerAcc carries its accumulator");
        let prev = if i > 0 { Some(alu[i - 1]) } else { None };
        match prev {
            Some(Op::Alu { kind: AluOpKind::HornerAcc, out: prev_out, .. }) => {
                if acc != *prev_out {
                    return false;
                }
            }
            _ => {
                if !zero_slots.contains(&acc.0) {
                    return false;
                }
            }
        }
        // intermediate output (a next Horner step follows): must be referenced exactly twice
        // (its own `out` and the next step's accumulator)
        if let Some(Op::Alu { kind: AluOpKind::HornerAcc, .. }) = alu.get(i + 1) {
            if refs.get(&out.0).copied().unwrap_or(0) != 2 {
                return false;
            }
            // and must not be exposed through the public mapping / connect classes
            if circuit.public_rows.iter().any(|w| w == out)
                || circuit.private_input_rows.iter().any(|w| w == out)
            {
                return false;
            }
        }
    }
    true
}

/// Evaluate the *source* relations of an interpreted program on arbitrary node values
/// `v(node index)` (used by C03: values are read from a candidate witness assignment).
/// Returns the first violated relation.
pub fn src_relations_hold<C: Fc>(
    prog: &Prog,
    built: &Built<C>,
    v: &dyn Fn(usize) -> C::EF,
) -> Result<(), String> {
    let zero = C::EF::ZERO;
    let one = C::EF::ONE;
    // node 0 is the zero constant
    if v(0) != zero {
        return Err("const ZERO".into());
    }
    for rec in &built.recs {
        let st = &prog.stmts[rec.si];
        let o = &rec.operands;
        let p = &rec.produced;
        let bad = |what: &str| Err(format!("{what}@stmt{}", rec.si));
        match st {
            Stmt::Const(_) => {
                if v(p[0]) != built.nodes[p[0]].val {
                    return bad("const");
                }
            }
            Stmt::Public(_) | Stmt::Private(_) => {}
            Stmt::Add(..) => {
                if v(p[0]) != v(o[0]) + v(o[1]) {
                    return bad("add");
                }
            }
            Stmt::Sub(..) => {
                if v(p[0]) != v(o[0]) - v(o[1]) {
                    return bad("sub");
                }
            }
            Stmt::Mul(..) => {
                if v(p[0]) != v(o[0]) * v(o[1]) {
                    return bad("mul");
                }
            }
            Stmt::Div(..) => {
                // quotient * divisor = dividend (the statement's meaning for non-zero divisors)
                if v(o[1]) != zero && v(p[0]) * v(o[1]) != v(o[0]) {
                    return bad("div");
                }
            }
            Stmt::MulAdd(..) => {
                if v(p[0]) != v(o[0]) * v(o[1]) + v(o[2]) {
                    return bad("mul_add");
                }
            }
            Stmt::Horner(..) => {
                if v(p[0]) != v(o[0]) * v(o[1]) + v(o[2]) - v(o[3]) {
                    return bad("horner");
                }
            }
            Stmt::HornerChain(..) => {
                let al = v(o[0]);
                let mut acc = zero;
                for t in o[1..].chunks(2) {
                    acc = acc * al + v(t[0]) - v(t[1]);
                }
                if v(p[0]) != acc {
                    return bad("horner-chain");
                }
                if v(p[1]) != v(p[0]) + al {
                    return bad("horner-chain-add");
                }
            }
            Stmt::AssertBool(_) => {
                if !(v(o[0]) == zero || v(o[0]) == one) {
                    return bad("assert_bool");
                }
            }
            Stmt::Select(..) => {
                if v(p[0]) != v(o[2]) + v(o[0]) * (v(o[1]) - v(o[2])) {
                    return bad("select");
                }
            }
            Stmt::AssertZero(_) => {
                if v(o[0]) != zero {
                    return bad("assert_zero");
                }
            }
            Stmt::Connect(..) => {
                if v(o[0]) != v(o[1]) {
                    return bad("connect");
                }
            }
            Stmt::Copy(_, via, _) => {
                if *via == CopyVia::Const && v(p[0]) != built.nodes[p[0]].val {
                    return bad("copy-const");
                }
                // an excluded copy leaves the new input free (no operand recorded)
                if let Some(&src) = o.first() {
                    if v(p[0]) != v(src) {
                        return bad("copy-connect");
                    }
                }
            }
            Stmt::Bits(..) => {
                let fb = <C::BF as Field>::bits();
                let mut limbs = vec![C::EF::ZERO; C::D];
                for (k, &b) in p.iter().enumerate() {
                    let bv = v(b);
                    if !(bv == zero || bv == one) {
                        return bad("bits-bool");
                    }
                    let pow = C::BF::TWO.exp_u64((k % fb) as u64);
                    limbs[k / fb] += bv * pow;
                }
                let mut recon = zero;
                for (l, limb) in limbs.iter().enumerate() {
                    let mut e = vec![0u64; C::D];
                    e[l] = 1;
                    recon += *limb * C::ef(&e);
                }
                if recon != v(o[0]) {
                    return bad("bits-recompose");
                }
            }
            Stmt::ExtDecomp(_) | Stmt::ExtRecomp(_) => {
                // x = sum coeff_i * e_i (coefficient nodes are base-field values by contract;
                // their canonicity is the subject of C12, not of this relation)
                let (x, cs): (usize, Vec<usize>) = match st {
                    Stmt::ExtDecomp(_) => (o[0], p.clone()),
                    _ => (p[0], o.clone()),
                };
                let mut recon = zero;
                for (l, &c) in cs.iter().enumerate() {
                    let mut e = vec![0u64; C::D];
                    e[l] = 1;
                    recon += C::base(C::coeffs(&v(c))[0]) * C::ef(&e);
                }
                if recon != v(x) {
                    return bad("ext-recompose");
                }
            }
            Stmt::ExpPow2(_, k) => {
                let mut x = v(o[0]);
                for _ in 0..(*k % 6) {
                    x = x * x;
                }
                if v(p[0]) != x {
                    return bad("exp_pow2");
                }
            }
            Stmt::MulMany(_) => {
                let x = o.iter().fold(one, |acc, &i| acc * v(i));
                if v(p[0]) != x {
                    return bad("mul_many");
                }
            }
            Stmt::InnerProduct(_) => {
                let x = o.chunks(2).fold(zero, |acc, t| acc + v(t[0]) * v(t[1]));
                if v(p[0]) != x {
                    return bad("inner_product");
                }
            }
        }
    }
    Ok(())
}
