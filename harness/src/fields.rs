//! Field configurations the checks quantify over.

use core::fmt::Debug;
use core::hash::Hash;

use p3_baby_bear::BabyBear;
use p3_field::extension::{BinomialExtensionField, QuinticTrinomialExtensionField};
use p3_field::{BasedVectorSpace, ExtensionField, Field, PrimeCharacteristicRing, PrimeField64};
use p3_goldilocks::Goldilocks;
use p3_koala_bear::KoalaBear;

/// A (base field, circuit field) pair.
pub trait Fc: 'static + Send + Sync + Copy + Debug {
    type BF: PrimeField64 + Send + Sync;
    type EF: ExtensionField<Self::BF> + Field + Hash + Eq + Send + Sync + Debug;
    const D: usize;
    const NAME: &'static str;

    fn ef(coeffs: &[u64]) -> Self::EF {
        let mut v: Vec<Self::BF> = coeffs.iter().map(|&c| Self::BF::from_u64(c)).collect();
        v.resize(Self::D, Self::BF::ZERO);
        <Self::EF as BasedVectorSpace<Self::BF>>::from_basis_coefficients_slice(&v).unwrap()
    }
    fn coeffs(x: &Self::EF) -> Vec<u64> {
        <Self::EF as BasedVectorSpace<Self::BF>>::as_basis_coefficients_slice(x)
            .iter()
            .map(|c| c.as_canonical_u64())
            .collect()
    }
    fn base(c: u64) -> Self::EF {
        Self::ef(&[c])
    }
    fn is_base(x: &Self::EF) -> bool {
        Self::coeffs(x)[1..].iter().all(|&c| c == 0)
    }
    fn p() -> u64 {
        Self::BF::ORDER_U64
    }
}

#[derive(Clone, Copy, Debug)]
pub struct Bb1;
#[derive(Clone, Copy, Debug)]
pub struct Bb4;
#[derive(Clone, Copy, Debug)]
pub struct Kb1;
#[derive(Clone, Copy, Debug)]
pub struct Kb4;
#[derive(Clone, Copy, Debug)]
pub struct Kb5;
#[derive(Clone, Copy, Debug)]
pub struct Gl1;
#[derive(Clone, Copy, Debug)]
pub struct Gl2;

impl Fc for Bb1 {
    type BF = BabyBear;
    type EF = BabyBear;
    const D: usize = 1;
    const NAME: &'static str = "babybear-d1";
}
impl Fc for Bb4 {
    type BF = BabyBear;
    type EF = BinomialExtensionField<BabyBear, 4>;
    const D: usize = 4;
    const NAME: &'static str = "babybear-d4";
}
impl Fc for Kb1 {
    type BF = KoalaBear;
    type EF = KoalaBear;
    const D: usize = 1;
    const NAME: &'static str = "koalabear-d1";
}
impl Fc for Kb4 {
    type BF = KoalaBear;
    type EF = BinomialExtensionField<KoalaBear, 4>;
    const D: usize = 4;
    const NAME: &'static str = "koalabear-d4";
}
impl Fc for Kb5 {
    type BF = KoalaBear;
    type EF = QuinticTrinomialExtensionField<KoalaBear>;
    const D: usize = 5;
    const NAME: &'static str = "koalabear-quintic-d5";
}
impl Fc for Gl1 {
    type BF = Goldilocks;
    type EF = Goldilocks;
    const D: usize = 1;
    const NAME: &'static str = "goldilocks-d1";
}
impl Fc for Gl2 {
    type BF = Goldilocks;
    type EF = BinomialExtensionField<Goldilocks, 2>;
    const D: usize = 2;
    const NAME: &'static str = "goldilocks-d2";
}

/// Names of all field configurations, for `dispatch_field!`.
pub const ALL_FIELDS: [&str; 7] = [
    Bb1::NAME,
    Bb4::NAME,
    Kb1::NAME,
    Kb4::NAME,
    Kb5::NAME,
    Gl1::NAME,
    Gl2::NAME,
];

/// Call `$body` with `$C` bound to the field configuration type named by `$idx` (0..7).
#[macro_export]
macro_rules! dispatch_field {
    ($idx:expr, $C:ident => $body:expr) => {{
        match $idx % 7 {
            0 => {
                type $C = $crate::fields::Bb1;
                $body
            }
            1 => {
                type $C = $crate::fields::Bb4;
                $body
            }
            2 => {
                type $C = $crate::fields::Kb1;
                $body
            }
            3 => {
                type $C = $crate::fields::Kb4;
                $body
            }
            4 => {
                type $C = $crate::fields::Kb5;
                $body
            }
            5 => {
                type $C = $crate::fields::Gl1;
                $body
            }
            _ => {
                type $C = $crate::fields::Gl2;
                $body
            }
        }
    }};
}
