//! `verif <PROPERTY> [--tier quick|thorough] [--replay <file>]`
//!
//! Exit codes: 0 = property held on everything explored; 1 = violation (a line
//! `VIOLATION property=<id> replay=<path>` is printed); 2 = inconclusive / harness error.

mod checks;
mod e1;
mod fields;
mod forge;
mod fw;
mod jsonmut;
mod opsem;
mod pv;

use fw::{Ctx, ReplayFile, Tier};

fn main() {
    let args: Vec<String> = std::env::args().collect();
    if args.len() < 2 {
        eprintln!("usage: verif <ID> [--tier quick|thorough] [--replay file]");
        std::process::exit(2);
    }
    let id = args[1].clone();
    if id == "__c19-child" {
        std::panic::set_hook(Box::new(|_| {}));
        std::process::exit(checks::c19::child_main());
    }
    if id == "__c18-child" {
        std::panic::set_hook(Box::new(|_| {}));
        std::process::exit(checks::c18::child_main());
    }
    let mut tier = match std::env::var("VERIF_TIER").as_deref() {
        Ok("thorough") => Tier::Thorough,
        _ => Tier::Quick,
    };
    let mut replay: Option<ReplayFile> = None;
    let mut i = 2;
    while i < args.len() {
        match args[i].as_str() {
            "--tier" => {
                tier = if args[i + 1] == "thorough" {
                    Tier::Thorough
                } else {
                    Tier::Quick
                };
                i += 2;
            }
            "--replay" => {
                let s = std::fs::read_to_string(&args[i + 1]).unwrap_or_else(|e| {
                    eprintln!("cannot read replay file: {e}");
                    std::process::exit(2)
                });
                let rf: ReplayFile = serde_json::from_str(&s).unwrap_or_else(|e| {
                    eprintln!("replay file is not valid: {e}");
                    std::process::exit(2)
                });
                // SAFETY: single-threaded at this point.
                unsafe { std::env::set_var("VERIF_REPLAY_PATH", &args[i + 1]) };
                replay = Some(rf);
                i += 2;
            }
            other => {
                eprintln!("unknown argument {other}");
                std::process::exit(2);
            }
        }
    }
    let seed: u64 = std::env::var("VERIF_SEED")
        .ok()
        .and_then(|s| s.trim().parse::<i128>().ok())
        .map(|v| v as u64)
        .unwrap_or(1);
    if std::env::var("VERIF_NO_EXCLUDE").is_ok() {
        // replay a case exactly as written, without known-finding exclusions
        e1::NO_EXCLUDE.store(true, std::sync::atomic::Ordering::Relaxed);
    }
    // keep panics from generated cases quiet; they are caught and classified
    if std::env::var("VERIF_PANIC_TRACE").is_err() {
        std::panic::set_hook(Box::new(|_| {}));
    }

    let Some(check) = checks::lookup(&id) else {
        eprintln!("unknown property {id}");
        std::process::exit(2);
    };
    fw::start_watchdog(match tier {
        Tier::Quick => 40 * 60,
        Tier::Thorough => 6 * 3600,
    });
    let ctx = Ctx::new(&id, tier, seed, check.level, replay);
    (check.run)(&ctx);
    std::process::exit(ctx.finish());
}
