//! C10 — every buildable circuit with satisfying inputs can be proven and verified.

use p3_circuit_prover::TablePacking;
use proptest::prelude::*;
use serde::{Deserialize, Serialize};

use crate::dispatch_field;
use crate::e1::{self, Built, GenOpts, Prog};
use crate::fw::{Ctx, Report, Verdict, hash_of};
use crate::pv::{NpoSel, Pv, PvErr};

#[derive(Clone, Debug, Serialize, Deserialize, Hash)]
pub struct Case {
    pub prog: Prog,
    pub public_lanes: u8,
    pub alu_lanes: u8,
    pub horner_k: u8,
    pub log_min_height: u8,
}

pub const RULE: &str = "random satisfying source programs x prover configuration (public lanes 1-4, ALU lanes 1-4, \
Horner packing k 2-4, min trace height 2^0..2^5, recompose tables on/off, 7 field configurations); oracle: run Ok => \
prove Ok => verify Ok; non-trivial = program has a Horner step, or an empty/dummy table, or >= 2 lanes with a \
partially filled last row; distinct on (program hash, configuration)";

pub fn packing(c: &Case) -> TablePacking {
    TablePacking::new(1 + (c.public_lanes % 4) as usize, 1 + (c.alu_lanes % 4) as usize)
        .with_horner_pack_k(2 + (c.horner_k % 5) as usize)
        .with_min_trace_height(1usize << (c.log_min_height % 6))
}

fn check<C: Pv>(c: &Case) -> Report {
    // half of the cases link decompositions through the `recompose/coeff` table
    let coeff_ctl = c.log_min_height % 2 == 1;
    e1::COEFF_CTL.with(|f| f.set(coeff_ctl));
    let built: Built<C> = e1::interpret::<C>(&c.prog, e1::Excl::ALL_SAT);
    e1::COEFF_CTL.with(|f| f.set(false));
    if !built.src_sat() {
        return Report::discard("program not satisfied by its inputs");
    }
    let Built {
        builder,
        publics,
        privates,
        features,
        excluded,
        ..
    } = built;
    let circuit = match builder.build() {
        Ok(x) => x,
        Err(e) => return Report::fail("C10/build-error", format!("{e:?}")),
    };
    let horner_ok = e1::horner_shape_ok(&circuit);
    if e1::exclude_known() && !horner_ok {
        // known finding C10/horner-positional-contract: excluded by construction (counted)
        return Report::pass()
            .class("excluded_by_known_finding:horner-positional-contract")
            .class(format!("field:{}", C::NAME));
    }
    let coeff_ok = e1::coeff_slots_ok(&circuit);
    if e1::exclude_known() && !coeff_ok {
        // known finding C10/coeff-slot-second-creator: excluded by construction (counted)
        return Report::pass()
            .class("excluded_by_known_finding:coeff-slot-second-creator")
            .class(format!("field:{}", C::NAME));
    }
    let mut runner = circuit.runner();
    if let Err(e) = runner
        .set_public_inputs(&publics)
        .and_then(|_| runner.set_private_inputs(&privates))
    {
        return Report::fail("C10/set-inputs-failed", format!("{e:?}"));
    }
    let traces = match runner.run() {
        Ok(t) => t,
        Err(e) => {
            return Report::fail(
                format!("C10/run-failed:{}", crate::checks::c02::err_name(&e)),
                format!("{e:?}"),
            );
        }
    };
    // recompose operations per table row (non-default lane counts of a non-primitive table)
    let rl = [1usize, 1, 2, 4][(c.public_lanes as usize + 2 * c.alu_lanes as usize + c.horner_k as usize) % 4];
    let pk = packing(c)
        .with_npo_lanes(p3_circuit::ops::NpoTypeId::recompose(), rl)
        .with_npo_lanes(p3_circuit::ops::NpoTypeId::recompose_with_coeff_lookups(), rl);
    let alu_ops = traces.alu_trace.values.len();
    let pub_ops = traces.public_trace.values.len();
    let nontrivial = features.contains("horner")
        || alu_ops == 0
        || pub_ops == 0
        || (pk.alu_lanes() > 1 && alu_ops % pk.alu_lanes() != 0)
        || (pk.public_lanes() > 1 && pub_ops % pk.public_lanes() != 0);
    let mut rep = Report::pass()
        .nontrivial(nontrivial)
        .key(hash_of(c))
        .class(format!("field:{}", C::NAME))
        .class(format!("alu_lanes:{}", pk.alu_lanes()))
        .class(format!("horner_k:{}", pk.horner_packed_steps()))
        .class(if c.prog.recompose_npo { format!("recompose_lanes:{rl}") } else { "recompose_lanes:-".to_string() })
        .class(if c.prog.recompose_npo && coeff_ctl { "decompose-links:recompose/coeff" } else { "decompose-links:default" })
        .classes(features.iter().map(|f| format!("feat:{f}")))
        .classes(excluded.iter().map(|e| format!("excluded_by_known_finding:{e}")));
    if alu_ops == 0 {
        rep = rep.class("shape:empty-alu");
    }
    if pub_ops == 0 {
        rep = rep.class("shape:empty-public");
    }
    let npo = NpoSel {
        recompose: c.prog.recompose_npo,
        debug_lookups: false,
        poseidon2: None,
        poseidon1: None,
    };
    match C::prove_verify(&circuit, &traces, &pk, &npo) {
        Ok(()) => rep.class("outcome:proved+verified"),
        Err(PvErr::Setup(m)) if m.starts_with("UnclaimedPrivateInput") => {
            // documented restriction (CircuitError::UnclaimedPrivateInput): a private input
            // that no ALU op reads has no bus creator; outside the property's domain
            Report::discard("documented: unclaimed private input")
        }
        Err(e) => {
            // a failing case that lies in a known-finding class (decided on the compiled
            // circuit's shape, not on the outcome) is attributed to that class
            let sig = if !horner_ok {
                "C10/horner-positional-contract".to_string()
            } else if !coeff_ok {
                "C10/coeff-slot-second-creator".to_string()
            } else if features.contains("two-creators") {
                "C10/two-creators".to_string()
            } else if features.contains("npo-duplicate-output") {
                "C10/npo-duplicate-output".to_string()
            } else {
                fail_sig::<C>(&e, &features)
            };
            // diagnostics: ask p3-lookup's multiset debugger what is unbalanced
            let dbg = match C::prove_verify(&circuit, &traces, &pk, &NpoSel { debug_lookups: true, ..npo.clone() }) {
                Err(PvErr::ProvePanic(m)) => format!(" | lookup debugger: {}", m.chars().take(500).collect::<String>()),
                _ => String::new(),
            };
            if std::env::var("VERIF_DEBUG").is_ok() {
                for op in &circuit.ops {
                    eprintln!("  {}", e1::fmt_op::<C>(op));
                }
                eprintln!("private rows {:?}", circuit.private_input_rows);
            }
            rep.verdict = Verdict::Fail {
                sig,
                msg: format!("run() Ok but {}: {}{}", e.kind(), e.msg().chars().take(600).collect::<String>(), dbg),
            };
            rep
        }
    }
}

fn fail_sig<C: Pv>(e: &PvErr, features: &std::collections::BTreeSet<String>) -> String {
    let detail: String = match e {
        PvErr::Setup(m) | PvErr::Prove(m) => m
            .split(|c: char| !c.is_alphanumeric())
            .find(|w| !w.is_empty())
            .unwrap_or("")
            .to_string(),
        PvErr::Verify(m) => {
            // e.g. Verify("OodEvaluationMismatch { .. }") / Lookup(TerminalSumNonZero)
            let inner = m.trim_start_matches("Verify(\"").to_string();
            inner
                .split(|c: char| !(c.is_alphanumeric() || c == '(' ))
                .find(|w| !w.is_empty())
                .unwrap_or("")
                .chars()
                .take(40)
                .collect()
        }
        PvErr::ProvePanic(m) | PvErr::VerifyPanic(m) => crate::fw::sig_of_panic(m),
    };
    let mut shape = vec![];
    if features.contains("horner-foreign-acc") {
        shape.push("horner-foreign-acc");
    } else if features.contains("horner") {
        shape.push("horner");
    }
    format!("C10/{}:{}:{}", e.kind(), detail, shape.join("+"))
}

pub fn oracle(c: &Case) -> Report {
    dispatch_field!(c.prog.field as usize, C => check::<C>(c))
}

pub fn strategy(opts: GenOpts) -> impl Strategy<Value = Case> {
    (e1::prog_strategy(opts), 0u8..4, 0u8..4, prop_oneof![3 => 0u8..3, 1 => 3u8..5], 0u8..6).prop_map(
        |(prog, public_lanes, alu_lanes, horner_k, log_min_height)| Case {
            prog,
            public_lanes,
            alu_lanes,
            horner_k,
            log_min_height,
        },
    )
}

pub fn run(ctx: &Ctx) {
    ctx.assume("prover configuration: the repo's own config::{baby_bear,koala_bear,goldilocks}() (FRI: 100 queries, 16 PoW bits)");
    ctx.shrink_iters.store(200, std::sync::atomic::Ordering::Relaxed);
    let n = ctx.tier.pick(6000, 300_000);
    ctx.explore("sat-programs", RULE, n, || {
        strategy(GenOpts {
            violating: false,
            free_connect: false,
            allow_div: true,
            max_len: 14,
            free_horner_weight: 1,
            fields: vec![0, 1, 2, 3, 4, 5, 6],
            ..GenOpts::default()
        })
    }, oracle);
    ctx.replay_known("sat-programs", |c: &Case| e1::without_exclusions(|| oracle(c)));
    // library-built circuits: Merkle-mode permutation rows (MMCS opening verification)
    let n = ctx.tier.pick(600, 30_000);
    ctx.explore(
        "mmcs-circuits",
        crate::checks::c08::RULE_PROVE,
        n,
        crate::checks::c08::prove_case_strategy,
        crate::checks::c08::oracle_prove_honest,
    );
    // the same circuits with the permutation table exactly full (no padding row: the cyclic
    // last-row -> row-0 window is then a window between two real rows)
    let n = ctx.tier.pick(400, 20_000);
    ctx.explore(
        "mmcs-circuits-full-table",
        crate::checks::c08::RULE_PROVE,
        n,
        crate::checks::c08::prove_case_strategy,
        crate::checks::c08::oracle_prove_honest_full,
    );
    ctx.explore("perm-programs", crate::checks::pp::RULE_PROVE, ctx.tier.pick(400, 20_000),
        crate::checks::pp::strategy, |c| crate::checks::pp::oracle_prove(c, "C10/perm-programs"));
    ctx.replay_known("perm-programs", |c: &crate::checks::pp::Case| crate::e1::without_exclusions(|| crate::checks::pp::oracle_prove(c, "C10/perm-programs")));
}
