//! "Permutation programs" — circuits that call the Poseidon permutation non-primitive operation
//! *directly* through the public builder API (`add_poseidon2_perm` / `add_poseidon1_perm`), the
//! way `circuit-prover/examples/poseidon2_perm_merkle.rs` does: per-row `new_start`,
//! `merkle_path`, `mmcs_bit`, per-limb input exposure (`Some(expr)` / `None`), private sibling
//! data, per-limb output exposure and an exposed `mmcs_index_sum`.
//!
//! One generator, one reference model, four oracles that the property modules register as the
//! sub-check `perm-programs`:
//!   * C02  [`oracle_values`]  — honest inputs run Ok and every exposed output equals the native
//!     permutation chain; a wrong claimed output makes the run fail;
//!   * C10  [`oracle_prove`]   — honest run ⇒ proof ⇒ native verifier accepts;
//!   * C09  [`oracle_bus`]     — the same, failing only when the WitnessChecks bus is unbalanced;
//!   * C04  [`oracle_forged`]  — one fault (committed permutation-table cell, public value, chain
//!     start accumulator, re-execution with an altered unexposed limb): accepted ⇒ the claimed
//!     public values are still what the reference model computes.
//!
//! Reference semantics (written from the API / AIR documentation, not from the executor):
//!   * row state before the permutation, in extension limbs `0..4` (rate `0..2`, capacity `2..4`):
//!     zero on a chain start, otherwise the previous table row's output (sponge: all limbs;
//!     Merkle: rate limbs only = running digest); Merkle rows then receive the private sibling
//!     limbs in the capacity; limbs given as `Some(expr)` are overwritten by the expression's
//!     value; a Merkle row with direction bit 1 swaps the two halves;
//!   * output = native permutation (`p3-{baby-bear,koala-bear,goldilocks}` default instances) of
//!     the flattened state;
//!   * index accumulator: chained Merkle row `acc = 2·acc(previous row) + bit`, every other row
//!     resets it to the value the row carries (the exposed `mmcs_index_sum`, else 0); the exposed
//!     value is looked up only on the last row of a Merkle chain (next row, cyclically, starts a
//!     chain).

use std::sync::OnceLock;

use p3_circuit::ops::poseidon1_perm as p1;
use p3_circuit::ops::{
    NpoPrivateData, NpoTypeId, Poseidon1Config, Poseidon1PermCall, Poseidon1PermPrivateData, Poseidon1Trace,
    Poseidon2Config, Poseidon2PermCall, Poseidon2PermPrivateData, Poseidon2Trace, generate_poseidon1_trace,
    generate_poseidon2_trace,
};
use p3_circuit::{Circuit, CircuitBuilder, ExprId, NonPrimitiveOpId, Traces};
use p3_circuit_prover::TablePacking;
use p3_field::{BasedVectorSpace, Field, PrimeCharacteristicRing};
use p3_symmetric::Permutation;
use proptest::prelude::*;
use rand::rngs::SmallRng;
use rand::{RngExt, SeedableRng};
use serde::{Deserialize, Serialize};

use crate::fields::{Bb4, Fc, Gl2, Kb4};
use crate::fw::{Ctx, Report, Verdict, catch, hash_of, pick, sig_of_panic};
use crate::pv::{NpoSel, Pv, PvErr};

// ---------------------------------------------------------------------------------------------
// Configurations
// ---------------------------------------------------------------------------------------------

type Ef<P> = <<P as PCfg>::F as Fc>::EF;
type Bf<P> = <<P as PCfg>::F as Fc>::BF;

/// Extension limbs of the state / of the rate (every supported configuration has this shape).
const WE: usize = 4;
const RE: usize = 2;

/// Config-less arguments of one `add_poseidon{1,2}_perm` call.
pub struct RowCall {
    pub new_start: bool,
    pub merkle: bool,
    pub bit: Option<ExprId>,
    pub inputs: Vec<Option<ExprId>>,
    pub out_ctl: Vec<bool>,
    pub all_outputs: bool,
    pub index: Option<ExprId>,
}

type AddResult = Result<(NonPrimitiveOpId, Vec<Option<ExprId>>), String>;

pub trait PCfg: 'static {
    type F: Pv;
    const NAME: &'static str;
    const VARIANT: &'static str;
    const WIDTH: usize;
    fn builder() -> CircuitBuilder<Ef<Self>>;
    fn npo() -> NpoSel;
    fn type_id() -> NpoTypeId;
    /// the native permutation on the flattened state
    fn perm(x: &[Bf<Self>]) -> Vec<Bf<Self>>;
    fn add_row(b: &mut CircuitBuilder<Ef<Self>>, call: RowCall) -> AddResult;
    fn private(sibling: Vec<Ef<Self>>) -> NpoPrivateData;
    /// a payload of a type the table does not expect: the bare limb vector instead of the
    /// `Poseidon{1,2}PermPrivateData` struct (both names alias one type, so there is no
    /// "other variant" payload)
    fn private_other(sibling: Vec<Ef<Self>>) -> NpoPrivateData;
    /// committed permutation table: (input cells, carried index value) per row
    fn rows(t: &Traces<Ef<Self>>) -> Option<Vec<(Vec<Bf<Self>>, Bf<Self>)>>;
    fn edit(t: &mut Traces<Ef<Self>>, row: usize, f: &mut dyn FnMut(&mut Vec<Bf<Self>>, &mut Bf<Self>)) -> bool;
}

fn gl_poseidon2_8() -> p3_goldilocks::Poseidon2Goldilocks<8> {
    // the permutation of `p3_circuit_prover::config::goldilocks()` and of the repo's tests
    let mut rng = SmallRng::seed_from_u64(1);
    p3_goldilocks::Poseidon2Goldilocks::<8>::new_from_rng_128(&mut rng)
}

macro_rules! pcfg {
    (
        $ty:ident, $name:literal, $variant:literal, $fc:ty, $w:literal, $params:ty, $enable:ident, $gen:ident,
        $call:ident, $callty:ident, $priv:ident, $otherpriv:ident, $trace:ident, $sel:ident, $other:ident, $tid:ident, $cfg:expr,
        $mkperm:expr
    ) => {
        pub struct $ty;
        impl PCfg for $ty {
            type F = $fc;
            const NAME: &'static str = $name;
            const VARIANT: &'static str = $variant;
            const WIDTH: usize = $w;
            fn builder() -> CircuitBuilder<Ef<Self>> {
                let mut b = CircuitBuilder::<Ef<Self>>::new();
                b.$enable::<$params, _>($gen::<Ef<Self>, $params>, $mkperm);
                b
            }
            fn npo() -> NpoSel {
                NpoSel {
                    recompose: false,
                    debug_lookups: false,
                    $sel: Some($cfg),
                    $other: None,
                }
            }
            fn type_id() -> NpoTypeId {
                NpoTypeId::$tid($cfg)
            }
            fn perm(x: &[Bf<Self>]) -> Vec<Bf<Self>> {
                type B = <$fc as Fc>::BF;
                static P: OnceLock<Box<dyn Fn(&[B]) -> Vec<B> + Send + Sync>> = OnceLock::new();
                let f = P.get_or_init(|| {
                    let p = $mkperm;
                    Box::new(move |x: &[B]| {
                        let mut s: [B; $w] = x.try_into().expect("state width");
                        p.permute_mut(&mut s);
                        s.to_vec()
                    })
                });
                f(x)
            }
            fn add_row(b: &mut CircuitBuilder<Ef<Self>>, c: RowCall) -> AddResult {
                b.$call(&$callty {
                    config: $cfg,
                    new_start: c.new_start,
                    merkle_path: c.merkle,
                    mmcs_bit: c.bit,
                    mmcs_bit2: None,
                    inputs: c.inputs,
                    out_ctl: c.out_ctl,
                    return_all_outputs: c.all_outputs,
                    mmcs_index_sum: c.index,
                })
                .map_err(|e| format!("{e:?}"))
            }
            fn private(sibling: Vec<Ef<Self>>) -> NpoPrivateData {
                NpoPrivateData::new($priv { sibling })
            }
            fn private_other(sibling: Vec<Ef<Self>>) -> NpoPrivateData {
                let _ = core::marker::PhantomData::<$otherpriv<Ef<Self>>>;
                NpoPrivateData::new(sibling)
            }
            fn rows(t: &Traces<Ef<Self>>) -> Option<Vec<(Vec<Bf<Self>>, Bf<Self>)>> {
                let pt = t.non_primitive_trace::<$trace<Bf<Self>>>(&Self::type_id())?;
                Some(pt.operations.iter().map(|o| (o.input_values.clone(), o.mmcs_index_sum)).collect())
            }
            fn edit(t: &mut Traces<Ef<Self>>, row: usize, f: &mut dyn FnMut(&mut Vec<Bf<Self>>, &mut Bf<Self>)) -> bool {
                let ty = Self::type_id();
                let Some(pt) = t.non_primitive_trace::<$trace<Bf<Self>>>(&ty).cloned() else {
                    return false;
                };
                let mut pt = pt;
                let Some(o) = pt.operations.get_mut(row) else {
                    return false;
                };
                f(&mut o.input_values, &mut o.mmcs_index_sum);
                t.non_primitive_traces.insert(ty, Box::new(pt));
                true
            }
        }
    };
}

macro_rules! pcfg_p2 {
    ($ty:ident, $name:literal, $fc:ty, $w:literal, $params:ty, $enable:ident, $cfg:expr, $mkperm:expr) => {
        pcfg!(
            $ty, $name, "p2", $fc, $w, $params, $enable, generate_poseidon2_trace, add_poseidon2_perm,
            Poseidon2PermCall, Poseidon2PermPrivateData, Poseidon1PermPrivateData, Poseidon2Trace, poseidon2, poseidon1,
            poseidon2_perm, $cfg,
            $mkperm
        );
    };
}
macro_rules! pcfg_p1 {
    ($ty:ident, $name:literal, $fc:ty, $w:literal, $params:ty, $enable:ident, $cfg:expr, $mkperm:expr) => {
        pcfg!(
            $ty, $name, "p1", $fc, $w, $params, $enable, generate_poseidon1_trace, add_poseidon1_perm,
            Poseidon1PermCall, Poseidon1PermPrivateData, Poseidon2PermPrivateData, Poseidon1Trace, poseidon1, poseidon2,
            poseidon1_perm, $cfg,
            $mkperm
        );
    };
}

pcfg_p2!(P2Kb4, "p2-koalabear-d4-w16", Kb4, 16, p3_poseidon2_circuit_air::KoalaBearD4Width16, enable_poseidon2_perm,
    Poseidon2Config::KOALA_BEAR_D4_W16, p3_koala_bear::default_koalabear_poseidon2_16());
pcfg_p2!(P2Bb4, "p2-babybear-d4-w16", Bb4, 16, p3_poseidon2_circuit_air::BabyBearD4Width16, enable_poseidon2_perm,
    Poseidon2Config::BABY_BEAR_D4_W16, p3_baby_bear::default_babybear_poseidon2_16());
pcfg_p1!(P1Bb4, "p1-babybear-d4-w16", Bb4, 16, p1::BabyBearD4Width16, enable_poseidon1_perm,
    Poseidon1Config::BABY_BEAR_D4_W16, p3_baby_bear::default_babybear_poseidon1_16());
pcfg_p1!(P1Kb4, "p1-koalabear-d4-w16", Kb4, 16, p1::KoalaBearD4Width16, enable_poseidon1_perm,
    Poseidon1Config::KOALA_BEAR_D4_W16, p3_koala_bear::default_koalabear_poseidon1_16());
pcfg_p2!(P2Gl2, "p2-goldilocks-d2-w8", Gl2, 8, p3_circuit::ops::GoldilocksD2Width8, enable_poseidon2_perm_width_8,
    Poseidon2Config::GOLDILOCKS_D2_W8, gl_poseidon2_8());
pcfg_p1!(P1Gl2, "p1-goldilocks-d2-w8", Gl2, 8, p1::GoldilocksD2Width8, enable_poseidon1_perm_width_8,
    Poseidon1Config::GOLDILOCKS_D2_W8, p3_goldilocks::poseidon1::default_goldilocks_poseidon1_8());

pub const N_CFG: usize = 6;
pub const CFG_NAMES: [&str; N_CFG] =
    [P2Kb4::NAME, P2Bb4::NAME, P1Bb4::NAME, P1Kb4::NAME, P2Gl2::NAME, P1Gl2::NAME];

macro_rules! with_cfg {
    ($idx:expr, $P:ident => $body:expr) => {{
        match ($idx as usize) % N_CFG {
            0 => {
                type $P = P2Kb4;
                $body
            }
            1 => {
                type $P = P2Bb4;
                $body
            }
            2 => {
                type $P = P1Bb4;
                $body
            }
            3 => {
                type $P = P1Kb4;
                $body
            }
            4 => {
                type $P = P2Gl2;
                $body
            }
            _ => {
                type $P = P1Gl2;
                $body
            }
        }
    }};
}

// ---------------------------------------------------------------------------------------------
// Cases
// ---------------------------------------------------------------------------------------------

/// How one input limb of a row is given.
#[derive(Clone, Debug, Serialize, Deserialize, Hash, PartialEq, Eq)]
pub enum In {
    /// `None`: chained from the previous row / zero on a chain start / private sibling limb
    Hidden,
    /// `Some(fresh public input)`
    Public,
    /// `Some(x op y)` of two fresh public inputs (0 add, 1 mul, 2 sub)
    Alu(u8),
    /// `Some(constant)`
    Const,
    /// `Some(an output limb exposed by an earlier row)` (falls back to `Public` when there is none)
    PrevOut(u8),
}

#[derive(Clone, Debug, Serialize, Deserialize, Hash)]
pub struct RowSpec {
    pub new_start: bool,
    /// the row's mode differs from the previous row's (then it always starts a chain)
    pub switch_mode: bool,
    pub bit: bool,
    /// Merkle rows: the direction bit is 0 a constant, 1 a public input, 2 `1 - public input`
    pub bit_src: u8,
    pub ins: Vec<In>,
    /// per rate limb: 0 not exposed, 1 exposed, 2 exposed and connected to a fresh public input
    pub outs: Vec<u8>,
    /// `return_all_outputs`; the capacity outputs are connected to public inputs when `outs[i] == 2`
    pub all_outputs: bool,
    /// Merkle rows: expose `mmcs_index_sum` (connected to a public input)
    pub index: bool,
    /// Merkle rows: number of private sibling limbs supplied (0 = no private data at all)
    pub sibling: u8,
    /// after the row: 0 nothing, 1 `a + b`, 2 `a * b` of the two latest exposed outputs, connected
    /// to a public input (ALU reads of permutation-created slots)
    pub post: u8,
    /// keep the output exposure pattern as generated even if it is not a prefix of the limbs
    /// (`build()` rejects those: output indices must be contiguous from 0); rare, counted
    pub raw_outs: bool,
}

#[derive(Clone, Debug, Serialize, Deserialize, Hash, PartialEq, Eq)]
pub enum Fault {
    None,
    /// one base-field input cell of one committed permutation-table row
    InputCell { row: u16, cell: u16, delta: u64 },
    /// one coefficient of one public value (committed public table cell)
    Public { which: u16, coeff: u8, delta: u64 },
    /// the accumulator cell of the first row of a Merkle chain whose last row exposes the index;
    /// the claimed index is adjusted to what the recurrence then yields
    StartAcc { chain: u16, delta: u64 },
    /// a dishonest execution: limb `limb` of the state of row `row` is altered before the
    /// permutation (executor hook), everything downstream re-derived, and the public values
    /// claimed are those of the altered execution
    Reexec { row: u16, limb: u8, delta: u64 },
}

impl Fault {
    fn name(&self) -> &'static str {
        match self {
            Fault::None => "none",
            Fault::InputCell { .. } => "perm-input-cell",
            Fault::Public { .. } => "public-value",
            Fault::StartAcc { .. } => "chain-start-accumulator",
            Fault::Reexec { .. } => "reexecution-with-altered-limb",
        }
    }
}

#[derive(Clone, Debug, Serialize, Deserialize, Hash)]
pub struct Case {
    pub cfg: u8,
    pub first_merkle: bool,
    pub rows: Vec<RowSpec>,
    /// prepend plain sponge rows so that the permutation table is exactly a power of two
    pub fill: bool,
    /// make the last row a Merkle row that exposes `mmcs_index_sum`
    pub end_merkle_index: bool,
    pub seed: u64,
    pub public_lanes: u8,
    pub alu_lanes: u8,
    /// 0..=2 → minimum trace height 1, 8, 32
    pub min_height: u8,
    /// values oracle: which claimed output is falsified for the negative control
    pub wrong: u16,
    /// forged oracle only
    pub fault: Fault,
    /// private-data oracle only
    #[serde(default)]
    pub pd: Pd,
    /// let a row continue its chain across a mode switch (never generated; only the minimal case
    /// of the known finding `chain-continues-across-mode-switch` sets it)
    #[serde(default)]
    pub cross_mode: bool,
}

/// How the private data (sibling limbs of Merkle rows) is handed to the runner.
#[derive(Clone, Debug, Default, Serialize, Deserialize, Hash, PartialEq, Eq)]
pub enum Pd {
    /// exactly as required, by op id
    #[default]
    ExactById,
    /// exactly as required, through the tag setter
    ExactByTag,
    /// additionally attached to a sponge-mode row (`len` sibling limbs)
    OnSponge { row: u16, len: u8, by_tag: bool },
    /// set twice for one Merkle row
    Twice { row: u16 },
    /// op id beyond the circuit's non-primitive operations
    OutOfRange { beyond: u8 },
    /// a tag no operation carries
    UnknownTag,
    /// withheld from one Merkle row that takes sibling limbs
    Withheld { row: u16 },
    /// `len` limbs instead of the row's number (0..=5)
    WrongLen { row: u16, len: u8 },
    /// a payload of a foreign type (the bare limb vector instead of the private-data struct)
    WrongType { row: u16 },
}

impl Pd {
    fn name(&self) -> &'static str {
        match self {
            Pd::ExactById => "exact(by-id)",
            Pd::ExactByTag => "exact(by-tag)",
            Pd::OnSponge { .. } => "attached-to-sponge-row",
            Pd::Twice { .. } => "set-twice",
            Pd::OutOfRange { .. } => "op-id-out-of-range",
            Pd::UnknownTag => "unknown-tag",
            Pd::Withheld { .. } => "withheld-from-merkle-row",
            Pd::WrongLen { .. } => "wrong-length",
            Pd::WrongType { .. } => "foreign-payload-type",
        }
    }
}

pub fn pd_strategy() -> impl Strategy<Value = Pd> {
    prop_oneof![
        2 => Just(Pd::ExactById),
        2 => Just(Pd::ExactByTag),
        6 => (any::<u16>(), 0u8..4, any::<bool>()).prop_map(|(row, len, by_tag)| Pd::OnSponge { row, len, by_tag }),
        2 => any::<u16>().prop_map(|row| Pd::Twice { row }),
        1 => (0u8..4).prop_map(|beyond| Pd::OutOfRange { beyond }),
        1 => Just(Pd::UnknownTag),
        3 => any::<u16>().prop_map(|row| Pd::Withheld { row }),
        3 => (any::<u16>(), 0u8..6).prop_map(|(row, len)| Pd::WrongLen { row, len }),
        2 => any::<u16>().prop_map(|row| Pd::WrongType { row }),
    ]
}

pub const MAX_ROWS: usize = 12;

fn in_strategy() -> impl Strategy<Value = In> {
    prop_oneof![
        8 => Just(In::Hidden),
        3 => Just(In::Public),
        2 => (0u8..3).prop_map(In::Alu),
        1 => Just(In::Const),
        2 => any::<u8>().prop_map(In::PrevOut),
    ]
}

fn row_strategy() -> impl Strategy<Value = RowSpec> {
    (
        (prop::bool::weighted(0.3), prop::bool::weighted(0.3), any::<bool>(), 0u8..3),
        prop::collection::vec(in_strategy(), WE),
        prop::collection::vec(prop_oneof![3 => Just(0u8), 2 => Just(1u8), 3 => Just(2u8)], RE),
        (prop::bool::weighted(0.15), prop::bool::weighted(0.5)),
        prop_oneof![6 => Just(2u8), 1 => Just(1u8), 1 => Just(0u8)],
        (prop_oneof![4 => Just(0u8), 1 => Just(1u8), 1 => Just(2u8)], prop::bool::weighted(0.02)),
    )
        .prop_map(|((new_start, switch_mode, bit, bit_src), ins, outs, (all_outputs, index), sibling, (post, raw_outs))| RowSpec {
            new_start,
            switch_mode,
            bit,
            bit_src,
            ins,
            outs,
            all_outputs,
            index,
            sibling,
            post,
            raw_outs,
        })
}

pub fn fault_strategy() -> impl Strategy<Value = Fault> {
    prop_oneof![
        1 => Just(Fault::None),
        6 => (any::<u16>(), any::<u16>(), any::<u64>()).prop_map(|(row, cell, delta)| Fault::InputCell { row, cell, delta }),
        6 => (any::<u16>(), any::<u8>(), any::<u64>()).prop_map(|(which, coeff, delta)| Fault::Public { which, coeff, delta }),
        1 => (any::<u16>(), any::<u64>()).prop_map(|(chain, delta)| Fault::StartAcc { chain, delta }),
        5 => (any::<u16>(), 0u8..4, any::<u64>()).prop_map(|(row, limb, delta)| Fault::Reexec { row, limb, delta }),
    ]
}

fn base_strategy(cfgs: Vec<u8>, fault: BoxedStrategy<Fault>) -> impl Strategy<Value = Case> {
    full_strategy(cfgs, fault, Just(Pd::ExactById).boxed())
}

/// Honest programs with a variation of how private data is supplied.
pub fn private_data_strategy() -> impl Strategy<Value = Case> {
    full_strategy((0..N_CFG as u8).collect(), Just(Fault::None).boxed(), pd_strategy().boxed())
}

fn full_strategy(cfgs: Vec<u8>, fault: BoxedStrategy<Fault>, pd: BoxedStrategy<Pd>) -> impl Strategy<Value = Case> {
    (
        (prop::sample::select(cfgs), any::<bool>(), any::<bool>(), prop::bool::weighted(0.5)),
        prop::collection::vec(row_strategy(), 1..=MAX_ROWS),
        any::<u64>(),
        (0u8..3, 0u8..3, prop_oneof![6 => Just(0u8), 1 => Just(1u8), 1 => Just(2u8)]),
        any::<u16>(),
        (fault, pd),
    )
        .prop_map(|((cfg, first_merkle, fill, end_merkle_index), rows, seed, (public_lanes, alu_lanes, min_height), wrong, (fault, pd))| Case {
            cfg,
            first_merkle,
            rows,
            fill,
            end_merkle_index,
            seed,
            public_lanes,
            alu_lanes,
            min_height,
            wrong,
            fault,
            pd,
            cross_mode: false,
        })
}

/// Honest cases over all six configurations (fault = None).
pub fn strategy() -> impl Strategy<Value = Case> {
    base_strategy((0..N_CFG as u8).collect(), Just(Fault::None).boxed())
}

/// Cases with one fault.
pub fn forged_strategy() -> impl Strategy<Value = Case> {
    base_strategy((0..N_CFG as u8).collect(), fault_strategy().boxed())
}

// ---------------------------------------------------------------------------------------------
// Plan: the well-formed row sequence a case denotes
// ---------------------------------------------------------------------------------------------

#[derive(Clone, Debug)]
struct PRow {
    new_start: bool,
    merkle: bool,
    bit: bool,
    bit_src: u8,
    ins: Vec<In>,
    outs: Vec<u8>,
    all_outputs: bool,
    index: bool,
    sibling: usize,
    post: u8,
    filler: bool,
}

fn plan(c: &Case) -> Vec<PRow> {
    let n_real = c.rows.len().clamp(1, MAX_ROWS);
    let mut rows: Vec<PRow> = vec![];
    if c.fill {
        for _ in 0..(n_real.next_power_of_two() - n_real) {
            rows.push(PRow {
                new_start: true,
                merkle: false,
                bit: false,
                bit_src: 0,
                ins: vec![In::Public, In::Hidden, In::Hidden, In::Hidden],
                outs: vec![0, 0],
                all_outputs: false,
                index: false,
                sibling: 0,
                post: 0,
                filler: true,
            });
        }
    }
    let mut mode = c.first_merkle;
    for (i, s) in c.rows.iter().take(n_real).enumerate() {
        if i > 0 && s.switch_mode {
            mode = !mode;
        }
        let last = i + 1 == n_real;
        let merkle = if last && c.end_merkle_index { true } else { mode };
        mode = merkle;
        let mut ins = s.ins.clone();
        ins.resize(WE, In::Hidden);
        let mut outs = s.outs.clone();
        outs.resize(RE, 0);
        if !s.raw_outs {
            // exposed outputs must form a prefix of the limbs (contiguous output indices)
            if s.all_outputs {
                for o in outs.iter_mut() {
                    *o = (*o).max(1);
                }
            }
            for l in (1..RE).rev() {
                if outs[l] > 0 && outs[l - 1] == 0 {
                    outs[l - 1] = 1;
                }
            }
        }
        let needs_payload = merkle && ins[RE..WE].iter().any(|i| matches!(i, In::Hidden));
        rows.push(PRow {
            new_start: s.new_start,
            merkle,
            bit: merkle && s.bit,
            bit_src: s.bit_src % 3,
            ins,
            outs,
            all_outputs: s.all_outputs,
            index: merkle && (s.index || (last && c.end_merkle_index)),
            // a Merkle row with an unexposed sibling limb takes a private payload (a row without
            // any is an execution error since the repair 6f9e7da); rows whose sibling limbs are all
            // exposed may go without
            sibling: if merkle {
                let n = (s.sibling as usize).min(WE - RE);
                if n == 0 && needs_payload { 1 } else { n }
            } else {
                0
            },
            post: s.post % 3,
            filler: false,
        });
    }
    // a chain continues only from a row of the same mode (the table row right before it);
    // `cross_mode` (known finding, see NOTES.md) lets a row continue across a mode switch, where
    // the executor (last row of the same mode) and the AIR (previous table row) disagree about
    // what "the previous output" is
    let cross = c.cross_mode || std::env::var("VERIF_PP_CROSS_MODE").is_ok();
    for i in 0..rows.len() {
        if i == 0 || (!cross && rows[i].merkle != rows[i - 1].merkle) {
            rows[i].new_start = true;
        }
    }
    rows
}

// ---------------------------------------------------------------------------------------------
// Description of the built circuit in terms of public-value indices, and the reference model
// ---------------------------------------------------------------------------------------------

#[derive(Clone, Debug)]
enum Src<E> {
    Hidden,
    Pub(usize),
    Alu(u8, usize, usize),
    Const(E),
    Out(usize, usize),
}

#[derive(Clone, Debug)]
enum BitSrc {
    Const(bool),
    Pub(usize),
    OneMinusPub(usize),
}

#[derive(Clone, Debug, PartialEq, Eq)]
enum Role {
    Input,
    Bit { row: usize },
    Output { row: usize, limb: usize },
    CapOutput { row: usize, limb: usize },
    /// index exposed on the first row of a chain (the accumulator is reset to this value)
    IndexStart { row: usize, active: bool },
    /// index exposed on a chained Merkle row; `active` = last row of its chain (looked up)
    Index { row: usize, active: bool },
    Derived { row: usize },
}

impl Role {
    fn name(&self) -> &'static str {
        match self {
            Role::Input => "input",
            Role::Bit { .. } => "direction-bit",
            Role::Output { .. } => "rate-output",
            Role::CapOutput { .. } => "capacity-output",
            Role::IndexStart { active: true, .. } => "index@single-row-chain",
            Role::IndexStart { .. } => "index@chain-start",
            Role::Index { active: true, .. } => "index@chain-end",
            Role::Index { .. } => "index@mid-chain",
            Role::Derived { .. } => "alu-of-outputs",
        }
    }
}

#[derive(Clone, Debug)]
struct RowDesc<E> {
    new_start: bool,
    merkle: bool,
    bit: Option<BitSrc>,
    ins: Vec<Src<E>>,
    sibling: Vec<E>,
    out_pub: Vec<Option<usize>>,
    index_pub: Option<usize>,
    /// (op, (row, limb), (row, limb), public index)
    post: Option<(u8, (usize, usize), (usize, usize), usize)>,
    filler: bool,
}

struct Eval<P: PCfg> {
    /// flattened permutation input per row
    pre: Vec<Vec<Bf<P>>>,
    outs: Vec<Vec<Ef<P>>>,
    acc: Vec<Bf<P>>,
    /// value the reference relation prescribes for a public (outputs, derived values, active
    /// chained index exposures)
    expected: Vec<Option<Ef<P>>>,
    /// every direction bit boolean, every carried index a base-field value
    wellformed: bool,
}

fn flat<P: PCfg>(limbs: &[Ef<P>]) -> Vec<Bf<P>> {
    limbs
        .iter()
        .flat_map(|l| <Ef<P> as BasedVectorSpace<Bf<P>>>::as_basis_coefficients_slice(l).to_vec())
        .collect()
}

fn unflat<P: PCfg>(v: &[Bf<P>]) -> Vec<Ef<P>> {
    let d = <P::F as Fc>::D;
    v.chunks(d)
        .map(|c| <Ef<P> as BasedVectorSpace<Bf<P>>>::from_basis_coefficients_slice(c).expect("limb"))
        .collect()
}

fn as_base<P: PCfg>(x: &Ef<P>) -> Option<Bf<P>> {
    let c = <Ef<P> as BasedVectorSpace<Bf<P>>>::as_basis_coefficients_slice(x);
    c[1..].iter().all(|y| *y == Bf::<P>::ZERO).then(|| c[0])
}

fn alu<E: Field>(op: u8, a: E, b: E) -> E {
    match op % 3 {
        0 => a + b,
        1 => a * b,
        _ => a - b,
    }
}

/// The reference model.  `alter` = (row, physical limb, delta) added to the state right before
/// the permutation (a dishonest execution).
fn eval<P: PCfg>(desc: &[RowDesc<Ef<P>>], pv: &[Ef<P>], alter: Option<(usize, usize, Ef<P>)>) -> Eval<P> {
    let mut ev = Eval::<P> {
        pre: vec![],
        outs: vec![],
        acc: vec![],
        expected: vec![None; pv.len()],
        wellformed: true,
    };
    let zero = Ef::<P>::ZERO;
    let one = Ef::<P>::ONE;
    for (r, row) in desc.iter().enumerate() {
        let mut st = vec![zero; WE];
        if !row.new_start {
            let prev = &ev.outs[r - 1];
            let n = if row.merkle { RE } else { WE };
            st[..n].copy_from_slice(&prev[..n]);
        }
        if row.merkle {
            for (j, s) in row.sibling.iter().enumerate() {
                st[RE + j] = *s;
            }
        }
        for (l, src) in row.ins.iter().enumerate() {
            let v = match src {
                Src::Hidden => continue,
                Src::Pub(i) => pv[*i],
                Src::Alu(op, a, b) => alu(*op, pv[*a], pv[*b]),
                Src::Const(c) => *c,
                Src::Out(rr, ll) => ev.outs[*rr][*ll],
            };
            st[l] = v;
        }
        let bit = match &row.bit {
            None => false,
            Some(bs) => {
                let v = match bs {
                    BitSrc::Const(b) => {
                        if *b {
                            one
                        } else {
                            zero
                        }
                    }
                    BitSrc::Pub(i) => pv[*i],
                    BitSrc::OneMinusPub(i) => one - pv[*i],
                };
                if v == one {
                    true
                } else {
                    if v != zero {
                        ev.wellformed = false;
                    }
                    false
                }
            }
        };
        if row.merkle && bit {
            for i in 0..RE {
                st.swap(i, RE + i);
            }
        }
        if let Some((ar, al, d)) = alter
            && ar == r
        {
            st[al] += d;
        }
        let pre = flat::<P>(&st);
        let out = unflat::<P>(&P::perm(&pre));
        let carried = match row.index_pub {
            Some(i) => match as_base::<P>(&pv[i]) {
                Some(b) => b,
                None => {
                    ev.wellformed = false;
                    Bf::<P>::ZERO
                }
            },
            None => Bf::<P>::ZERO,
        };
        let acc = if r > 0 && row.merkle && !row.new_start {
            let a = ev.acc[r - 1].double() + Bf::<P>::from_bool(bit);
            if let Some(i) = row.index_pub {
                let last_of_chain = r + 1 == desc.len() || desc[r + 1].new_start;
                if last_of_chain {
                    ev.expected[i] = Some(Ef::<P>::from(a));
                }
            }
            a
        } else {
            carried
        };
        for (l, p) in row.out_pub.iter().enumerate() {
            if let Some(i) = p {
                ev.expected[*i] = Some(out[l]);
            }
        }
        ev.pre.push(pre);
        ev.outs.push(out);
        ev.acc.push(acc);
        if let Some((op, (ra, la), (rb, lb), i)) = &row.post {
            ev.expected[*i] = Some(alu(*op, ev.outs[*ra][*la], ev.outs[*rb][*lb]));
        }
    }
    ev
}

fn statement_true<P: PCfg>(ev: &Eval<P>, pv: &[Ef<P>]) -> bool {
    ev.wellformed && ev.expected.iter().zip(pv).all(|(e, v)| e.is_none_or(|e| e == *v))
}

// ---------------------------------------------------------------------------------------------
// Building the circuit
// ---------------------------------------------------------------------------------------------

struct Built<P: PCfg> {
    circuit: Circuit<Ef<P>>,
    desc: Vec<RowDesc<Ef<P>>>,
    plan: Vec<PRow>,
    pub_exprs: Vec<ExprId>,
    roles: Vec<Role>,
    /// honest public values (inputs from the seed, everything else from the reference model)
    honest: Vec<Ef<P>>,
    /// every exposed output: (row, limb, expression, some table creates the slot on the bus)
    out_exprs: Vec<(usize, usize, ExprId, bool)>,
    /// a capacity output that no table creates is read on the bus (known finding, only generated
    /// with exclusions off)
    cap_read: bool,
    /// (row, limb) of the outputs some other table row reads on the bus (or a public input shares
    /// the slot): only those are visible to the verifier
    out_read: std::collections::BTreeSet<(usize, usize)>,
    op_ids: Vec<NonPrimitiveOpId>,
    classes: Vec<String>,
}

fn rand_ef<P: PCfg>(g: &mut SmallRng) -> Ef<P> {
    let p = <P::F as Fc>::p();
    let c: Vec<u64> = (0..<P::F as Fc>::D).map(|_| g.random_range(0..p)).collect();
    <P::F as Fc>::ef(&c)
}

enum BuildErr {
    /// the builder API returned an error for a row shape (information, not a violation)
    Rejected(String),
    Build(String),
}

fn build<P: PCfg>(c: &Case) -> Result<Built<P>, BuildErr> {
    let plan = plan(c);
    let n = plan.len();
    let mut g = SmallRng::seed_from_u64(c.seed);
    let mut b = P::builder();
    let mut pub_exprs: Vec<ExprId> = vec![];
    let mut roles: Vec<Role> = vec![];
    let mut honest: Vec<Ef<P>> = vec![];
    let mut desc: Vec<RowDesc<Ef<P>>> = vec![];
    let mut out_exprs: Vec<(usize, usize, ExprId, bool)> = vec![];
    let mut cap_read = false;
    let mut excluded_cap = false;
    let mut out_read = std::collections::BTreeSet::new();
    let excl = crate::e1::exclude_known();
    let mut op_ids = vec![];
    let mut used_posts: Vec<(u8, ExprId, ExprId)> = vec![];
    let zero = Ef::<P>::ZERO;
    let one = Ef::<P>::ONE;
    macro_rules! new_pub {
        ($role:expr, $val:expr) => {{
            let e = b.public_input();
            pub_exprs.push(e);
            roles.push($role);
            honest.push($val);
            (e, pub_exprs.len() - 1)
        }};
    }
    for (r, row) in plan.iter().enumerate() {
        let mut ins_e: Vec<Option<ExprId>> = vec![];
        let mut ins_s: Vec<Src<Ef<P>>> = vec![];
        for spec in &row.ins {
            let mut spec = spec.clone();
            if let In::PrevOut(_) = spec
                && out_exprs.is_empty()
            {
                spec = In::Public;
            }
            match spec {
                In::Hidden => {
                    ins_e.push(None);
                    ins_s.push(Src::Hidden);
                }
                In::Public => {
                    let v = rand_ef::<P>(&mut g);
                    let (e, i) = new_pub!(Role::Input, v);
                    ins_e.push(Some(e));
                    ins_s.push(Src::Pub(i));
                }
                In::Alu(op) => {
                    let (x, y) = (rand_ef::<P>(&mut g), rand_ef::<P>(&mut g));
                    let (ex, ix) = new_pub!(Role::Input, x);
                    let (ey, iy) = new_pub!(Role::Input, y);
                    let e = match op % 3 {
                        0 => b.add(ex, ey),
                        1 => b.mul(ex, ey),
                        _ => b.sub(ex, ey),
                    };
                    ins_e.push(Some(e));
                    ins_s.push(Src::Alu(op % 3, ix, iy));
                }
                In::Const => {
                    let v = rand_ef::<P>(&mut g);
                    ins_e.push(Some(b.define_const(v)));
                    ins_s.push(Src::Const(v));
                }
                In::PrevOut(k) => {
                    // a sponge row reads its exposed inputs on the bus; a capacity output that is
                    // not connected to a public input has no creator there (known finding)
                    let mut j = k as usize % out_exprs.len();
                    if !row.merkle && !out_exprs[j].3 {
                        if excl {
                            excluded_cap = true;
                            match (0..out_exprs.len()).map(|o| (j + out_exprs.len() - o) % out_exprs.len()).find(|o| out_exprs[*o].3) {
                                Some(o) => j = o,
                                None => {
                                    let v = rand_ef::<P>(&mut g);
                                    let (e, i) = new_pub!(Role::Input, v);
                                    ins_e.push(Some(e));
                                    ins_s.push(Src::Pub(i));
                                    continue;
                                }
                            }
                        } else {
                            cap_read = true;
                        }
                    }
                    let (rr, ll, e, _) = out_exprs[j];
                    if !row.merkle {
                        out_read.insert((rr, ll));
                    }
                    ins_e.push(Some(e));
                    ins_s.push(Src::Out(rr, ll));
                }
            }
        }
        let (bit_e, bit_s) = if row.merkle {
            let bv = if row.bit { one } else { zero };
            match row.bit_src {
                0 => (Some(b.define_const(bv)), Some(BitSrc::Const(row.bit))),
                1 => {
                    let (e, i) = new_pub!(Role::Bit { row: r }, bv);
                    (Some(e), Some(BitSrc::Pub(i)))
                }
                _ => {
                    let (e, i) = new_pub!(Role::Bit { row: r }, one - bv);
                    let o = b.define_const(one);
                    (Some(b.sub(o, e)), Some(BitSrc::OneMinusPub(i)))
                }
            }
        } else {
            (None, None)
        };
        let last_of_chain = r + 1 == n || plan[r + 1].new_start;
        let (index_e, index_pub) = if row.index {
            let role = if row.new_start {
                Role::IndexStart { row: r, active: last_of_chain }
            } else {
                Role::Index { row: r, active: last_of_chain }
            };
            // a start row carries a free small value; chained rows are filled in from the model
            let v0 = if row.new_start && g.random_bool(0.5) { Ef::<P>::from_u64(g.random_range(1..8)) } else { zero };
            let (e, i) = new_pub!(role, v0);
            (Some(e), Some(i))
        } else {
            // keep the random stream independent of the exposure choice
            let _ = g.random_bool(0.5);
            (None, None)
        };
        let sibling: Vec<Ef<P>> = (0..row.sibling).map(|_| rand_ef::<P>(&mut g)).collect();
        let call = RowCall {
            new_start: row.new_start,
            merkle: row.merkle,
            bit: bit_e,
            inputs: ins_e,
            out_ctl: row.outs.iter().map(|o| *o > 0).collect(),
            all_outputs: row.all_outputs,
            index: index_e,
        };
        let (op_id, outputs) = P::add_row(&mut b, call).map_err(BuildErr::Rejected)?;
        b.tag_op(op_id, format!("perm-row-{r}")).map_err(|e| BuildErr::Build(format!("{e:?}")))?;
        op_ids.push(op_id);
        let mut out_pub = vec![None; WE];
        for l in 0..WE {
            let exposed = if l < RE { row.outs[l] > 0 } else { row.all_outputs };
            let Some(e) = outputs.get(l).copied().flatten() else {
                if exposed {
                    return Err(BuildErr::Build(format!("row {r}: output limb {l} requested but not returned")));
                }
                continue;
            };
            out_exprs.push((r, l, e, l < RE || row.outs[l % RE] == 2));
            if row.outs[l % RE] == 2 {
                let role = if l < RE { Role::Output { row: r, limb: l } } else { Role::CapOutput { row: r, limb: l } };
                let (p, i) = new_pub!(role, zero);
                b.connect(e, p);
                out_pub[l] = Some(i);
                out_read.insert((r, l));
            }
        }
        // (the same ALU expression connected to two public inputs would put two public inputs
        // into one slot: the known two-creators shape of C09/C10, not this check's subject)
        let fresh_pair = out_exprs.len() >= 2 && {
            let key = (row.post, out_exprs[out_exprs.len() - 1].2, out_exprs[out_exprs.len() - 2].2);
            !used_posts.contains(&key) && {
                used_posts.push(key);
                true
            }
        };
        let post_reads_cap = out_exprs.len() >= 2 && !(out_exprs[out_exprs.len() - 1].3 && out_exprs[out_exprs.len() - 2].3);
        if row.post > 0 && fresh_pair && post_reads_cap {
            if excl {
                excluded_cap = true;
            } else {
                cap_read = true;
            }
        }
        let post = if row.post > 0 && fresh_pair && !(excl && post_reads_cap) {
            let (ra, la, ea, _) = out_exprs[out_exprs.len() - 1];
            let (rb, lb, eb, _) = out_exprs[out_exprs.len() - 2];
            let op = if row.post == 1 { 0 } else { 1 };
            let e = if op == 0 { b.add(ea, eb) } else { b.mul(ea, eb) };
            let (p, i) = new_pub!(Role::Derived { row: r }, zero);
            b.connect(e, p);
            out_read.insert((ra, la));
            out_read.insert((rb, lb));
            Some((op, (ra, la), (rb, lb), i))
        } else {
            None
        };
        desc.push(RowDesc {
            new_start: row.new_start,
            merkle: row.merkle,
            bit: bit_s,
            ins: ins_s,
            sibling,
            out_pub,
            index_pub,
            post,
            filler: row.filler,
        });
    }
    // honest values of the derived publics from the reference model
    let ev = eval::<P>(&desc, &honest, None);
    for (i, e) in ev.expected.iter().enumerate() {
        if let Some(v) = e {
            honest[i] = *v;
        }
    }
    for (r, row) in desc.iter().enumerate() {
        // inactive (mid-chain) index exposures carry the accumulator too
        if let Some(i) = row.index_pub
            && !row.new_start
        {
            honest[i] = Ef::<P>::from(ev.acc[r]);
        }
    }
    let circuit = match catch(|| b.build()) {
        Ok(Ok(x)) => x,
        Ok(Err(e)) => return Err(BuildErr::Build(format!("{e:?}"))),
        Err(p) => return Err(BuildErr::Build(format!("panic: {p}"))),
    };
    let mut classes = classes_of::<P>(c, &plan, &roles);
    if excluded_cap {
        classes.push("excluded_by_known_finding:capacity-output-read-on-bus".into());
    }
    if cap_read {
        classes.push("shape:capacity-output-read-on-bus".into());
    }
    Ok(Built {
        circuit,
        desc,
        plan,
        pub_exprs,
        roles,
        honest,
        out_exprs,
        cap_read,
        out_read,
        op_ids,
        classes,
    })
}

fn mode_name(r: &PRow) -> &'static str {
    match (r.merkle, r.new_start, r.bit) {
        (false, true, _) => "sponge-start",
        (false, false, _) => "sponge-chained",
        (true, true, false) => "merkle-start-left",
        (true, true, true) => "merkle-start-right",
        (true, false, false) => "merkle-chained-left",
        (true, false, true) => "merkle-chained-right",
    }
}

fn classes_of<P: PCfg>(c: &Case, plan: &[PRow], roles: &[Role]) -> Vec<String> {
    let n = plan.len();
    let mut cl = vec![
        format!("cfg:{}", P::NAME),
        format!("rows:{}", match n { 1 => "1", 2 => "2", 3..=4 => "3-4", 5..=8 => "5-8", _ => "9-16" }),
        format!("table:{}", if n.is_power_of_two() { "exactly-full" } else { "padded" }),
        format!("fill:{}", c.fill),
        format!("min-height:{}", min_height(c)),
    ];
    let last = &plan[n - 1];
    cl.push(format!(
        "ends-on:{}{}",
        if last.merkle { "merkle" } else { "sponge" },
        if last.index { "+index" } else { "" }
    ));
    let mut longest = 0usize;
    let mut cur = 0usize;
    for r in plan {
        if r.filler {
            continue;
        }
        cl.push(format!("row:{}", mode_name(r)));
        let hidden = r.ins.iter().filter(|i| **i == In::Hidden).count();
        cl.push(format!("row-inputs:{}", match hidden { 0 => "all-exposed", 4 => "all-hidden", _ => "mixed" }));
        for i in &r.ins {
            cl.push(format!("in:{}", match i { In::Hidden => "hidden", In::Public => "public", In::Alu(_) => "alu", In::Const => "const", In::PrevOut(_) => "earlier-output" }));
        }
        for o in &r.outs {
            cl.push(format!("out:{}", ["hidden", "exposed", "exposed+public"][*o as usize % 3]));
        }
        if r.all_outputs {
            cl.push("out:capacity-returned".into());
        }
        if r.merkle {
            cl.push(format!("sibling-limbs:{}", r.sibling));
            cl.push(format!("bit-src:{}", ["const", "public", "1-public"][r.bit_src as usize % 3]));
            cur = if r.new_start { 1 } else { cur + 1 };
            longest = longest.max(cur);
        } else {
            cur = 0;
        }
        if r.post > 0 {
            cl.push("post:alu-of-outputs".into());
        }
    }
    cl.push(format!("longest-merkle-chain:{}", match longest { 0 => "0", 1 => "1", 2 => "2", 3..=4 => "3-4", _ => "5+" }));
    for r in roles {
        if matches!(r, Role::Index { .. } | Role::IndexStart { .. }) {
            cl.push(format!("exposes:{}", r.name()));
        }
    }
    cl.sort();
    cl.dedup();
    cl
}

fn nontrivial(plan: &[PRow]) -> bool {
    // some real row chains from its predecessor, or is a Merkle row with an exposed index
    plan.iter().any(|r| !r.filler && (!r.new_start || (r.merkle && r.index)))
}

fn min_height(c: &Case) -> usize {
    [1usize, 8, 32][c.min_height as usize % 3]
}

fn packing(c: &Case) -> TablePacking {
    TablePacking::new(1 + c.public_lanes as usize % 3, 1 + c.alu_lanes as usize % 3).with_min_trace_height(min_height(c))
}

fn shape_key(c: &Case, plan: &[PRow]) -> u64 {
    let v: Vec<_> = plan
        .iter()
        .map(|r| (r.new_start, r.merkle, r.bit, r.ins.clone(), r.outs.clone(), r.all_outputs, r.index, r.sibling, r.post))
        .collect();
    hash_of(&(c.cfg % N_CFG as u8, v, c.fault.clone()))
}

fn err_variant(s: &str) -> String {
    s.split(|ch: char| !ch.is_alphanumeric()).find(|w| !w.is_empty()).unwrap_or("").chars().take(48).collect()
}

fn run_circuit<P: PCfg>(bt: &Built<P>, pv: &[Ef<P>]) -> Result<Traces<Ef<P>>, String> {
    let mut runner = bt.circuit.runner();
    runner.set_public_inputs(pv).map_err(|e| format!("set_public_inputs: {e:?}"))?;
    for (r, row) in bt.desc.iter().enumerate() {
        if row.merkle && !row.sibling.is_empty() {
            runner
                .set_private_data(bt.op_ids[r], P::private(row.sibling.clone()))
                .map_err(|e| format!("set_private_data: {e:?}"))?;
        }
    }
    match catch(|| runner.run()) {
        Ok(Ok(t)) => Ok(t),
        Ok(Err(e)) => Err(format!("{e:?}")),
        Err(p) => Err(format!("panic:{}", sig_of_panic(&p))),
    }
}

fn base_report<P: PCfg>(c: &Case, bt: &Built<P>) -> Report {
    Report::pass().classes(bt.classes.clone()).nontrivial(nontrivial(&bt.plan)).key(shape_key(c, &bt.plan))
}

fn failed(rep: Report, sig: String, msg: String) -> Report {
    let mut r = rep;
    r.verdict = Verdict::Fail { sig, msg };
    r.nontrivial = true;
    r
}

fn build_or_report<P: PCfg>(c: &Case, prefix: &str) -> Result<Built<P>, Report> {
    match build::<P>(c) {
        Ok(b) => Ok(b),
        Err(BuildErr::Rejected(e)) => {
            Err(Report::discard(format!("builder rejected a row shape: {}", err_variant(&e))).class(format!("builder-rejected:{}", err_variant(&e))))
        }
        Err(BuildErr::Build(e)) if e.starts_with("MalformedNonPrimitiveOutputs") && c.rows.iter().any(|r| r.raw_outs) => {
            // observed API restriction: per-limb `out_ctl` is accepted by add_*_perm, but build()
            // requires the exposed outputs to be a prefix (contiguous output indices from 0)
            Err(Report::discard("build() rejects a non-prefix output exposure pattern").class("builder-rejected:non-prefix-output-exposure"))
        }
        Err(BuildErr::Build(e)) => Err(Report::fail(format!("{prefix}/build-error:{}", err_variant(&e)), e)),
    }
}

fn describe(plan: &[PRow]) -> String {
    plan.iter()
        .map(|r| {
            format!(
                "{}{}[in {} out {:?}{}{}]",
                if r.filler { "fill:" } else { "" },
                mode_name(r),
                r.ins.iter().map(|i| match i { In::Hidden => '-', In::Public => 'P', In::Alu(_) => 'A', In::Const => 'C', In::PrevOut(_) => 'O' }).collect::<String>(),
                r.outs,
                if r.all_outputs { " +cap" } else { "" },
                if r.index { " +index" } else { "" }
            )
        })
        .collect::<Vec<_>>()
        .join(" ")
}

// ---------------------------------------------------------------------------------------------
// Oracle 1: values (C02)
// ---------------------------------------------------------------------------------------------

pub const RULE_VALUES: &str = "programs of 1-12 direct add_poseidon{1,2}_perm rows (6 configurations: Poseidon2/Poseidon1 x \
KoalaBear D4, BabyBear D4, Goldilocks D2; sponge / Merkle mode, chain starts and continuations, direction bit from a \
constant / public input / ALU result, input limbs hidden / public / ALU result / constant / earlier output, 0-2 private \
sibling limbs, rate and capacity outputs exposed and connected to public inputs, ALU reads of outputs, exposed \
mmcs_index_sum; optional sponge filler rows making the table exactly a power of two), public values computed by a \
reference model over the native permutation. Oracle: run() Ok, every exposed output slot and every committed \
permutation-row input equals the model; one falsified claimed output makes run() fail. Non-trivial = some row chains \
from its predecessor or a Merkle row exposes its index; distinct on the row shapes";


/// Exposed output slots and committed permutation-row inputs against the reference model.
fn compare_values<P: PCfg>(bt: &Built<P>, ev: &Eval<P>, traces: &Traces<Ef<P>>) -> Option<(String, String)> {
    for (r, l, e, _) in &bt.out_exprs {
        let got = bt.circuit.expr_to_widx.get(e).and_then(|w| traces.witness_trace.get_value(*w)).copied();
        if got != Some(ev.outs[*r][*l]) {
            let kind = if *l < RE { "rate" } else { "capacity" };
            return Some((
                format!("output-value-mismatch:{}:{kind}", mode_name(&bt.plan[*r])),
                format!("row {r} output limb {l}: slot holds {got:?}, native permutation chain gives {:?}; rows: {}", ev.outs[*r][*l], describe(&bt.plan)),
            ));
        }
    }
    match P::rows(traces) {
        Some(rows) if rows.len() == bt.plan.len() => {
            for (r, (inp, _)) in rows.iter().enumerate() {
                if *inp != ev.pre[r] {
                    let k = inp.iter().zip(&ev.pre[r]).position(|(a, b)| a != b).unwrap_or(0);
                    return Some((
                        format!("perm-row-input-mismatch:{}", mode_name(&bt.plan[r])),
                        format!(
                            "row {r}: committed input cell {k} (limb {}) is {:?}, the documented chaining/placement rules give {:?}; rows: {}",
                            k / <P::F as Fc>::D,
                            inp[k],
                            ev.pre[r][k],
                            describe(&bt.plan)
                        ),
                    ));
                }
            }
            None
        }
        other => Some((
            "perm-table-row-count".to_string(),
            format!("{} rows built, table has {:?}", bt.plan.len(), other.map(|r| r.len())),
        )),
    }
}

/// Public values of the honest execution of `desc` (inputs as in `pv`).
fn honest_publics<P: PCfg>(desc: &[RowDesc<Ef<P>>], pv: &[Ef<P>]) -> Vec<Ef<P>> {
    let mut pv = pv.to_vec();
    let ev = eval::<P>(desc, &pv, None);
    for (i, e) in ev.expected.iter().enumerate() {
        if let Some(v) = e {
            pv[i] = *v;
        }
    }
    for (r, row) in desc.iter().enumerate() {
        if let Some(i) = row.index_pub
            && !row.new_start
        {
            pv[i] = Ef::<P>::from(ev.acc[r]);
        }
    }
    pv
}

fn values_cfg<P: PCfg>(c: &Case, prefix: &str) -> Report {
    let bt = match build_or_report::<P>(c, prefix) {
        Ok(b) => b,
        Err(r) => return r,
    };
    let rep = base_report(c, &bt);
    if (1..bt.plan.len()).any(|i| !bt.plan[i].new_start && bt.plan[i].merkle != bt.plan[i - 1].merkle) {
        return rep.class("excluded_by_known_finding:chain-continues-across-mode-switch");
    }
    let ev = eval::<P>(&bt.desc, &bt.honest, None);
    let traces = match run_circuit(&bt, &bt.honest) {
        Ok(t) => t,
        Err(e) => {
            return failed(
                rep,
                format!("{prefix}/honest-run-failed:{}", err_variant(&e)),
                format!("public values of the reference model rejected by run(): {e}; rows: {}", describe(&bt.plan)),
            );
        }
    };
    if let Some((sig, msg)) = compare_values(&bt, &ev, &traces) {
        return failed(rep, format!("{prefix}/{sig}"), msg);
    }
    // negative control: a wrong claimed output must make the run fail
    let cands: Vec<usize> = bt
        .roles
        .iter()
        .enumerate()
        .filter(|(_, r)| matches!(r, Role::Output { .. } | Role::CapOutput { .. } | Role::Derived { .. }))
        .map(|(i, _)| i)
        .collect();
    if cands.is_empty() {
        return rep.class("negative-control:none(no claimed output)");
    }
    let i = cands[pick(c.wrong, cands.len())];
    let mut pv = bt.honest.clone();
    pv[i] += Ef::<P>::ONE;
    match run_circuit(&bt, &pv) {
        Err(_) => rep.class(format!("negative-control:wrong-{}-rejected-by-run", bt.roles[i].name())),
        Ok(_) => failed(
            rep,
            format!("{prefix}/wrong-claimed-output-accepted-by-run:{}", bt.roles[i].name()),
            format!("public #{i} ({:?}) changed by 1, run() still Ok; rows: {}", bt.roles[i], describe(&bt.plan)),
        ),
    }
}

pub fn oracle_values(c: &Case, prefix: &str) -> Report {
    with_cfg!(c.cfg, P => values_cfg::<P>(c, prefix))
}

// ---------------------------------------------------------------------------------------------
// Oracle 1b: how private data is supplied (C19)
// ---------------------------------------------------------------------------------------------

pub const RULE_PRIVATE: &str = "the same permutation programs, run with a variation of how the private data (sibling limbs \
of Merkle-mode rows) reaches the runner: exactly as required (by op id / by tag); additionally attached to a sponge-mode \
row; set twice; for an op id out of range; for an unknown tag; withheld from a Merkle row; with 0-5 limbs instead of the \
row's number; as a payload of a foreign type (bare limb vector). Oracle: never a panic; exact => run Ok and every exposed output / \
committed permutation-row input equals the reference model; sponge row with private data, double set, bad op id, \
unknown tag => an error from the setter or from run(), never Ok (these are the cases the API defines as errors: \
resolve_private_data, set_private_data, set_private_data_by_tag); withheld / wrong length / wrong type are not defined \
as errors (sibling shorter than the capacity means zero limbs, longer is truncated, a foreign type is ignored): the \
verdict is recorded and an Ok run must carry exactly the values of the reference model for the limbs that were \
effectively used. Non-trivial = a variation other than exact; distinct on (row shapes, variation)";

enum PdRun<E> {
    SetterErr(String),
    RunErr(String),
    Ok(Traces<E>),
    Panic(String),
}

fn private_cfg<P: PCfg>(c: &Case, prefix: &str) -> Report {
    let bt = match build_or_report::<P>(c, prefix) {
        Ok(b) => b,
        Err(r) => return r,
    };
    let n = bt.plan.len();
    let sponge_rows: Vec<usize> = (0..n).filter(|r| !bt.plan[*r].merkle).collect();
    let sib_rows: Vec<usize> = (0..n).filter(|r| bt.plan[*r].merkle && !bt.desc[*r].sibling.is_empty()).collect();
    let merkle_rows: Vec<usize> = (0..n).filter(|r| bt.plan[*r].merkle).collect();
    // normalise the variation to what the program offers
    let pd = match &c.pd {
        Pd::OnSponge { .. } if sponge_rows.is_empty() => Pd::ExactById,
        Pd::Twice { .. } | Pd::Withheld { .. } if sib_rows.is_empty() => Pd::ExactById,
        Pd::WrongLen { .. } | Pd::WrongType { .. } if merkle_rows.is_empty() => Pd::ExactById,
        p => p.clone(),
    };
    let mut rep = base_report(c, &bt).class(format!("private-data:{}", pd.name()));
    if pd != c.pd {
        rep = rep.class(format!("private-data:{}->not-applicable", c.pd.name()));
    }
    rep.nontrivial = !matches!(pd, Pd::ExactById | Pd::ExactByTag);
    rep.key = hash_of(&(shape_key(c, &bt.plan), &pd));
    // effective sibling limbs per row (what the documentation says the row then uses)
    let mut desc = bt.desc.clone();
    let cap = WE - RE;
    let mut g = SmallRng::seed_from_u64(c.seed ^ 0x5eed);
    let mut extra: Vec<Ef<P>> = (0..6).map(|_| rand_ef::<P>(&mut g)).collect();
    let target_row;
    match &pd {
        Pd::Withheld { row } => {
            target_row = Some(sib_rows[pick(*row, sib_rows.len())]);
            desc[target_row.unwrap()].sibling = vec![];
        }
        Pd::WrongLen { row, len } => {
            let r = merkle_rows[pick(*row, merkle_rows.len())];
            target_row = Some(r);
            let mut given = bt.desc[r].sibling.clone();
            let mut want = *len as usize % 6;
            if want == given.len() {
                want = (want + 1) % 6;
            }
            while given.len() < want {
                given.push(extra.pop().unwrap());
            }
            given.truncate(want);
            extra = given.clone(); // what is handed over
            given.truncate(cap); // what is used
            desc[r].sibling = given;
        }
        Pd::WrongType { row } => {
            let r = merkle_rows[pick(*row, merkle_rows.len())];
            target_row = Some(r);
            desc[r].sibling = vec![];
        }
        Pd::OnSponge { row, .. } => target_row = Some(sponge_rows[pick(*row, sponge_rows.len())]),
        Pd::Twice { row } => target_row = Some(sib_rows[pick(*row, sib_rows.len())]),
        _ => target_row = None,
    }
    if let Some(r) = target_row {
        rep = rep.class(format!("private-data-target:{}", mode_name(&bt.plan[r])));
    }
    let pv = honest_publics::<P>(&desc, &bt.honest);
    let by_tag = matches!(pd, Pd::ExactByTag);
    let outcome: PdRun<Ef<P>> = match catch(|| -> PdRun<Ef<P>> {
        let mut runner = bt.circuit.runner();
        if let Err(e) = runner.set_public_inputs(&pv) {
            return PdRun::SetterErr(format!("set_public_inputs: {e:?}"));
        }
        for (r, row) in bt.desc.iter().enumerate() {
            if !row.merkle {
                continue;
            }
            let data = match &pd {
                Pd::Withheld { .. } if Some(r) == target_row => continue,
                Pd::WrongLen { .. } if Some(r) == target_row => P::private(extra.clone()),
                Pd::WrongType { .. } if Some(r) == target_row => P::private_other(row.sibling.clone()),
                _ if row.sibling.is_empty() => continue,
                _ => P::private(row.sibling.clone()),
            };
            let res = if by_tag {
                runner.set_private_data_by_tag(&format!("perm-row-{r}"), data)
            } else {
                runner.set_private_data(bt.op_ids[r], data)
            };
            if let Err(e) = res {
                return PdRun::SetterErr(format!("{e:?}"));
            }
        }
        let res = match &pd {
            Pd::OnSponge { len, by_tag, .. } => {
                let r = target_row.unwrap();
                let data = P::private(extra[..(*len as usize).min(extra.len())].to_vec());
                if *by_tag {
                    runner.set_private_data_by_tag(&format!("perm-row-{r}"), data)
                } else {
                    runner.set_private_data(bt.op_ids[r], data)
                }
            }
            Pd::Twice { .. } => {
                let r = target_row.unwrap();
                runner.set_private_data(bt.op_ids[r], P::private(bt.desc[r].sibling.clone()))
            }
            Pd::OutOfRange { beyond } => {
                let max = bt.op_ids.iter().map(|o| o.0).max().unwrap_or(0);
                runner.set_private_data(NonPrimitiveOpId(max + 1 + *beyond as u32), P::private(vec![]))
            }
            Pd::UnknownTag => runner.set_private_data_by_tag("no-such-row", P::private(vec![])),
            _ => Ok(()),
        };
        if let Err(e) = res {
            return PdRun::SetterErr(format!("{e:?}"));
        }
        match runner.run() {
            Ok(t) => PdRun::Ok(t),
            Err(e) => PdRun::RunErr(format!("{e:?}")),
        }
    }) {
        Ok(o) => o,
        Err(p) => PdRun::Panic(p),
    };
    // since the repair 6f9e7da an arity-2 Merkle row that ends up WITHOUT a payload (withheld, or a
    // payload of a foreign type, which the executor cannot read) and has an unexposed sibling limb
    // is an execution error
    let no_payload_on_needy_row = matches!(pd, Pd::Withheld { .. } | Pd::WrongType { .. })
        && target_row.is_some_and(|r| bt.plan[r].ins[RE..WE].iter().any(|i| matches!(i, In::Hidden)));
    let must_err = no_payload_on_needy_row
        || matches!(pd, Pd::OnSponge { .. } | Pd::Twice { .. } | Pd::OutOfRange { .. } | Pd::UnknownTag);
    let must_ok = matches!(pd, Pd::ExactById | Pd::ExactByTag);
    let tgt = target_row.map(|r| mode_name(&bt.plan[r])).unwrap_or("-");
    match outcome {
        PdRun::Panic(m) => failed(
            rep,
            format!("{prefix}/panic:{}:{}", pd.name(), sig_of_panic(&m)),
            format!("private data {:?} (target row {tgt}): panic {m}; rows: {}", pd, describe(&bt.plan)),
        ),
        PdRun::SetterErr(e) | PdRun::RunErr(e) if must_ok => failed(
            rep,
            format!("{prefix}/exact-private-data-rejected:{}", err_variant(&e)),
            format!("private data supplied exactly as required ({}), rejected: {e}; rows: {}", pd.name(), describe(&bt.plan)),
        ),
        PdRun::SetterErr(e) => rep.class(format!("outcome:{}:setter-error:{}", pd.name(), err_variant(&e))),
        PdRun::RunErr(e) => rep.class(format!("outcome:{}:run-error:{}", pd.name(), err_variant(&e))),
        PdRun::Ok(_) if must_err => failed(
            rep,
            format!("{prefix}/ok-despite:{}", pd.name()),
            format!("private data {:?} (target row {tgt}): setter and run() both Ok; rows: {}", pd, describe(&bt.plan)),
        ),
        PdRun::Ok(t) => {
            let ev = eval::<P>(&desc, &pv, None);
            if let Some((sig, msg)) = compare_values(&bt, &ev, &t) {
                return failed(rep, format!("{prefix}/{}:{sig}", pd.name()), format!("private data {:?} (target row {tgt}): run Ok but {msg}", pd));
            }
            rep.class(format!("outcome:{}:ok+values-as-documented", pd.name()))
        }
    }
}

pub fn oracle_private_data(c: &Case, prefix: &str) -> Report {
    with_cfg!(c.cfg, P => private_cfg::<P>(c, prefix))
}

// ---------------------------------------------------------------------------------------------
// Oracle 2: honest proofs (C10 / C09)
// ---------------------------------------------------------------------------------------------

pub const RULE_PROVE: &str = "the same permutation programs, executed honestly with the reference model's public values, \
proven with BatchStarkProver (matching Poseidon table registered, public/ALU lanes 1-3, minimum trace height 1/8/32) \
and verified natively. Oracle: run Ok => prove Ok => verify Ok; a failure that names lookups / multiplicities is \
reported as bus-unbalanced, anything else as prove-failed. Half of the cases prepend sponge filler rows so that the \
permutation table is exactly a power of two (no padding row: the last row's cyclic successor is row 0); about half end \
on a Merkle row that exposes mmcs_index_sum. Non-trivial = some row chains from its predecessor or a Merkle row exposes \
its index; distinct on the row shapes";

fn is_lookup_msg(m: &str) -> bool {
    let l = m.to_lowercase();
    l.contains("lookup") || l.contains("multiplicit") || l.contains("terminalsum") || l.contains("multiset")
}

fn shape_tag(plan: &[PRow]) -> String {
    let n = plan.len();
    let last = &plan[n - 1];
    format!(
        "{}:ends-on-{}{}",
        if n.is_power_of_two() { "exactly-full" } else { "padded" },
        if last.merkle { "merkle" } else { "sponge" },
        if last.index { "+index" } else { "" }
    )
}

fn prove_cfg<P: PCfg>(c: &Case, prefix: &str, only_bus: bool) -> Report {
    let bt = match build_or_report::<P>(c, prefix) {
        Ok(b) => b,
        Err(r) => return r,
    };
    let rep = base_report(c, &bt);
    let traces = match run_circuit(&bt, &bt.honest) {
        Ok(t) => t,
        Err(e) => {
            if only_bus {
                return rep.class("outcome:honest-run-failed(C02/C10's subject)");
            }
            return failed(
                rep,
                format!("{prefix}/honest-run-failed:{}", err_variant(&e)),
                format!("public values of the reference model rejected by run(): {e}; rows: {}", describe(&bt.plan)),
            );
        }
    };
    let pk = packing(c);
    let npo = P::npo();
    match <P::F as Pv>::prove_verify(&bt.circuit, &traces, &pk, &npo) {
        Ok(()) => rep.class("outcome:proved+verified"),
        Err(e) => {
            let dbg = match <P::F as Pv>::prove_verify(&bt.circuit, &traces, &pk, &NpoSel { debug_lookups: true, ..npo.clone() }) {
                Err(PvErr::ProvePanic(m)) => format!(" | lookup debugger: {}", m.chars().take(500).collect::<String>()),
                _ => String::new(),
            };
            let lookup = is_lookup_msg(e.msg()) || !dbg.is_empty() && is_lookup_msg(&dbg);
            if only_bus && !lookup {
                return rep.class("outcome:failed-for-another-reason(C10's subject)");
            }
            let class = if lookup { "bus-unbalanced" } else { "prove-failed" };
            // attributed by shape, not by outcome
            let crosses = (1..bt.plan.len()).any(|i| !bt.plan[i].new_start && bt.plan[i].merkle != bt.plan[i - 1].merkle);
            let sig = if bt.cap_read {
                format!("{prefix}/capacity-output-has-no-bus-creator")
            } else if crosses {
                format!("{prefix}/chain-continues-across-mode-switch")
            } else {
                format!("{prefix}/{class}:{}:{}", e.kind(), shape_tag(&bt.plan))
            };
            failed(
                rep,
                sig,
                format!(
                    "honest run Ok but {}: {}{}; cfg {}; rows: {}",
                    e.kind(),
                    e.msg().chars().take(300).collect::<String>(),
                    dbg,
                    P::NAME,
                    describe(&bt.plan)
                ),
            )
        }
    }
}

/// C10: every failure counts.
pub fn oracle_prove(c: &Case, prefix: &str) -> Report {
    with_cfg!(c.cfg, P => prove_cfg::<P>(c, prefix, false))
}

/// C09: only an unbalanced WitnessChecks bus counts.
pub fn oracle_bus(c: &Case, prefix: &str) -> Report {
    with_cfg!(c.cfg, P => prove_cfg::<P>(c, prefix, true))
}

// ---------------------------------------------------------------------------------------------
// Oracle 3: forged data (C04)
// ---------------------------------------------------------------------------------------------

pub const RULE_FORGED: &str = "the same permutation programs with one fault: (a) one base-field input cell of one row of the \
committed permutation table; (b) one coefficient of one committed public value (inputs, direction bits, claimed \
outputs, claimed index sums, ALU results of outputs); (c) the accumulator of the first row of a Merkle chain, the \
claimed index adjusted to the recurrence; (d) a dishonest execution in which one limb of one row's state is altered \
right before the permutation (executor hook), everything downstream re-derived and the resulting values claimed; then \
prove + verify. Oracle: accepted => the claimed public values satisfy the reference model (direction bits boolean, \
outputs = native permutation chain under the documented chaining / zero-start / placement rules, index = binary \
accumulation of the bits) and, for (a), the altered cell is a private sibling limb (a free datum); the untouched case \
must be accepted. Non-trivial = a fault whose claim the model rejects or that alters a bound cell; distinct on \
(shapes, fault)";

/// What the documentation says fixes the value of physical limb `l` of row `r`.
fn cell_class(plan: &[PRow], desc_hidden: &[Vec<bool>], r: usize, l: usize) -> &'static str {
    let row = &plan[r];
    if !row.merkle {
        if !desc_hidden[r][l] {
            "sponge-exposed"
        } else if !row.new_start {
            "sponge-chained"
        } else {
            "sponge-start-hidden(zero)"
        }
    } else {
        let logical = if row.bit { (l + RE) % WE } else { l };
        if !desc_hidden[r][logical] {
            "merkle-exposed"
        } else if logical < RE {
            if row.new_start { "merkle-start-hidden-digest(zero)" } else { "merkle-chained-digest" }
        } else if logical - RE < row.sibling {
            "merkle-private-sibling"
        } else {
            "merkle-hidden-capacity(zero)"
        }
    }
}

/// Does anything the verifier sees depend on row `r`'s output?
fn out_observed(plan: &[PRow], desc_hidden: &[Vec<bool>], out_read: &std::collections::BTreeSet<(usize, usize)>, r: usize) -> bool {
    // an exposed rate output nobody reads has creator multiplicity 0: it is not on the bus
    if (0..RE).any(|l| plan[r].outs[l] > 0 && out_read.contains(&(r, l))) {
        return true;
    }
    if r + 1 < plan.len() && !plan[r + 1].new_start {
        let nx = &plan[r + 1];
        let n = if nx.merkle { RE } else { WE };
        return (0..n).any(|l| desc_hidden[r + 1][l]);
    }
    false
}

fn set_public<P: PCfg>(bt: &Built<P>, t: &mut Traces<Ef<P>>, i: usize, v: Ef<P>) -> bool {
    let Some(w) = bt.circuit.expr_to_widx.get(&bt.pub_exprs[i]) else {
        return false;
    };
    let mut hit = false;
    for (k, idx) in t.public_trace.index.iter().enumerate() {
        if idx == w {
            t.public_trace.values[k] = v;
            hit = true;
        }
    }
    hit
}


/// Values of an arity-2 permutation table that no constraint ties to anything the verifier sees
/// (confirmed findings of this check, see NOTES.md): cases that target one of them are excluded
/// by construction unless `VERIF_NO_EXCLUDE` is set / a known finding is replayed.
pub const KNOWN_CAUSES: [&str; 6] = [
    "hidden-limb-on-sponge-chain-start-is-free",
    "hidden-digest-limb-on-merkle-chain-start-is-free",
    "hidden-capacity-limb-on-merkle-row-is-free",
    "exposed-limb-on-merkle-row-not-bound",
    "direction-bit-not-bound",
    "chain-start-index-accumulator-is-free",
];

/// The known cause a free cell class belongs to (None = the documentation binds the cell).
fn free_cause(cell_class: &str) -> Option<&'static str> {
    match cell_class {
        "sponge-start-hidden(zero)" => Some(KNOWN_CAUSES[0]),
        "merkle-start-hidden-digest(zero)" => Some(KNOWN_CAUSES[1]),
        "merkle-hidden-capacity(zero)" => Some(KNOWN_CAUSES[2]),
        "merkle-exposed" => Some(KNOWN_CAUSES[3]),
        _ => None,
    }
}

/// What acceptance of the forged data would mean.
enum Expect {
    /// acceptance is fine (the claim is still true / a free private datum changed)
    Harmless,
    /// acceptance is a violation with this signature detail
    Reject(String),
    /// acceptance is a violation of a known cause
    Known(&'static str),
}

fn forged_cfg<P: PCfg>(c: &Case, prefix: &str) -> Report {
    let bt = match build_or_report::<P>(c, prefix) {
        Ok(b) => b,
        Err(r) => return r,
    };
    let mut rep = base_report(c, &bt).class(format!("fault:{}", c.fault.name()));
    let hidden: Vec<Vec<bool>> = bt.desc.iter().map(|r| r.ins.iter().map(|s| matches!(s, Src::Hidden)).collect()).collect();
    let n = bt.plan.len();
    let d = <P::F as Fc>::D;
    let p = <P::F as Fc>::p();
    let nzb = |delta: u64| Bf::<P>::from_u64(1 + delta % (p - 1));
    let pk = packing(c);
    let npo = P::npo();
    let chained_limbs: Vec<(usize, usize)> = (0..n)
        .flat_map(|r| (0..WE).map(move |l| (r, l)))
        .filter(|(r, l)| matches!(cell_class(&bt.plan, &hidden, *r, *l), "sponge-chained" | "merkle-chained-digest"))
        .collect();

    // the forged traces, the claimed public values, and what the oracle expects
    let mut claimed = bt.honest.clone();
    let mut expect = Expect::Harmless;
    let mut detail = String::new();
    let traces: Traces<Ef<P>>;
    match &c.fault {
        Fault::None => {
            traces = match run_circuit(&bt, &bt.honest) {
                Ok(t) => t,
                Err(_) => return rep.class("outcome:honest-run-failed(C02's subject)"),
            };
        }
        Fault::InputCell { row, cell, delta } => {
            let mut t = match run_circuit(&bt, &bt.honest) {
                Ok(t) => t,
                Err(_) => return rep.class("outcome:honest-run-failed(C02's subject)"),
            };
            // every other fault aims at a limb that a chaining constraint fixes (thin otherwise)
            let (r, k) = match chained_limbs.as_slice() {
                [] => (pick(*row, n), pick(*cell, P::WIDTH)),
                _ if delta % 2 == 0 => (pick(*row, n), pick(*cell, P::WIDTH)),
                ch => {
                    let (r, l) = ch[pick(*row, ch.len())];
                    (r, l * d + pick(*cell, d))
                }
            };
            if !P::edit(&mut t, r, &mut |inp, _| inp[k] += nzb(*delta)) {
                return rep.class("fault:not-applicable(no permutation table)");
            }
            let cc = cell_class(&bt.plan, &hidden, r, k / d);
            let obs = if out_observed(&bt.plan, &hidden, &bt.out_read, r) { "out-observed" } else { "out-unobserved" };
            rep = rep.class(format!("cell:{cc}:{obs}"));
            detail = format!("row {r} ({}) input cell {k}: {cc}, {obs}", mode_name(&bt.plan[r]));
            expect = match (cc, obs, free_cause(cc)) {
                // the altered row's output reaches the verifier: the change must surface there
                (_, "out-observed", _) => Expect::Reject(format!("perm-input-cell:{cc}:out-observed")),
                ("merkle-private-sibling", _, _) => Expect::Harmless,
                (_, _, Some(cause)) => Expect::Known(cause),
                _ => Expect::Reject(format!("perm-input-cell:{cc}")),
            };
            traces = t;
        }
        Fault::Public { which, coeff, delta } => {
            let mut t = match run_circuit(&bt, &bt.honest) {
                Ok(t) => t,
                Err(_) => return rep.class("outcome:honest-run-failed(C02's subject)"),
            };
            if bt.roles.is_empty() {
                return rep.class("fault:not-applicable(no public value)");
            }
            // half of the faults aim at the claimed values (outputs, indices, ALU results) only
            let claimed_only: Vec<usize> = bt
                .roles
                .iter()
                .enumerate()
                .filter(|(_, r)| !matches!(r, Role::Input | Role::Bit { .. } | Role::CapOutput { .. }))
                .map(|(i, _)| i)
                .collect();
            let active_index: Vec<usize> = bt
                .roles
                .iter()
                .enumerate()
                .filter(|(_, r)| matches!(r, Role::Index { active: true, .. }))
                .map(|(i, _)| i)
                .collect();
            let i = if coeff & 0xc0 == 0xc0 && !active_index.is_empty() {
                active_index[pick(*which, active_index.len())]
            } else if coeff & 0x80 != 0 && !claimed_only.is_empty() {
                claimed_only[pick(*which, claimed_only.len())]
            } else {
                pick(*which, bt.roles.len())
            };
            let role = bt.roles[i].clone();
            let is_bit = matches!(role, Role::Bit { .. });
            let v = if is_bit && delta % 2 == 0 {
                Ef::<P>::ONE - claimed[i] // boolean flip
            } else if matches!(role, Role::Bit { .. } | Role::Index { .. } | Role::IndexStart { .. }) {
                claimed[i] + Ef::<P>::from(nzb(*delta)) // stays in the base field
            } else {
                let mut co = vec![Bf::<P>::ZERO; d];
                co[(*coeff & 0x3f) as usize % d] = nzb(*delta);
                claimed[i] + <Ef<P> as BasedVectorSpace<Bf<P>>>::from_basis_coefficients_slice(&co).unwrap()
            };
            claimed[i] = v;
            if !set_public(&bt, &mut t, i, v) {
                return rep.class("fault:not-applicable(public not in the table)");
            }
            let ev = eval::<P>(&bt.desc, &claimed, None);
            let ok = statement_true(&ev, &claimed);
            rep = rep.class(format!("public:{}:{}", role.name(), if ok { "claim-still-true" } else { "claim-false" }));
            detail = format!("public #{i} {role:?} changed");
            if !ok {
                let feeds = feeds_tag(&bt, i);
                expect = match &role {
                    Role::Bit { .. } => Expect::Known(KNOWN_CAUSES[4]),
                    Role::IndexStart { .. } => Expect::Known(KNOWN_CAUSES[5]),
                    Role::Input if feeds == ":feeds-merkle-row" => Expect::Known(KNOWN_CAUSES[3]),
                    // documented: capacity outputs are returned but not CTL-verified
                    Role::CapOutput { .. } => {
                        rep = rep.class("documented:capacity-output-not-ctl-verified");
                        Expect::Harmless
                    }
                    _ => Expect::Reject(format!("public-{}{}", role.name(), feeds)),
                };
            }
            traces = t;
        }
        Fault::StartAcc { chain, delta } => {
            let mut t = match run_circuit(&bt, &bt.honest) {
                Ok(t) => t,
                Err(_) => return rep.class("outcome:honest-run-failed(C02's subject)"),
            };
            // chains: (start row with no exposed index, last row exposing the index, chained)
            let mut chains = vec![];
            let mut s = None;
            for r in 0..n {
                if bt.plan[r].merkle && bt.plan[r].new_start {
                    s = Some(r);
                } else if !bt.plan[r].merkle {
                    s = None;
                }
                let last_of_chain = r + 1 == n || bt.plan[r + 1].new_start;
                if let Some(s0) = s
                    && bt.plan[r].merkle
                    && last_of_chain
                    && r > s0
                    && bt.desc[r].index_pub.is_some()
                    && bt.desc[s0].index_pub.is_none()
                {
                    chains.push((s0, r));
                }
            }
            if chains.is_empty() {
                return rep.class("fault:not-applicable(no chain with a hidden start and an exposed end)");
            }
            let (s0, e) = chains[pick(*chain, chains.len())];
            let y = nzb(*delta % 1000);
            P::edit(&mut t, s0, &mut |_, acc| *acc += y);
            let mut shift = y;
            for _ in s0..e {
                shift = shift.double();
            }
            let i = bt.desc[e].index_pub.unwrap();
            claimed[i] += Ef::<P>::from(shift);
            set_public(&bt, &mut t, i, claimed[i]);
            detail = format!("chain rows {s0}..={e}: start accumulator += {y:?}, claimed index += {shift:?}");
            expect = Expect::Known(KNOWN_CAUSES[5]);
            traces = t;
        }
        Fault::Reexec { row, limb, delta } => {
            let (r, l) = match chained_limbs.as_slice() {
                [] => (pick(*row, n), *limb as usize % WE),
                _ if delta % 2 == 0 => (pick(*row, n), *limb as usize % WE),
                ch => ch[pick(*row, ch.len())],
            };
            let mut co = vec![Bf::<P>::ZERO; d];
            co[(*delta % d as u64) as usize] = nzb(*delta);
            let dv = <Ef<P> as BasedVectorSpace<Bf<P>>>::from_basis_coefficients_slice(&co).unwrap();
            let ev = eval::<P>(&bt.desc, &bt.honest, Some((r, l, dv)));
            for (i, e) in ev.expected.iter().enumerate() {
                if let Some(v) = e {
                    claimed[i] = *v;
                }
            }
            let cc = cell_class(&bt.plan, &hidden, r, l);
            // is the altered execution's claim one the honest model also yields?
            let honest_ev = eval::<P>(&bt.desc, &claimed, None);
            let ok = statement_true(&honest_ev, &claimed);
            rep = rep.class(format!("reexec:{cc}:{}", if ok { "claim-still-true" } else { "claim-false" }));
            detail = format!("row {r} ({}) limb {l} ({cc}) altered before the permutation, downstream re-derived", mode_name(&bt.plan[r]));
            p3_circuit::ops::verif_hooks::set_perm_input_fault::<Ef<P>>(bt.op_ids[r].0, l, dv);
            let res = run_circuit(&bt, &claimed);
            p3_circuit::ops::verif_hooks::clear_perm_input_fault();
            traces = match res {
                Ok(t) => t,
                // the altered value collides with a slot the execution itself checks
                Err(_) => return rep.class("outcome:altered-execution-rejected-by-run"),
            };
            if !ok {
                expect = match (cc, free_cause(cc)) {
                    // another private sibling is another honest execution: its claim IS true for
                    // that sibling; the model evaluated with the original sibling does not apply
                    ("merkle-private-sibling", _) => Expect::Harmless,
                    (_, Some(cause)) => Expect::Known(cause),
                    _ => Expect::Reject(format!("reexec:{cc}")),
                };
            }
        }
    }
    if let Expect::Known(cause) = &expect
        && crate::e1::exclude_known()
    {
        return rep.class(format!("excluded_by_known_finding:{cause}"));
    }
    let setup = match <P::F as Pv>::setup(&bt.circuit, &pk, &npo) {
        Ok(s) => s,
        Err(e) => return rep.class(format!("outcome:setup-failed(C10's subject):{}", e.kind())),
    };
    let accepted = match <P::F as Pv>::prove(&setup, &traces) {
        Ok(pr) => <P::F as Pv>::verify(&setup, &pr).is_ok(),
        Err(_) => false,
    };
    rep.nontrivial = !matches!(expect, Expect::Harmless);
    match (&c.fault, accepted, expect) {
        (Fault::None, true, _) => rep.class("outcome:untouched-accepted"),
        (Fault::None, false, _) => rep.class("outcome:untouched-rejected(C10's subject)"),
        (_, false, Expect::Harmless) => rep.class("outcome:rejected(claim true or free datum)"),
        (_, false, _) => rep.class("outcome:rejected"),
        (_, true, Expect::Harmless) => rep.class("outcome:accepted(harmless)"),
        (_, true, Expect::Reject(why)) => failed(
            rep,
            format!("{prefix}/accepted-forged:{why}"),
            format!("{} fault accepted by the verifier: {detail}; cfg {}; rows: {}", c.fault.name(), P::NAME, describe(&bt.plan)),
        ),
        (_, true, Expect::Known(cause)) => failed(
            rep,
            format!("{prefix}/accepted-forged:{cause}"),
            format!("{} fault accepted by the verifier: {detail}; cfg {}; rows: {}", c.fault.name(), P::NAME, describe(&bt.plan)),
        ),
    }
}

/// Where a public input goes (narrows the signature of an accepted false claim).
fn feeds_tag<P: PCfg>(bt: &Built<P>, i: usize) -> String {
    let mut tags = std::collections::BTreeSet::new();
    for (r, row) in bt.desc.iter().enumerate() {
        for s in &row.ins {
            let hit = match s {
                Src::Pub(k) => *k == i,
                Src::Alu(_, a, b) => *a == i || *b == i,
                _ => false,
            };
            if hit {
                tags.insert(if bt.plan[r].merkle { "feeds-merkle-row" } else { "feeds-sponge-row" });
            }
        }
    }
    if tags.is_empty() { String::new() } else { format!(":{}", tags.into_iter().collect::<Vec<_>>().join("+")) }
}

pub fn oracle_forged(c: &Case, prefix: &str) -> Report {
    with_cfg!(c.cfg, P => forged_cfg::<P>(c, prefix))
}

// ---------------------------------------------------------------------------------------------
// Registration helpers
// ---------------------------------------------------------------------------------------------

/// Registers the sub-check `perm-programs` of `property` (C02, C09, C10 or C04) on `ctx`.
pub fn run_for(ctx: &Ctx, property: &str) {
    match property {
        "C02" => {
            let n = ctx.tier.pick(20_000, 1_000_000);
            ctx.explore("perm-programs", RULE_VALUES, n, strategy, |c| oracle_values(c, "C02/perm-programs"));
            ctx.replay_known("perm-programs", |c: &Case| oracle_values(c, "C02/perm-programs"));
        }
        "C09" => {
            let n = ctx.tier.pick(400, 20_000);
            ctx.explore("perm-programs", RULE_PROVE, n, strategy, |c| oracle_bus(c, "C09/perm-programs"));
            ctx.replay_known("perm-programs", |c: &Case| crate::e1::without_exclusions(|| oracle_bus(c, "C09/perm-programs")));
        }
        "C10" => {
            let n = ctx.tier.pick(400, 20_000);
            ctx.explore("perm-programs", RULE_PROVE, n, strategy, |c| oracle_prove(c, "C10/perm-programs"));
            ctx.replay_known("perm-programs", |c: &Case| crate::e1::without_exclusions(|| oracle_prove(c, "C10/perm-programs")));
        }
        "C19" => {
            let n = ctx.tier.pick(20_000, 1_000_000);
            ctx.explore("perm-private-data", RULE_PRIVATE, n, private_data_strategy, |c| oracle_private_data(c, "C19/perm-private-data"));
            ctx.replay_known("perm-private-data", |c: &Case| oracle_private_data(c, "C19/perm-private-data"));
        }
        "C04" => {
            let n = ctx.tier.pick(1_000, 50_000);
            ctx.explore("perm-programs", RULE_FORGED, n, forged_strategy, |c| oracle_forged(c, "C04/perm-programs"));
            ctx.replay_known("perm-programs", |c: &Case| crate::e1::without_exclusions(|| oracle_forged(c, "C04/perm-programs")));
        }
        _ => {}
    }
}

/// Development entry point (`verif PP`): all four oracles under one id.
pub fn run(ctx: &Ctx) {
    let only = std::env::var("VERIF_PP_ONLY").unwrap_or_default();
    let want = |s: &str| only.is_empty() || only.split(',').any(|x| x == s);
    if want("values") {
        ctx.explore("values", RULE_VALUES, ctx.tier.pick(4_000, 200_000), strategy, |c| oracle_values(c, "PP/values"));
    }
    if want("private") {
        ctx.explore("private", RULE_PRIVATE, ctx.tier.pick(20_000, 1_000_000), private_data_strategy, |c| oracle_private_data(c, "PP/private"));
    }
    if want("prove") {
        ctx.explore("prove", RULE_PROVE, ctx.tier.pick(400, 20_000), strategy, |c| oracle_prove(c, "PP/prove"));
    }
    if want("bus") {
        ctx.explore("bus", RULE_PROVE, ctx.tier.pick(400, 20_000), strategy, |c| oracle_bus(c, "PP/bus"));
    }
    if want("forged") {
        ctx.explore("forged", RULE_FORGED, ctx.tier.pick(1_500, 75_000), forged_strategy, |c| oracle_forged(c, "PP/forged"));
        ctx.replay_known("forged", |c: &Case| crate::e1::without_exclusions(|| oracle_forged(c, "PP/forged")));
    }
}
