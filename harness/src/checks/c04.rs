//! C04 — an accepted circuit proof attests a satisfying assignment.
//!
//! Fault enumeration on honest executions: a forged set of traces (single cells changed,
//! a slot changed everywhere, a slot changed and propagated, constants, recompose
//! coefficients) is proven with the honest prover data in the release profile (no prover
//! self-checks) and given to the native verifier.  Accepted ⇒ the forged traces describe one
//! consistent assignment satisfying every op relation (`forge::trace_validity`).

use std::collections::HashMap;

use proptest::prelude::*;
use serde::{Deserialize, Serialize};

use crate::checks::c10::{Case as C10Case, packing};
use crate::dispatch_field;
use crate::e1::{self, Built, GenOpts, Prog, Val};
use crate::forge;
use crate::fw::{Ctx, Report, Verdict, hash_of, pick};
use crate::opsem;
use crate::pv::{NpoSel, Pv, PvErr};

#[derive(Clone, Debug, Serialize, Deserialize, Hash, PartialEq, Eq)]
pub enum Fault {
    /// change one value cell of one ALU row (col 0..4 = a, b, c, out)
    AluCell { row: u16, col: u8, delta: Val },
    PublicCell { row: u16, delta: Val },
    ConstCell { row: u16, delta: Val },
    /// change one value column of one recompose row (coeff table or standard)
    RecomposeCell { coeff_table: bool, row: u16, col: u8, delta: Val },
    /// give a witness slot a new value in every row that names it; `propagate` re-derives
    /// every later slot from it (so exactly the slot's own defining relation is broken)
    Slot { slot: u16, delta: Val, propagate: bool },
    /// change an *input* slot and propagate: another honest execution (must stay accepted)
    Input { input: u16, delta: Val },
}

#[derive(Clone, Debug, Serialize, Deserialize, Hash)]
pub struct Case {
    pub prog: Prog,
    pub public_lanes: u8,
    pub alu_lanes: u8,
    pub horner_k: u8,
    pub faults: Vec<Fault>,
}

pub const RULE: &str = "random satisfying programs (7 field configurations, lanes 1-4, Horner k 2-4, recompose tables) x \
1-2 fault operators on the honest execution traces: one cell of one row of one table; one slot changed in every row \
naming it, with or without propagation over the op list; a constant; a recompose coefficient; an input change \
(alternative honest execution, negative control for the oracle). Forged traces are proven (release profile, no prover \
self-check) and verified natively. Oracle: accepted => forge::trace_validity (one value per slot, exact constants, \
every ALU relation, recompose rows = coefficients of output and of inputs). Non-trivial = a forgery whose traces are \
invalid (a real attack); distinct on (fault kinds, invalidity classes, op kind of the touched row)";

pub static KNOWN: std::sync::OnceLock<Vec<String>> = std::sync::OnceLock::new();
fn is_known(sig: &str) -> bool {
    KNOWN.get().is_some_and(|k| k.iter().any(|x| x == sig))
}

fn fault_kind(f: &Fault) -> &'static str {
    match f {
        Fault::AluCell { .. } => "alu-cell",
        Fault::PublicCell { .. } => "public-cell",
        Fault::ConstCell { .. } => "const-cell",
        Fault::RecomposeCell { coeff_table: true, .. } => "recompose-coeff-cell",
        Fault::RecomposeCell { .. } => "recompose-std-cell",
        Fault::Slot { propagate: true, .. } => "slot+propagate",
        Fault::Slot { .. } => "slot",
        Fault::Input { .. } => "input+propagate",
    }
}

fn check<C: Pv>(c: &Case) -> Report {
    let (built, linked): (Built<C>, bool) = e1::interpret_linked::<C>(&c.prog, e1::Excl::ALL_SAT);
    let Built {
        builder,
        publics,
        privates,
        features,
        ..
    } = built;
    let circuit = match builder.build() {
        Ok(x) => x,
        Err(e) => return Report::fail("C04/build-error", format!("{e:?}")),
    };
    if !e1::horner_shape_ok(&circuit) {
        return Report::pass().class("excluded_by_known_finding:horner-positional-contract");
    }
    // listed root cause coeff-slot-second-creator (C09/C10): a recompose/coeff coefficient slot
    // with a second creator is mis-counted by the preprocessing; excluded by construction, counted
    if e1::exclude_known() && !e1::coeff_slots_ok(&circuit) {
        return Report::pass().class("excluded_by_known_finding:coeff-slot-second-creator");
    }
    let mut runner = circuit.runner();
    if runner
        .set_public_inputs(&publics)
        .and_then(|_| runner.set_private_inputs(&privates))
        .is_err()
    {
        return Report::discard("inputs rejected");
    }
    let honest = match runner.run() {
        Ok(t) => t,
        Err(_) => return Report::discard("honest run failed (C02's business)"),
    };
    let w0 = forge::assignment_of::<C>(&circuit, &honest);
    let n = w0.len();
    // ---- assignment-level faults
    let mut w = w0.clone();
    let input_slots: Vec<u32> = circuit
        .public_rows
        .iter()
        .chain(&circuit.private_input_rows)
        .map(|x| x.0)
        .collect();
    let mut excluded = vec![];
    let const_slots: std::collections::HashSet<u32> = circuit
        .ops
        .iter()
        .filter_map(|op| match op {
            p3_circuit::Op::Const { out, .. } => Some(out.0),
            _ => None,
        })
        .collect();
    for f in &c.faults {
        match f {
            Fault::Slot {
                slot,
                delta,
                propagate,
            } => {
                let s = pick(*slot, n) as u32;
                if const_slots.contains(&s) && e1::exclude_known() {
                    // known finding: constant values live in the main trace of ConstAir
                    excluded.push("const-value-in-main-trace");
                    continue;
                }
                let v = w[s as usize] + delta.resolve::<C>();
                if *propagate {
                    let pins: HashMap<u32, C::EF> = [(s, v)].into_iter().collect();
                    w = opsem::propagate::<C>(&circuit, &w, &pins);
                } else {
                    w[s as usize] = v;
                }
            }
            Fault::Input { input, delta } => {
                if input_slots.is_empty() {
                    continue;
                }
                let s = input_slots[pick(*input, input_slots.len())];
                if const_slots.contains(&s) && e1::exclude_known() {
                    excluded.push("const-value-in-main-trace");
                    continue;
                }
                let v = w[s as usize] + delta.resolve::<C>();
                let pins: HashMap<u32, C::EF> = [(s, v)].into_iter().collect();
                w = opsem::propagate::<C>(&circuit, &w, &pins);
            }
            _ => {}
        }
    }
    let mut t = forge::traces_from_assignment::<C>(&circuit, &w, &honest);
    // the honest recompose rows carry coefficient 0 of their inputs; start from those for
    // rows whose output did not change
    // ---- cell-level faults
    let mut touched_kinds: Vec<String> = vec![];
    let pack_k = 2 + (c.horner_k % 3) as usize;
    let uncommitted = forge::uncommitted_alu_cells(&circuit, pack_k);
    let mut uncommitted_hits = 0;
    for f in &c.faults {
        match f {
            Fault::AluCell { row, col, delta } => {
                let rows = t.alu_trace.values.len();
                if rows == 0 {
                    continue;
                }
                let r = pick(*row, rows);
                let k = (*col % 4) as usize;
                if uncommitted.contains(&(r, k)) {
                    // this cell of a packed Horner step is not part of the committed matrix
                    uncommitted_hits += 1;
                    continue;
                }
                t.alu_trace.values[r][k] += delta.resolve::<C>();
                touched_kinds.push(format!("{:?}.{}", t.alu_trace.op_kind[r], ["a", "b", "c", "out"][k]));
            }
            Fault::PublicCell { row, delta } => {
                let rows = t.public_trace.values.len();
                if rows == 0 {
                    continue;
                }
                let r = pick(*row, rows);
                t.public_trace.values[r] += delta.resolve::<C>();
            }
            Fault::ConstCell { row, delta } => {
                if e1::exclude_known() {
                    excluded.push("const-value-in-main-trace");
                    continue;
                }
                let rows = t.const_trace.values.len();
                if rows == 0 {
                    continue;
                }
                let r = pick(*row, rows);
                t.const_trace.values[r] += delta.resolve::<C>();
            }
            Fault::RecomposeCell {
                coeff_table,
                row,
                col,
                delta,
            } => {
                if !*coeff_table && e1::exclude_known() {
                    excluded.push("recompose-std-coefficients-unbound");
                    continue;
                }
                let Some(mut rt) = forge::recompose_rows_mut::<C>(&mut t, *coeff_table) else {
                    continue;
                };
                if rt.operations.is_empty() {
                    continue;
                }
                let r = pick(*row, rt.operations.len());
                let k = (*col as usize) % rt.operations[r].values.len();
                use p3_field::PrimeCharacteristicRing;
                let d = C::coeffs(&delta.resolve::<C>())[0];
                rt.operations[r].values[k] += <C::BF as PrimeCharacteristicRing>::from_u64(d);
                forge::set_recompose_rows::<C>(&mut t, rt);
            }
            _ => {}
        }
    }
    forge::normalize_uncommitted::<C>(&circuit, pack_k, &mut t);
    let mut honest_again = forge::traces_from_assignment::<C>(&circuit, &w0, &honest);
    forge::normalize_uncommitted::<C>(&circuit, pack_k, &mut honest_again);
    let same = t.const_trace == honest_again.const_trace
        && t.public_trace == honest_again.public_trace
        && t.alu_trace == honest_again.alu_trace
        && [false, true].iter().all(|&cf| {
            let a = forge::recompose_rows::<C>(&t, cf).map(|x| {
                x.operations.iter().map(|r| r.values.clone()).collect::<Vec<_>>()
            });
            let b = forge::recompose_rows::<C>(&honest_again, cf).map(|x| {
                x.operations.iter().map(|r| r.values.clone()).collect::<Vec<_>>()
            });
            a == b
        });
    let kinds: Vec<&str> = c.faults.iter().map(fault_kind).collect();
    let mut rep = Report::pass()
        .class(format!("field:{}", C::NAME))
        .class(if linked { "decompose-links:recompose/coeff" } else { "decompose-links:default" })
        .classes(kinds.iter().map(|k| format!("fault:{k}")))
        .classes(excluded.iter().map(|e| format!("excluded_by_known_finding:{e}")));
    if uncommitted_hits > 0 {
        rep = rep.class("fault-on-uncommitted-packed-horner-cell(skipped)");
    }
    if same {
        return rep.class("outcome:forgery-is-a-no-op");
    }
    let invalid = forge::trace_validity::<C>(&circuit, &t);
    let mut classes: Vec<String> = invalid.iter().map(|i| i.class.clone()).collect();
    classes.sort();
    classes.dedup();
    let pk = packing(&C10Case {
        prog: Prog {
            field: 0,
            recompose_npo: false,
            stmts: vec![],
        },
        public_lanes: c.public_lanes,
        alu_lanes: c.alu_lanes,
        horner_k: c.horner_k,
        log_min_height: 0,
    });
    let npo = NpoSel {
        recompose: c.prog.recompose_npo,
        debug_lookups: false,
        poseidon2: None,
        poseidon1: None,
    };
    let setup = match C::setup(&circuit, &pk, &npo) {
        Ok(s) => s,
        Err(PvErr::Setup(m)) if m.starts_with("UnclaimedPrivateInput") => {
            return Report::discard("documented: unclaimed private input");
        }
        Err(e) => return Report::discard(format!("setup failed: {}", e.kind())),
    };
    let accepted = match C::prove(&setup, &t) {
        Ok(p) => C::verify(&setup, &p).is_ok(),
        Err(_) => false,
    };
    rep = rep.key(hash_of(&(kinds.clone(), classes.clone(), touched_kinds.clone(), features.contains("horner"), C::NAME)));
    match (accepted, invalid.is_empty()) {
        (false, false) => rep
            .nontrivial(true)
            .class("outcome:invalid-rejected")
            .classes(classes.iter().map(|c| format!("invalid:{c}"))),
        (true, true) => rep.class("outcome:valid-accepted"),
        (false, true) => {
            if std::env::var("VERIF_DUMP_VR").is_ok() {
                eprintln!("VALID-REJECTED {}", serde_json::to_string(c).unwrap());
            }
            rep.class("outcome:valid-rejected(see C10)")
                .classes(kinds.iter().map(|k| format!("valid-rejected-fault:{k}")))
        }
        (true, false) => {
            // every invalidity class was accepted; one unknown class is enough for a violation
            if std::env::var("VERIF_DUMP_C04").is_ok() {
                for (i, op) in circuit.ops.iter().enumerate() {
                    eprintln!("op{i}: {}", crate::e1::fmt_op::<C>(op));
                }
                for cf in [false, true] {
                    for (side, tr) in [("forged", &t), ("honest", &honest_again)] {
                        if let Some(rt) = forge::recompose_rows::<C>(tr, cf) {
                            for (i, r) in rt.operations.iter().enumerate() {
                                eprintln!(
                                    "recompose coeff={cf} {side} row{i}: in={:?} out={} values={:?}",
                                    r.input_wids.iter().map(|w| w.0).collect::<Vec<_>>(),
                                    r.output_wid.0,
                                    r.values
                                );
                            }
                        }
                    }
                }
                eprintln!("const forged {:?}\nconst honest {:?}", t.const_trace, honest_again.const_trace);
            }
            let sigs: Vec<String> = classes.iter().map(|c| format!("C04/accepted-invalid:{c}")).collect();
            let sig = sigs
                .iter()
                .find(|s| !is_known(s))
                .cloned()
                .unwrap_or_else(|| sigs[0].clone());
            rep.verdict = Verdict::Fail {
                sig,
                msg: format!(
                    "verifier accepted forged traces ({:?}) that are invalid: {}",
                    kinds,
                    invalid
                        .iter()
                        .map(|i| format!("[{}] {}", i.class, i.detail))
                        .collect::<Vec<_>>()
                        .join("; ")
                ),
            };
            rep.nontrivial = true;
            rep
        }
    }
}

pub fn oracle(c: &Case) -> Report {
    dispatch_field!(c.prog.field as usize, C => check::<C>(c))
}

fn nz() -> impl Strategy<Value = Val> {
    e1::nonzero_val_strategy()
}

pub fn fault_strategy() -> impl Strategy<Value = Fault> {
    prop_oneof![
        6 => (any::<u16>(), 0u8..4, nz()).prop_map(|(row, col, delta)| Fault::AluCell { row, col, delta }),
        2 => (any::<u16>(), nz()).prop_map(|(row, delta)| Fault::PublicCell { row, delta }),
        2 => (any::<u16>(), nz()).prop_map(|(row, delta)| Fault::ConstCell { row, delta }),
        3 => (any::<bool>(), any::<u16>(), 0u8..5, nz()).prop_map(|(coeff_table, row, col, delta)| {
            Fault::RecomposeCell { coeff_table, row, col, delta }
        }),
        6 => (any::<u16>(), nz(), any::<bool>()).prop_map(|(slot, delta, propagate)| Fault::Slot { slot, delta, propagate }),
        1 => (any::<u16>(), nz()).prop_map(|(input, delta)| Fault::Input { input, delta }),
    ]
}

fn strategy(max_len: usize) -> impl Strategy<Value = Case> {
    (
        e1::prog_strategy(GenOpts {
            violating: false,
            free_connect: false,
            max_len,
            free_horner_weight: 1,
            fields: vec![0, 1, 2, 3, 4, 5, 6],
            ..GenOpts::default()
        }),
        0u8..4,
        0u8..4,
        0u8..3,
        proptest::collection::vec(fault_strategy(), 1..3),
    )
        .prop_map(|(prog, public_lanes, alu_lanes, horner_k, faults)| Case {
            prog,
            public_lanes,
            alu_lanes,
            horner_k,
            faults,
        })
}

pub fn run(ctx: &Ctx) {
    let _ = KNOWN.set(ctx.known_sigs());
    ctx.assume("STARK soundness error of the repo's FRI parameters (100 queries) is negligible against the deterministic effects searched for");
    ctx.assume("validity oracle = forge::trace_validity; Horner accumulators follow the slot named by the op (programs outside the positional contract are excluded, see C10 finding)");
    ctx.shrink_iters.store(150, std::sync::atomic::Ordering::Relaxed);
    let n = ctx.tier.pick(5000, 250_000);
    ctx.explore("forgeries", RULE, n, || strategy(12), oracle);
    ctx.replay_known("forgeries", |c: &Case| e1::without_exclusions(|| oracle(c)));
    // MMCS opening circuits: an opened value changed while the Merkle-mode rows keep the honest path
    let n = ctx.tier.pick(200, 10_000);
    ctx.explore(
        "mmcs-forged-openings",
        crate::checks::c08::RULE_FORGED_OPENING,
        n,
        crate::checks::c08::prove_case_strategy,
        crate::checks::c08::oracle_forged_opening,
    );
    ctx.replay_known("mmcs-forged-openings", crate::checks::c08::oracle_forged_opening);
    let n = ctx.tier.pick(800, 40_000);
    ctx.explore("perm-row-cells", RULE_PERM, n, perm_strategy, oracle_perm);
    ctx.explore("perm-programs", crate::checks::pp::RULE_FORGED, ctx.tier.pick(1_000, 50_000),
        crate::checks::pp::forged_strategy, |c| crate::checks::pp::oracle_forged(c, "C04/perm-programs"));
    ctx.replay_known("perm-programs", |c: &crate::checks::pp::Case| crate::e1::without_exclusions(|| crate::checks::pp::oracle_forged(c, "C04/perm-programs")));
    // complete single-fault enumeration for a fixed set of small generated circuits
    let programs = ctx.tier.pick(6, 120) as usize;
    let cases = enumerate_single_faults(ctx.seed, programs);
    ctx.enumerate(
        "single-fault-enumeration",
        "for a fixed, seed-derived set of small programs (<= 64 ops): EVERY cell of every ALU / public / recompose row \
(delta 1) and EVERY witness slot (in place and with propagation) is forged once; same oracle; exhaustive for those circuits",
        cases,
        true,
        oracle,
    );
}

fn enumerate_single_faults(seed: u64, programs: usize) -> Vec<Case> {
    let strat = strategy(8);
    let bases: Vec<Case> = crate::fw::sample_values(seed, "C04", "enum", &strat, programs);
    let one = || Val(vec![e1::Co::One]);
    let mut out = vec![];
    for base in bases {
        // sizes of the tables of this program's honest execution
        let sizes = dispatch_field!(base.prog.field as usize, C => table_sizes::<C>(&base.prog));
        let Some((alu_rows, pub_rows, slots, rec_std, rec_coeff)) = sizes else {
            continue;
        };
        if alu_rows > 64 {
            continue;
        }
        let mk = |f: Fault| Case {
            faults: vec![f],
            ..base.clone()
        };
        for r in 0..alu_rows {
            for col in 0..4u8 {
                out.push(mk(Fault::AluCell { row: crate::fw::unpick(r, alu_rows), col, delta: one() }));
            }
        }
        for r in 0..pub_rows {
            out.push(mk(Fault::PublicCell { row: crate::fw::unpick(r, pub_rows), delta: one() }));
        }
        for s in 0..slots {
            for propagate in [false, true] {
                out.push(mk(Fault::Slot { slot: crate::fw::unpick(s, slots), delta: one(), propagate }));
            }
        }
        for (coeff_table, rows) in [(false, rec_std), (true, rec_coeff)] {
            for r in 0..rows {
                for col in 0..5u8 {
                    out.push(mk(Fault::RecomposeCell { coeff_table, row: crate::fw::unpick(r, rows), col, delta: one() }));
                }
            }
        }
    }
    out
}

fn table_sizes<C: Pv>(prog: &Prog) -> Option<(usize, usize, usize, usize, usize)> {
    let built: Built<C> = e1::interpret::<C>(prog, e1::Excl::ALL_SAT);
    let Built { builder, publics, privates, .. } = built;
    let circuit = builder.build().ok()?;
    let mut runner = circuit.runner();
    runner.set_public_inputs(&publics).ok()?;
    runner.set_private_inputs(&privates).ok()?;
    let t = runner.run().ok()?;
    let rs = forge::recompose_rows::<C>(&t, false).map_or(0, |r| r.operations.len());
    let rc = forge::recompose_rows::<C>(&t, true).map_or(0, |r| r.operations.len());
    Some((
        circuit.ops.iter().filter(|o| matches!(o, p3_circuit::Op::Alu { .. })).count(),
        circuit.ops.iter().filter(|o| matches!(o, p3_circuit::Op::Public { .. })).count(),
        circuit.witness_count as usize,
        rs,
        rc,
    ))
}

// ---------------------------------------------------------------------------------------------
// Permutation rows: "every non-primitive row is the true function of its inputs"
// ---------------------------------------------------------------------------------------------

/// One cell of one Poseidon2 table row is edited in the trace a prover commits (the witness
/// slots are left alone, so the row no longer is the permutation of the values its input
/// slots hold); circuits are the challenger circuits of C05's history generator.
#[derive(Clone, Debug, Serialize, Deserialize, Hash)]
pub struct PermCase {
    pub history: crate::checks::c05::History,
    pub row: u16,
    pub limb: u16,
    pub delta: u64,
}

pub const RULE_PERM: &str = "challenger circuits (C05 histories, degree-4 Poseidon2 configurations) executed honestly; \
one base-field input cell of one permutation-table row is changed in the committed trace (delta != 0) while all witness \
slots keep their values; proven and verified. Oracle: every input limb of these rows is exposed on the witness bus, so \
the row is no longer the permutation of its input slots and the proof must be rejected. Non-trivial = every case; \
distinct on (configuration, row position class, limb)";

fn check_perm<K: crate::checks::c05::Kit>(c: &PermCase) -> Report {
    use crate::checks::c05::{self, PowMode};
    use p3_circuit::ops::Poseidon2Config;
    use p3_circuit::ops::poseidon2_perm::Poseidon2Trace;
    use p3_field::PrimeCharacteristicRing;
    type Bf<K> = <<K as c05::Kit>::F as crate::fields::Fc>::BF;
    let pcfg = match K::NAME {
        "p2-babybear-d4-w16" => Poseidon2Config::BABY_BEAR_D4_W16,
        "p2-koalabear-d4-w16" => Poseidon2Config::KOALA_BEAR_D4_W16,
        _ => return Report::discard("configuration has no prover table support in the harness"),
    };
    let built = match c05::build_from_history::<K>(&c.history, PowMode::TranscriptOnly) {
        Ok(b) => b,
        Err((sig, msg)) => return Report::fail(format!("C04/perm-build:{sig}"), msg),
    };
    let c05::Built { builder, publics, .. } = built;
    let circuit = match builder.build() {
        Ok(x) => x,
        Err(e) => return Report::fail("C04/build-error", format!("{e:?}")),
    };
    let mut runner = circuit.runner();
    if runner.set_public_inputs(&publics).is_err() {
        return Report::discard("inputs rejected");
    }
    let Ok(mut traces) = runner.run() else {
        return Report::discard("honest run failed (C05's business)");
    };
    let ty = p3_circuit::ops::NpoTypeId::poseidon2_perm(pcfg);
    let Some(pt) = traces.non_primitive_trace::<Poseidon2Trace<Bf<K>>>(&ty).cloned() else {
        return Report::discard("history performs no permutation");
    };
    if pt.operations.is_empty() {
        return Report::discard("history performs no permutation");
    }
    let mut pt = pt;
    let r = pick(c.row, pt.operations.len());
    let k = pick(c.limb, pt.operations[r].input_values.len());
    let d = 1 + c.delta % (<<K as c05::Kit>::F as crate::fields::Fc>::p() - 1);
    pt.operations[r].input_values[k] += Bf::<K>::from_u64(d);
    let nrows = pt.operations.len();
    traces.non_primitive_traces.insert(ty, Box::new(pt));
    let pk = p3_circuit_prover::TablePacking::new(1, 1);
    let npo = NpoSel {
        recompose: c.history.recompose,
        debug_lookups: false,
        poseidon2: Some(pcfg),
        poseidon1: None,
    };
    let setup = match <K::F as Pv>::setup(&circuit, &pk, &npo) {
        Ok(s) => s,
        Err(e) => return Report::fail(format!("C04/perm-setup-failed:{}", e.kind()), e.msg().chars().take(200).collect::<String>()),
    };
    let accepted = match <K::F as Pv>::prove(&setup, &traces) {
        Ok(p) => <K::F as Pv>::verify(&setup, &p).is_ok(),
        Err(_) => false,
    };
    let pos = if r == 0 { "first" } else if r + 1 == nrows { "last" } else { "middle" };
    let rep = Report::pass()
        .class(format!("kit:{}", K::NAME))
        .class(format!("row:{pos}"))
        .class(format!("limb:{k}"))
        .nontrivial(true)
        .key(hash_of(&(K::NAME, pos, k, c.history.recompose)));
    if accepted {
        let mut rr = rep;
        rr.verdict = Verdict::Fail {
            sig: format!("C04/perm-row-not-bound-to-input-slots:limb{k}"),
            msg: format!("permutation row {r}/{nrows}: input cell {k} changed by {d} without changing any witness slot, proof accepted"),
        };
        return rr;
    }
    rep.class("outcome:rejected")
}

struct PermV<'a>(&'a PermCase);
impl crate::checks::c05::KitVisitor for PermV<'_> {
    type Out = Report;
    fn visit<K: crate::checks::c05::Kit>(self) -> Report {
        check_perm::<K>(self.0)
    }
}

pub fn oracle_perm(c: &PermCase) -> Report {
    crate::checks::c05::with_kit(c.history.cfg, PermV(c))
}

pub fn perm_strategy() -> impl Strategy<Value = PermCase> {
    (
        crate::checks::c05::history_strategy(crate::checks::c05::GenOpts {
            min_len: 2,
            max_len: 12,
            cfgs: vec![0, 1],
            invalid_pow: false,
        }),
        any::<u16>(),
        any::<u16>(),
        any::<u64>(),
    )
        .prop_map(|(history, row, limb, delta)| PermCase {
            history,
            row,
            limb,
            delta,
        })
}
