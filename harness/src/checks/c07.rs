//! C07 — in-circuit FRI verification agrees with native FRI verification.
//!
//! Domain: FRI parameter set x commitment shape x honest opening (native `TwoAdicFriPcs`
//! commit -> open) x at most one single-element alteration per evaluation (a case carries a
//! short list of alterations; each one is applied on its own to the honest bundle).
//!
//! Oracle: native `Pcs::verify` (p3-fri) on the altered bundle.  Compared with
//!
//! * sub `pcs-circuit`: the circuit built through `RecursivePcs::{get_challenges_circuit,
//!   verify_circuit}` of the recursion crate, with the in-circuit challenger and MMCS
//!   verification enabled (`FriVerifierParams::with_mmcs`), fed through
//!   `Recursive::get_values` / `get_private_values` / `set_fri_mmcs_private_data` and run by
//!   `CircuitRunner` (run Ok <=> native Ok; every builder / input / private-data / run error
//!   and every panic while building counts as "reject");
//!   A quarter of the cases additionally carries an opening whose ONLY defect is a failing
//!   proof-of-work witness (`Case::bad_pow`);
//! * sub `fri-arith`: `verify_fri_circuit` (MMCS on) whose alpha / betas / query-index bits are
//!   public inputs holding the HONEST transcript's challenges, against native `Pcs::verify`
//!   driven by a challenger that replays the honest transcript's samples and ignores what it
//!   observes (`Tape`): the challenges are held fixed on both sides, which isolates the FRI
//!   arithmetic (reduced openings, folds, roll-ins, final polynomial) from the transcript.
//!
//! Known finding `C07/short-batch-index-bits` (a batch shorter than the tallest batch cannot be
//! verified in-circuit) is excluded by construction in `resolve()` unless exclusions are off.
//!
//! Alterations are JSON-path `SetLeaf` edits on `serde_json::to_value(&bundle)` where
//! `bundle = {commits, points, claims, proof}`; p3 field elements serialise as canonical
//! integers so a new value `< p` always deserialises.

use std::collections::{BTreeMap, BTreeSet};
use std::sync::OnceLock;
use std::sync::atomic::{AtomicU64, Ordering};
use std::time::Instant;

use p3_baby_bear::default_babybear_poseidon2_16;
use p3_challenger::{
    CanObserve, CanSample, CanSampleBits, FieldChallenger, GrindingChallenger,
};
use p3_circuit::ops::{generate_poseidon2_trace, generate_recompose_trace};
use p3_circuit::{Circuit, CircuitBuilder, NonPrimitiveOpId};
use p3_commit::Pcs;
use p3_field::coset::TwoAdicMultiplicativeCoset;
use p3_field::{PrimeCharacteristicRing, PrimeField64};
use p3_fri::FriParameters;
use p3_matrix::dense::RowMajorMatrix;
use p3_poseidon2_circuit_air::BabyBearD4Width16;
use p3_recursion::pcs::fri::{
    FriProofTargets, FriVerifierParams, InputProofTargets, MerkleCapTargets, RecExtensionValMmcs,
    RecValMmcs, Witness as RecWitness, verify_fri_circuit,
};
use p3_recursion::pcs::set_fri_mmcs_private_data;
use p3_recursion::types::{OpenedValuesTargets, OpenedValuesTargetsWithLookups};
use p3_recursion::{
    CircuitChallenger, ObservableCommitment, Poseidon2Config, Recursive, RecursiveChallenger,
    RecursivePcs, Target,
};
use p3_test_utils::baby_bear_params::{
    Challenge, ChallengeMmcs, Challenger, DIGEST_ELEMS, Dft, F, MyCompress, MyConfig, MyHash,
    MyMmcs, MyPcs, Perm, RATE, WIDTH,
};
use proptest::prelude::*;
use rand::rngs::SmallRng;
use rand::{RngExt, SeedableRng};
use serde::{Deserialize, Serialize};
use serde_json::Value;

use crate::fw::{self, Ctx, Report, catch, sig_of_panic};

type RecVal = RecValMmcs<F, DIGEST_ELEMS, MyHash, MyCompress>;
type RecExt = RecExtensionValMmcs<F, Challenge, DIGEST_ELEMS, RecVal>;
type InputTargets = InputProofTargets<F, Challenge, RecVal>;
type FriTargets = FriProofTargets<F, Challenge, RecExt, InputTargets, RecWitness<F>>;
type CapT = MerkleCapTargets<F, DIGEST_ELEMS>;
type Dom = TwoAdicMultiplicativeCoset<F>;
type Proof = <MyPcs as Pcs<Challenge, Challenger>>::Proof;
type Com = p3_symmetric::MerkleCap<F, [F; DIGEST_ELEMS]>;

const P: u64 = 2013265921; // BabyBear
const P2CFG: Poseidon2Config = Poseidon2Config::BABY_BEAR_D4_W16;

// ------------------------------------------------------------------------------------------
// case types
// ------------------------------------------------------------------------------------------

#[derive(Clone, Debug, Serialize, Deserialize, Hash, PartialEq, Eq)]
pub struct Mat {
    /// index into `Shape::heights` (mod len)
    pub h: u8,
    /// width - 1 (mod 6)
    pub w: u8,
    /// first opening point id (mod n_points)
    pub p0: u8,
    /// optional second, different opening point
    pub p1: Option<u8>,
}

#[derive(Clone, Debug, Serialize, Deserialize, Hash, PartialEq, Eq)]
pub struct Shape {
    pub log_blowup: u8,         // 1..=3
    pub num_queries: u8,        // 1..=4
    pub max_log_arity: u8,      // 1..=4
    pub log_final_poly_len: u8, // 0..=3
    pub commit_pow_bits: u8,    // {0,1,4,8}
    pub query_pow_bits: u8,     // {0,1,4,8}
    pub n_points: u8,           // 1..=3
    /// pool of matrix log-heights (0..=8; clamped from below by log_final_poly_len+1 when
    /// log_final_poly_len > 0, the native prover's precondition)
    pub heights: Vec<u8>,
    pub batches: Vec<Vec<Mat>>,
    /// MMCS cap height (0..=2, clamped to log_blowup so that every committed tree is at least
    /// as tall as its cap)
    #[serde(default)]
    pub cap_height: u8,
}

#[derive(Clone, Debug, Serialize, Deserialize, Hash, PartialEq, Eq)]
pub struct Mutation {
    /// selects the leaf class (JSON path with indices erased) among those present
    pub class: u16,
    /// selects the leaf inside the class
    pub leaf: u16,
    /// new value = old + 1 + delta (mod p), always different from the old one
    pub delta: u32,
    /// explicit concrete JSON path (hand-written replays); overrides class/leaf
    #[serde(default)]
    pub path: Option<String>,
}

#[derive(Clone, Debug, Serialize, Deserialize, Hash, PartialEq, Eq)]
pub struct Case {
    pub shape: Shape,
    pub seed: u64,
    /// each alteration is applied ON ITS OWN to the honest bundle (never combined)
    pub muts: Vec<Mutation>,
    /// `Some(k)`: additionally evaluate an opening produced by a prover that is honest except
    /// that its k-th (mod #grinds with bits > 0) proof-of-work witness does NOT satisfy the
    /// grinding condition (the transcript continues consistently from that witness), i.e. a
    /// proof whose only defect is the PoW.  Sub `pcs-circuit` only.
    #[serde(default)]
    pub bad_pow: Option<u8>,
}

#[derive(Clone, Serialize, Deserialize)]
struct Bundle {
    commits: Vec<Com>,
    points: Vec<Challenge>,
    /// batch -> matrix -> point slot -> column
    claims: Vec<Vec<Vec<Vec<Challenge>>>>,
    proof: Proof,
}

/// Resolved shape (clamping / modular maps applied).
#[derive(Clone, Debug, PartialEq, Eq, Hash)]
struct RMat {
    log_h: usize,
    width: usize,
    pts: Vec<usize>, // dense point ids
}
#[derive(Clone, Debug)]
struct RShape {
    log_blowup: usize,
    num_queries: usize,
    max_log_arity: usize,
    log_final_poly_len: usize,
    commit_pow_bits: usize,
    query_pow_bits: usize,
    n_points: usize,
    cap_height: usize,
    batches: Vec<Vec<RMat>>,
    /// number of batches whose first matrix was lifted to the global max height because of
    /// the known finding `C07/short-batch-index-bits`
    lifted: usize,
}

pub const KNOWN_SHORT_BATCH: &str = "C07/short-batch-index-bits";
/// Short batches are only excluded while the finding is listed with status "known"
/// (it was repaired by a `fix:` commit; the entry is now "fixed" and suppresses nothing).
pub static EXCLUDE_SHORT_BATCH: std::sync::atomic::AtomicBool = std::sync::atomic::AtomicBool::new(false);

/// Does some batch have a tallest matrix that is shorter than the globally tallest one?
fn has_short_batch(batches: &[Vec<RMat>]) -> bool {
    let g = batches.iter().flatten().map(|m| m.log_h).max().unwrap_or(0);
    batches
        .iter()
        .any(|b| b.iter().map(|m| m.log_h).max().unwrap_or(0) < g)
}

fn resolve(s: &Shape) -> RShape {
    let f = (s.log_final_poly_len % 4) as usize;
    // p3-fri prover precondition: when log_final_poly_len > 0 every LDE must be strictly taller
    // than the final domain; with log_final_poly_len = 0 a height-1 (constant) matrix is allowed
    // (recursion/tests/fri.rs uses one) as long as some matrix is taller (>= 1 fold phase).
    let lo = if f > 0 { f + 1 } else { 0 };
    let np = 1 + ((s.n_points.max(1) - 1) % 3) as usize;
    let pool: Vec<usize> = if s.heights.is_empty() {
        vec![lo]
    } else {
        s.heights
            .iter()
            .map(|&h| ((h % 9) as usize).max(lo))
            .collect()
    };
    let mut batches: Vec<Vec<RMat>> = s
        .batches
        .iter()
        .filter(|b| !b.is_empty())
        .map(|b| {
            b.iter()
                .map(|m| {
                    let a = (m.p0 as usize) % np;
                    let mut pts = vec![a];
                    if let (Some(x), true) = (m.p1, np > 1) {
                        pts.push((a + 1 + (x as usize) % (np - 1)) % np);
                    }
                    RMat {
                        log_h: pool[(m.h as usize) % pool.len()],
                        width: 1 + (m.w % 6) as usize,
                        pts,
                    }
                })
                .collect()
        })
        .collect();
    if batches.is_empty() {
        batches.push(vec![RMat {
            log_h: pool[0],
            width: 1,
            pts: vec![0],
        }]);
    }
    if batches.iter().flatten().all(|m| m.log_h == 0) {
        batches[0][0].log_h = 1;
    }
    // Known finding C07/short-batch-index-bits: `open_input` hands the *global* index bits to
    // the MMCS gadget of every batch, so an honest opening in which some batch is shorter than
    // the tallest batch cannot be verified in-circuit.  Excluded by construction (counted)
    // unless exclusions are switched off: the first matrix of such a batch is lifted.
    let mut lifted = 0usize;
    if crate::e1::exclude_known() && EXCLUDE_SHORT_BATCH.load(std::sync::atomic::Ordering::Relaxed) {
        let g = batches.iter().flatten().map(|m| m.log_h).max().unwrap_or(0);
        for b in batches.iter_mut() {
            if b.iter().map(|m| m.log_h).max().unwrap_or(0) < g {
                b[0].log_h = g;
                lifted += 1;
            }
        }
    }
    // dense point ids
    let used: BTreeSet<usize> = batches
        .iter()
        .flatten()
        .flat_map(|m| m.pts.iter().copied())
        .collect();
    let dense: BTreeMap<usize, usize> = used.iter().enumerate().map(|(i, &p)| (p, i)).collect();
    for m in batches.iter_mut().flatten() {
        for p in m.pts.iter_mut() {
            *p = dense[p];
        }
    }
    RShape {
        log_blowup: 1 + ((s.log_blowup.max(1) - 1) % 3) as usize,
        num_queries: 1 + ((s.num_queries.max(1) - 1) % 4) as usize,
        max_log_arity: 1 + ((s.max_log_arity.max(1) - 1) % 4) as usize,
        log_final_poly_len: f,
        commit_pow_bits: [0usize, 1, 4, 8][(s.commit_pow_bits % 4) as usize],
        query_pow_bits: [0usize, 1, 4, 8][(s.query_pow_bits % 4) as usize],
        n_points: used.len(),
        cap_height: ((s.cap_height % 3) as usize).min(1 + ((s.log_blowup.max(1) - 1) % 3) as usize),
        batches,
        lifted,
    }
}

// ------------------------------------------------------------------------------------------
// native side
// ------------------------------------------------------------------------------------------

fn perm() -> &'static Perm {
    static PERM: OnceLock<Perm> = OnceLock::new();
    PERM.get_or_init(default_babybear_poseidon2_16)
}

fn make_pcs(r: &RShape) -> MyPcs {
    let hash = MyHash::new(perm().clone());
    let compress = MyCompress::new(perm().clone());
    let val_mmcs = MyMmcs::new(hash, compress, r.cap_height);
    let challenge_mmcs = ChallengeMmcs::new(val_mmcs.clone());
    let fri = FriParameters {
        log_blowup: r.log_blowup,
        log_final_poly_len: r.log_final_poly_len,
        max_log_arity: r.max_log_arity,
        num_queries: r.num_queries,
        commit_proof_of_work_bits: r.commit_pow_bits,
        query_proof_of_work_bits: r.query_pow_bits,
        mmcs: challenge_mmcs,
    };
    MyPcs::new(Dft::default(), val_mmcs, fri)
}

fn domain(log_h: usize) -> Dom {
    TwoAdicMultiplicativeCoset::new(F::ONE, log_h).expect("two-adic size")
}

/// Transcript prefix shared by prover, native verifier and circuit: all commitments.
fn fresh_challenger(commits: &[Com]) -> Challenger {
    let mut ch = Challenger::new(perm().clone());
    for c in commits {
        ch.observe(c.clone());
    }
    ch
}

/// Native prover: random matrices and opening points from `seed`, commit, open.  Proving goes
/// through the `Tape` challenger only for its *deterministic* sequential grind (p3's own grind
/// is a parallel `find_map_any`, whose result depends on thread timing).  With
/// `bad_at = Some(k)` the k-th grind (among those with bits > 0) yields a witness that FAILS
/// the proof-of-work condition while the transcript continues consistently from it.
fn prove(r: &RShape, seed: u64, bad_at: Option<usize>) -> Bundle {
    let pcs = make_pcs(r);
    let mut rng = SmallRng::seed_from_u64(seed);
    let mut commits: Vec<Com> = vec![];
    let mut pdata = vec![];
    for b in &r.batches {
        let evals: Vec<(Dom, RowMajorMatrix<F>)> = b
            .iter()
            .map(|m| {
                (
                    domain(m.log_h),
                    RowMajorMatrix::<F>::rand(&mut rng, 1 << m.log_h, m.width),
                )
            })
            .collect();
        let (c, d) = <MyPcs as Pcs<Challenge, Tape>>::commit(&pcs, evals);
        commits.push(c);
        pdata.push(d);
    }
    let points: Vec<Challenge> = (0..r.n_points).map(|_| rng.random()).collect();
    let mut ch = Tape {
        inner: fresh_challenger(&commits),
        play: false,
        tape: vec![],
        pos: 0,
        bad_at,
        grinds: 0,
    };
    let open_data = r
        .batches
        .iter()
        .zip(&pdata)
        .map(|(b, d)| {
            (
                d,
                b.iter()
                    .map(|m| m.pts.iter().map(|&p| points[p]).collect())
                    .collect(),
            )
        })
        .collect();
    let (claims, proof) = <MyPcs as Pcs<Challenge, Tape>>::open(&pcs, open_data, &mut ch);
    Bundle {
        commits,
        points,
        claims,
        proof,
    }
}

type Cwp = Vec<(Com, Vec<(Dom, Vec<(Challenge, Vec<Challenge>)>)>)>;

fn cwp_of(r: &RShape, b: &Bundle) -> Cwp {
    r.batches
        .iter()
        .enumerate()
        .map(|(bi, mats)| {
            (
                b.commits[bi].clone(),
                mats.iter()
                    .enumerate()
                    .map(|(mi, m)| {
                        (
                            domain(m.log_h),
                            m.pts
                                .iter()
                                .enumerate()
                                .map(|(pi, &p)| (b.points[p], b.claims[bi][mi][pi].clone()))
                                .collect(),
                        )
                    })
                    .collect(),
            )
        })
        .collect()
}

fn first_word(s: &str) -> String {
    s.split(|c: char| !c.is_alphanumeric())
        .find(|w| !w.is_empty())
        .unwrap_or("Err")
        .chars()
        .take(48)
        .collect()
}

/// Native verdict: Ok, or the name of the `FriError` variant (or `panic`).
fn native_verify(r: &RShape, b: &Bundle) -> Result<(), String> {
    let pcs = make_pcs(r);
    let cwp = cwp_of(r, b);
    let mut ch = fresh_challenger(&b.commits);
    match catch(|| <MyPcs as Pcs<Challenge, Challenger>>::verify(&pcs, cwp, &b.proof, &mut ch)) {
        Ok(Ok(())) => Ok(()),
        Ok(Err(e)) => Err(first_word(&format!("{e:?}"))),
        Err(p) => Err(format!("panic:{}", sig_of_panic(&p))),
    }
}

/// A challenger that records every sampled value of a real `DuplexChallenger` (record mode) or
/// plays a recorded tape back while ignoring everything it observes (play mode).  Playing the
/// honest transcript's tape to the native verifier on an altered bundle gives the native
/// verdict *with the challenges held fixed* — the oracle of the `fri-arith` sub-check.
#[derive(Clone)]
struct Tape {
    inner: Challenger,
    play: bool,
    tape: Vec<u64>,
    pos: usize,
    /// prover use: the `bad_at`-th grind with bits > 0 returns a witness that FAILS the check
    bad_at: Option<usize>,
    grinds: usize,
}

impl Tape {
    fn next(&mut self) -> u64 {
        let v = *self
            .tape
            .get(self.pos)
            .expect("tape exhausted: the verifier sampled more than the honest run");
        self.pos += 1;
        v
    }
}

impl CanObserve<F> for Tape {
    fn observe(&mut self, v: F) {
        if !self.play {
            self.inner.observe(v);
        }
    }
}
impl CanObserve<Com> for Tape {
    fn observe(&mut self, v: Com) {
        if !self.play {
            self.inner.observe(v);
        }
    }
}
impl CanSample<F> for Tape {
    fn sample(&mut self) -> F {
        if self.play {
            F::from_u64(self.next())
        } else {
            let v: F = self.inner.sample();
            self.tape.push(v.as_canonical_u64());
            v
        }
    }
}
impl CanSampleBits<usize> for Tape {
    fn sample_bits(&mut self, bits: usize) -> usize {
        if self.play {
            (self.next() as usize) & ((1usize << bits) - 1)
        } else {
            let v = self.inner.sample_bits(bits);
            self.tape.push(v as u64);
            v
        }
    }
}
impl FieldChallenger<F> for Tape {}
impl GrindingChallenger for Tape {
    type Witness = F;
    /// Deterministic sequential search (same acceptance rule and same resulting challenger
    /// state as `DuplexChallenger::grind`: observe the witness, sample `bits` bits).
    fn grind(&mut self, bits: usize) -> F {
        if bits == 0 {
            return F::ZERO;
        }
        let want_bad = self.bad_at == Some(self.grinds);
        self.grinds += 1;
        for w in 0u64..P {
            let mut c = self.inner.clone();
            c.observe(F::from_u64(w));
            if (c.sample_bits(bits) != 0) == want_bad {
                self.inner = c;
                return F::from_u64(w);
            }
        }
        panic!("no proof-of-work witness found");
    }
}

/// Native verdict through a `Tape`.  Record mode (tape `None`) returns the recorded tape.
fn native_verify_tape(r: &RShape, b: &Bundle, tape: Option<&[u64]>) -> (Result<(), String>, Vec<u64>) {
    let pcs = make_pcs(r);
    let cwp = cwp_of(r, b);
    let mut ch = Tape {
        inner: fresh_challenger(&b.commits),
        play: tape.is_some(),
        tape: tape.map(|t| t.to_vec()).unwrap_or_default(),
        pos: 0,
        bad_at: None,
        grinds: 0,
    };
    let res = match catch(std::panic::AssertUnwindSafe(|| {
        <MyPcs as Pcs<Challenge, Tape>>::verify(&pcs, cwp, &b.proof, &mut ch)
    })) {
        Ok(Ok(())) => Ok(()),
        Ok(Err(e)) => Err(first_word(&format!("{e:?}"))),
        Err(p) => Err(format!("panic:{}", sig_of_panic(&p))),
    };
    (res, ch.tape)
}

// ------------------------------------------------------------------------------------------
// circuit side
// ------------------------------------------------------------------------------------------

#[derive(Clone, Debug)]
enum CV {
    Accept,
    Reject { stage: &'static str, err: String },
}

impl CV {
    fn rej(stage: &'static str, err: impl Into<String>) -> Self {
        CV::Reject {
            stage,
            err: err.into(),
        }
    }
    fn label(&self) -> String {
        match self {
            CV::Accept => "accept".into(),
            CV::Reject { stage, err } => format!("reject@{stage}:{err}"),
        }
    }
}

struct Built {
    circuit: Circuit<Challenge>,
    op_ids: Vec<NonPrimitiveOpId>,
}

#[derive(Clone, Copy, PartialEq, Eq, Debug)]
enum Mode {
    /// RecursivePcs::{get_challenges_circuit, verify_circuit}, in-circuit challenger
    Full,
    /// verify_fri_circuit with alpha / betas / index bits as public inputs
    Arith,
}

struct Allocated {
    com_t: Vec<CapT>,
    cwp_t: Vec<(CapT, Vec<(Dom, Vec<(Target, Vec<Target>)>)>)>,
    claim_t: Vec<Vec<Vec<Vec<Target>>>>,
    fri_t: FriTargets,
}

fn new_builder() -> CircuitBuilder<Challenge> {
    let mut builder = CircuitBuilder::<Challenge>::new();
    builder.enable_poseidon2_perm::<BabyBearD4Width16, _>(
        generate_poseidon2_trace::<Challenge, BabyBearD4Width16>,
        perm().clone(),
    );
    builder.enable_recompose::<F>(generate_recompose_trace::<F, Challenge>);
    builder
}

/// Allocation order (= public input order): commitment caps, opening points, claimed
/// evaluations, FRI proof targets.  Matrices that name the same opening point share ONE
/// target (as the STARK verifier does with zeta), which is what selects `open_input`'s
/// unified-z path.
fn allocate(builder: &mut CircuitBuilder<Challenge>, r: &RShape, b: &Bundle) -> Allocated {
    let com_t: Vec<CapT> = b
        .commits
        .iter()
        .map(|c| <CapT as Recursive<Challenge>>::new(builder, c))
        .collect();
    let pt_t: Vec<Target> = (0..r.n_points).map(|_| builder.public_input()).collect();
    let claim_t: Vec<Vec<Vec<Vec<Target>>>> = b
        .claims
        .iter()
        .map(|bt| {
            bt.iter()
                .map(|m| {
                    m.iter()
                        .map(|p| (0..p.len()).map(|_| builder.public_input()).collect())
                        .collect()
                })
                .collect()
        })
        .collect();
    let fri_t = <FriTargets as Recursive<Challenge>>::new(builder, &b.proof);
    let cwp_t = r
        .batches
        .iter()
        .enumerate()
        .map(|(bi, mats)| {
            (
                com_t[bi].clone(),
                mats.iter()
                    .enumerate()
                    .map(|(mi, m)| {
                        (
                            domain(m.log_h),
                            m.pts
                                .iter()
                                .enumerate()
                                .map(|(pi, &p)| (pt_t[p], claim_t[bi][mi][pi].clone()))
                                .collect(),
                        )
                    })
                    .collect(),
            )
        })
        .collect();
    Allocated {
        com_t,
        cwp_t,
        claim_t,
        fri_t,
    }
}

fn public_prefix(b: &Bundle) -> Vec<Challenge> {
    let mut v: Vec<Challenge> = vec![];
    for c in &b.commits {
        v.extend(<CapT as Recursive<Challenge>>::get_values(c));
    }
    v.extend(b.points.iter().copied());
    for p in b.claims.iter().flatten().flatten() {
        v.extend(p.iter().copied());
    }
    v.extend(<FriTargets as Recursive<Challenge>>::get_values(&b.proof));
    v
}

fn log_arities_q0(b: &Bundle) -> Vec<usize> {
    b.proof
        .query_proofs
        .first()
        .map(|q| {
            q.commit_phase_openings
                .iter()
                .map(|o| o.log_arity as usize)
                .collect()
        })
        .unwrap_or_default()
}

fn build(mode: Mode, r: &RShape, b: &Bundle) -> Result<Built, CV> {
    let res = catch(|| -> Result<Built, CV> {
        let mut builder = new_builder();
        let al = allocate(&mut builder, r, b);
        let op_ids = match mode {
            Mode::Full => {
                let params = FriVerifierParams::with_mmcs(
                    r.log_blowup,
                    r.log_final_poly_len,
                    r.commit_pow_bits,
                    r.query_pow_bits,
                    P2CFG,
                );
                let mut ch = CircuitChallenger::<WIDTH, RATE, Poseidon2Config>::new_babybear();
                for c in &al.com_t {
                    let t = c.to_observation_targets();
                    RecursiveChallenger::<F, Challenge>::observe_slice(&mut ch, &mut builder, &t);
                }
                for p in al.claim_t.iter().flatten().flatten() {
                    RecursiveChallenger::<F, Challenge>::observe_ext_slice(
                        &mut ch,
                        &mut builder,
                        p,
                    );
                }
                let dummy = OpenedValuesTargetsWithLookups::<MyConfig> {
                    opened_values_no_lookups: OpenedValuesTargets::<MyConfig> {
                        trace_local_targets: vec![],
                        trace_next_targets: vec![],
                        preprocessed_local_targets: None,
                        preprocessed_next_targets: None,
                        quotient_chunks_targets: vec![],
                        random_targets: None,
                        _phantom: core::marker::PhantomData,
                    },
                    permutation_local_targets: vec![],
                    permutation_next_targets: vec![],
                };
                let challenges = <MyPcs as RecursivePcs<
                    MyConfig,
                    InputTargets,
                    FriTargets,
                    CapT,
                    Dom,
                >>::get_challenges_circuit::<WIDTH, RATE, Poseidon2Config>(
                    &mut builder,
                    &mut ch,
                    &al.fri_t,
                    &dummy,
                    &params,
                )
                .map_err(|e| CV::rej("get_challenges", first_word(&format!("{e:?}"))))?;
                let pcs = make_pcs(r);
                <MyPcs as RecursivePcs<MyConfig, InputTargets, FriTargets, CapT, Dom>>::verify_circuit::<
                    WIDTH,
                    RATE,
                    Poseidon2Config,
                >(
                    &pcs,
                    &mut builder,
                    &challenges,
                    &mut ch,
                    &al.cwp_t,
                    &al.fri_t,
                    &params,
                )
                .map_err(|e| CV::rej("verify_circuit", first_word(&format!("{e:?}"))))?
            }
            Mode::Arith => {
                let la = log_arities_q0(b);
                let num_phases = b.proof.commit_phase_commits.len();
                let log_max_height =
                    la.iter().sum::<usize>() + r.log_blowup + r.log_final_poly_len;
                let alpha_t = builder.public_input();
                let betas_t: Vec<Target> =
                    (0..num_phases).map(|_| builder.public_input()).collect();
                let bits_t: Vec<Vec<Target>> = (0..b.proof.query_proofs.len())
                    .map(|_| {
                        (0..log_max_height)
                            .map(|_| builder.public_input())
                            .collect()
                    })
                    .collect();
                verify_fri_circuit::<F, Challenge, RecExt, RecVal, RecWitness<F>, CapT>(
                    &mut builder,
                    &al.fri_t,
                    alpha_t,
                    &betas_t,
                    &bits_t,
                    &al.cwp_t,
                    r.log_blowup,
                    Some(P2CFG.into()),
                )
                .map_err(|e| CV::rej("verify_fri_circuit", first_word(&format!("{e:?}"))))?
            }
        };
        let circuit = builder
            .build()
            .map_err(|e| CV::rej("build", first_word(&format!("{e:?}"))))?;
        Ok(Built { circuit, op_ids })
    });
    match res {
        Ok(x) => x,
        Err(p) => Err(CV::rej("build-panic", sig_of_panic(&p))),
    }
}

/// Native transcript replay (harness code, p3-challenger): alpha, betas, query indices of the
/// honest opening, fed to the `fri-arith` circuit as public inputs.  `Err` when a proof-of-work
/// check fails or the index width is not samplable (never for an honest opening).
fn native_challenges(
    r: &RShape,
    b: &Bundle,
) -> Result<Challenges, String> {
    let mut ch = fresh_challenger(&b.commits);
    for p in b.claims.iter().flatten().flatten() {
        ch.observe_algebra_slice(p);
    }
    let alpha: Challenge = ch.sample_algebra_element();
    let mut betas = vec![];
    if b.proof.commit_pow_witnesses.len() != b.proof.commit_phase_commits.len() {
        return Err("pow-witness-count".into());
    }
    for (c, w) in b
        .proof
        .commit_phase_commits
        .iter()
        .zip(&b.proof.commit_pow_witnesses)
    {
        ch.observe(c.clone());
        if !ch.check_witness(r.commit_pow_bits, *w) {
            return Err("commit-pow".into());
        }
        betas.push(ch.sample_algebra_element());
    }
    ch.observe_algebra_slice(&b.proof.final_poly);
    let la = log_arities_q0(b);
    for &l in &la {
        ch.observe(F::from_usize(l));
    }
    if !ch.check_witness(r.query_pow_bits, b.proof.query_pow_witness) {
        return Err("query-pow".into());
    }
    let log_max_height = la.iter().sum::<usize>() + r.log_blowup + r.log_final_poly_len;
    if log_max_height > 27 {
        return Err("index-width".into());
    }
    let idx = (0..b.proof.query_proofs.len())
        .map(|_| ch.sample_bits(log_max_height))
        .collect();
    Ok((alpha, betas, idx))
}

type Challenges = (Challenge, Vec<Challenge>, Vec<usize>);

/// `fixed`: (alpha, betas, query indices) of the honest transcript (sub `fri-arith` only).
fn run_built(mode: Mode, r: &RShape, built: &Built, b: &Bundle, fixed: Option<&Challenges>) -> CV {
    let mut pubs = public_prefix(b);
    if mode == Mode::Arith {
        let (alpha, betas, idx) = fixed.expect("fri-arith needs fixed challenges");
        // the number of index-bit inputs follows the (possibly altered) arity schedule
        let lmh = log_arities_q0(b).iter().sum::<usize>() + r.log_blowup + r.log_final_poly_len;
        pubs.push(*alpha);
        pubs.extend(betas.iter().copied());
        for &i in idx {
            for k in 0..lmh {
                pubs.push(if k < usize::BITS as usize && (i >> k) & 1 == 1 {
                    Challenge::ONE
                } else {
                    Challenge::ZERO
                });
            }
        }
    }
    let privs = <FriTargets as Recursive<Challenge>>::get_private_values(&b.proof);
    let res = catch(|| -> CV {
        let mut runner = built.circuit.runner();
        if let Err(e) = runner.set_public_inputs(&pubs) {
            return CV::rej("set_public", first_word(&format!("{e:?}")));
        }
        if let Err(e) = runner.set_private_inputs(&privs) {
            return CV::rej("set_private", first_word(&format!("{e:?}")));
        }
        if let Err(e) = set_fri_mmcs_private_data::<
            F,
            Challenge,
            ChallengeMmcs,
            MyMmcs,
            MyHash,
            MyCompress,
            DIGEST_ELEMS,
        >(&mut runner, &built.op_ids, &b.proof, P2CFG)
        {
            return CV::rej("mmcs_private_data", e.replace(' ', "-"));
        }
        match runner.run() {
            Ok(_) => CV::Accept,
            Err(e) => CV::rej("run", first_word(&format!("{e:?}"))),
        }
    });
    match res {
        Ok(v) => v,
        Err(p) => CV::rej("run-panic", sig_of_panic(&p)),
    }
}

// ------------------------------------------------------------------------------------------
// JSON-path mutations
// ------------------------------------------------------------------------------------------

#[derive(Clone, Debug, PartialEq, Eq)]
enum Seg {
    K(String),
    I(usize),
}

fn walk(v: &Value, path: &mut Vec<Seg>, out: &mut Vec<(Vec<Seg>, u64)>) {
    match v {
        Value::Number(n) => {
            if let Some(x) = n.as_u64() {
                out.push((path.clone(), x));
            }
        }
        Value::Array(a) => {
            for (i, x) in a.iter().enumerate() {
                path.push(Seg::I(i));
                walk(x, path, out);
                path.pop();
            }
        }
        Value::Object(o) => {
            for (k, x) in o.iter() {
                path.push(Seg::K(k.clone()));
                walk(x, path, out);
                path.pop();
            }
        }
        _ => {}
    }
}

fn fmt_path(p: &[Seg], erase: bool) -> String {
    let mut s = String::new();
    for seg in p {
        match seg {
            Seg::K(k) => {
                if !s.is_empty() {
                    s.push('.');
                }
                s.push_str(k);
            }
            Seg::I(i) => {
                if erase {
                    s.push_str("[]");
                } else {
                    s.push_str(&format!("[{i}]"));
                }
            }
        }
    }
    s
}

fn parse_path(s: &str) -> Option<Vec<Seg>> {
    let mut out = vec![];
    for tok in s.split('.') {
        let (key, mut rest) = match tok.find('[') {
            Some(i) => (&tok[..i], &tok[i..]),
            None => (tok, ""),
        };
        if !key.is_empty() {
            out.push(Seg::K(key.to_string()));
        }
        while !rest.is_empty() {
            let close = rest.find(']')?;
            out.push(Seg::I(rest[1..close].parse().ok()?));
            rest = &rest[close + 1..];
        }
    }
    Some(out)
}

fn get_mut<'a>(v: &'a mut Value, path: &[Seg]) -> Option<&'a mut Value> {
    let mut cur = v;
    for seg in path {
        cur = match seg {
            Seg::K(k) => cur.get_mut(k.as_str())?,
            Seg::I(i) => cur.get_mut(*i)?,
        };
    }
    Some(cur)
}

struct Applied {
    bundle: Bundle,
    class: String,
    path: String,
    segs: Vec<Seg>,
    old: u64,
    new: u64,
}

fn apply(
    honest_json: &Value,
    leaves: &[(Vec<Seg>, u64)],
    by_class: &BTreeMap<String, Vec<usize>>,
    m: &Mutation,
) -> Result<Applied, String> {
    let (segs, old) = if let Some(p) = &m.path {
        let segs = parse_path(p).ok_or("unparsable path")?;
        let (_, old) = leaves
            .iter()
            .find(|(s, _)| *s == segs)
            .ok_or("path is not a leaf of this bundle")?;
        (segs, *old)
    } else {
        let classes: Vec<&String> = by_class.keys().collect();
        let cl = classes[fw::pick(m.class, classes.len())];
        let idxs = &by_class[cl];
        let (segs, old) = &leaves[idxs[fw::pick(m.leaf, idxs.len())]];
        (segs.clone(), *old)
    };
    let is_arity = matches!(segs.last(), Some(Seg::K(k)) if k == "log_arity");
    let new = if is_arity {
        (old + 1 + (m.delta as u64) % 7) % 8
    } else {
        (old + 1 + (m.delta as u64) % (P - 1)) % P
    };
    let mut v = honest_json.clone();
    *get_mut(&mut v, &segs).ok_or("path vanished")? = Value::from(new);
    let bundle: Bundle = serde_json::from_value(v).map_err(|e| format!("deserialise: {e}"))?;
    Ok(Applied {
        bundle,
        class: fmt_path(&segs, true),
        path: fmt_path(&segs, false),
        segs,
        old,
        new,
    })
}

// ------------------------------------------------------------------------------------------
// oracle
// ------------------------------------------------------------------------------------------

static T_HONEST: AtomicU64 = AtomicU64::new(0);
static T_NATIVE: AtomicU64 = AtomicU64::new(0);
static T_BUILD: AtomicU64 = AtomicU64::new(0);
static T_RUN: AtomicU64 = AtomicU64::new(0);
static N_BUILD: AtomicU64 = AtomicU64::new(0);
static N_RUN: AtomicU64 = AtomicU64::new(0);

fn timed<R>(acc: &AtomicU64, f: impl FnOnce() -> R) -> R {
    let t = Instant::now();
    let r = f();
    acc.fetch_add(t.elapsed().as_micros() as u64, Ordering::Relaxed);
    r
}

pub const RULE: &str = "FRI parameter set (log_blowup 1-3, queries 1-4, max_log_arity 1-4, log_final_poly_len 0-3, \
commit/query PoW bits in {0,1,4,8}, MMCS cap height 0-2) x 1-3 commitment batches of 1-4 matrices (log-heights 1-8, rarely 0, widths 1-6, 1-2 opening \
points per matrix out of 1-3 shared points) x honest native opening x single-leaf alterations (each applied alone) of \
the bundle {commits, points, claims, proof}; oracle: native Pcs::verify verdict == circuit verdict (honest must be \
accepted by both); non-trivial = (>= 2 distinct heights or >= 2 fold phases) and >= 1 altered leaf evaluated; distinct \
on the whole case (params, dims, seed, alterations)";

fn oracle_mode(mode: Mode, c: &Case) -> Report {
    let r = resolve(&c.shape);
    let b0 = timed(&T_HONEST, || prove(&r, c.seed, None));

    // ---- shape evidence (once per case) ------------------------------------------------------
    let la = log_arities_q0(&b0);
    let lde_heights: BTreeSet<usize> = r
        .batches
        .iter()
        .flatten()
        .map(|m| m.log_h + r.log_blowup)
        .collect();
    let max_h = *lde_heights.iter().max().unwrap();
    let short_batch = has_short_batch(&r.batches);
    let mut classes: Vec<String> = vec![];
    classes.push(format!("phases:{}", la.len().min(6)));
    classes.push(format!("distinct_heights:{}", lde_heights.len().min(4)));
    if lde_heights.len() > 1 {
        classes.push("roll-in".into());
    }
    for l in la.iter().collect::<BTreeSet<_>>() {
        classes.push(format!("log_arity:{l}"));
    }
    if la.iter().collect::<BTreeSet<_>>().len() > 1 {
        classes.push("mixed-arity".into());
    }
    classes.push(format!("batches:{}", r.batches.len()));
    classes.push(format!("queries:{}", r.num_queries));
    classes.push(format!("log_blowup:{}", r.log_blowup));
    classes.push(format!("max_log_arity:{}", r.max_log_arity));
    classes.push(format!("log_final_poly_len:{}", r.log_final_poly_len));
    classes.push(format!("commit_pow_bits:{}", r.commit_pow_bits));
    classes.push(format!("query_pow_bits:{}", r.query_pow_bits));
    if r.lifted > 0 {
        classes.push("excluded_by_known_finding:short-batch-index-bits(first matrix lifted)".into());
    }
    if short_batch {
        classes.push("shape:short-batch".into());
    }
    if r.batches.iter().flatten().any(|m| m.log_h == 0) {
        classes.push("shape:has-height-1-(constant)-matrix".into());
    }
    // which open_input path each (batch, height) group takes
    let mut paths: BTreeSet<&'static str> = BTreeSet::new();
    for bt in &r.batches {
        let mut groups: BTreeMap<usize, Vec<&RMat>> = BTreeMap::new();
        for m in bt {
            groups.entry(m.log_h).or_default().push(m);
        }
        for (_, g) in groups {
            let fast = g.iter().all(|m| m.pts.len() == 1) && g.iter().all(|m| m.pts == g[0].pts);
            paths.insert(match (fast, g.len() > 1) {
                (true, true) => "open_input:unified-z(multi-matrix)",
                (true, false) => "open_input:unified-z(single-matrix)",
                (false, true) => "open_input:per-matrix-fallback(multi-matrix)",
                (false, false) => "open_input:per-matrix-fallback(single-matrix)",
            });
        }
    }
    classes.extend(paths.into_iter().map(String::from));
    let shape_nt = lde_heights.len() >= 2 || la.len() >= 2;

    // A failure of the honest opening in the known-finding class is attributed to that class
    // by the SHAPE (some batch shorter than the tallest one), not by the outcome.
    let honest_sig = |detail: String| -> String {
        if short_batch {
            KNOWN_SHORT_BATCH.to_string()
        } else {
            format!("C07/honest-rejected-by-circuit:{detail}")
        }
    };

    // ---- honest bundle: both must accept -----------------------------------------------------
    let (nat0, tape) = timed(&T_NATIVE, || match mode {
        Mode::Full => (native_verify(&r, &b0), vec![]),
        Mode::Arith => native_verify_tape(&r, &b0, None),
    });
    if let Err(e) = nat0 {
        return Report::fail(
            format!("C07/honest-rejected-by-native:{e}"),
            format!("the native verifier rejects the native prover's own opening ({e}); resolved shape {r:?}"),
        );
    }
    let fixed: Option<Challenges> = match mode {
        Mode::Full => None,
        Mode::Arith => match native_challenges(&r, &b0) {
            Ok(x) => Some(x),
            Err(e) => {
                return Report::fail(
                    format!("C07/harness:transcript-replay:{e}"),
                    "harness transcript replay disagrees with the native verifier on an honest opening",
                );
            }
        },
    };
    N_BUILD.fetch_add(1, Ordering::Relaxed);
    let built0 = match timed(&T_BUILD, || build(mode, &r, &b0)) {
        Ok(x) => x,
        Err(cv) => {
            return Report::fail(
                honest_sig(cv.label()),
                format!("circuit construction fails for an honest opening: {cv:?}; resolved shape {r:?} log_arities {la:?}"),
            )
            .classes(classes);
        }
    };
    N_RUN.fetch_add(1, Ordering::Relaxed);
    let cv0 = timed(&T_RUN, || run_built(mode, &r, &built0, &b0, fixed.as_ref()));
    if !matches!(cv0, CV::Accept) {
        return Report::fail(
            honest_sig(cv0.label()),
            format!(
                "native Pcs::verify accepts the honest opening, the verifier circuit ({mode:?}) does not: {cv0:?}; \
                 resolved shape {r:?} log_arities {la:?}"
            ),
        )
        .classes(classes);
    }
    classes.push("honest:accepted-by-both".into());

    // ---- alterations, one at a time (classes counted per alteration) ---------------------------
    let j0 = serde_json::to_value(&b0).expect("bundle serialises");
    let mut leaves = vec![];
    walk(&j0, &mut vec![], &mut leaves);
    let mut by_class: BTreeMap<String, Vec<usize>> = BTreeMap::new();
    for (i, (p, _)) in leaves.iter().enumerate() {
        by_class.entry(fmt_path(p, true)).or_default().push(i);
    }
    let arity_sig0: Vec<u8> = arity_sig(&b0);
    let mut evaluated = 0usize;
    let mut failure: Option<(String, String)> = None;
    for (mi, m) in c.muts.iter().enumerate() {
        let ap = match apply(&j0, &leaves, &by_class, m) {
            Ok(a) => a,
            Err(e) => {
                classes.push(format!("alteration-skipped:{}", first_word(&e)));
                continue;
            }
        };
        evaluated += 1;
        classes.push(format!("leaf:{}", ap.class));
        classes.extend(leaf_position(&r, &b0, &ap.segs, max_h));
        let nat = timed(&T_NATIVE, || match mode {
            Mode::Full => native_verify(&r, &ap.bundle),
            Mode::Arith => native_verify_tape(&r, &ap.bundle, Some(&tape)).0,
        });
        let cv = if arity_sig(&ap.bundle) == arity_sig0 {
            N_RUN.fetch_add(1, Ordering::Relaxed);
            timed(&T_RUN, || run_built(mode, &r, &built0, &ap.bundle, fixed.as_ref()))
        } else {
            // the proof's arity schedule is part of the circuit shape: rebuild from the
            // altered proof, exactly as a verifier that is handed this proof would
            N_BUILD.fetch_add(1, Ordering::Relaxed);
            match timed(&T_BUILD, || build(mode, &r, &ap.bundle)) {
                Ok(bl) => {
                    N_RUN.fetch_add(1, Ordering::Relaxed);
                    timed(&T_RUN, || run_built(mode, &r, &bl, &ap.bundle, fixed.as_ref()))
                }
                Err(cv) => cv,
            }
        };
        match (&nat, &cv) {
            (Ok(()), CV::Accept) => {
                classes.push("native:accept".into());
                classes.push(format!("native-accept@{}", ap.class));
            }
            (Err(e), CV::Reject { stage, err }) => {
                classes.push("native:reject".into());
                classes.push(format!("native-reject:{}", first_word(e)));
                classes.push(format!("circuit-reject@{stage}:{err}"));
            }
            (Err(e), CV::Accept) => {
                failure.get_or_insert((
                    format!("C07/circuit-accepts-native-rejects:{}:{}", ap.class, first_word(e)),
                    format!(
                        "alteration #{mi} {} : {} -> {}; native Pcs::verify rejects ({e}) but the verifier circuit \
                         ({mode:?}) is satisfied. resolved shape {r:?}; log_arities {la:?}",
                        ap.path, ap.old, ap.new
                    ),
                ));
            }
            (Ok(()), CV::Reject { stage, err }) => {
                failure.get_or_insert((
                    format!("C07/circuit-rejects-native-accepts:{}:{stage}:{err}", ap.class),
                    format!(
                        "alteration #{mi} {} : {} -> {}; native Pcs::verify accepts but the verifier circuit \
                         ({mode:?}) rejects at {stage}: {err}. resolved shape {r:?}; log_arities {la:?}",
                        ap.path, ap.old, ap.new
                    ),
                ));
            }
        }
    }
    // ---- a proof whose only defect is a proof-of-work witness ----------------------------------
    if let (Mode::Full, Some(k)) = (mode, c.bad_pow) {
        let n_commit = if r.commit_pow_bits > 0 { la.len() } else { 0 };
        let n_query = usize::from(r.query_pow_bits > 0);
        if n_commit + n_query == 0 {
            classes.push("bad-pow:not-applicable(0 bits)".into());
        } else {
            let at = (k as usize) % (n_commit + n_query);
            let which = if at < n_commit { "commit" } else { "query" };
            let bb = timed(&T_HONEST, || prove(&r, c.seed, Some(at)));
            let nat = timed(&T_NATIVE, || native_verify(&r, &bb));
            N_RUN.fetch_add(1, Ordering::Relaxed);
            let cv = if arity_sig(&bb) == arity_sig0 {
                timed(&T_RUN, || run_built(mode, &r, &built0, &bb, None))
            } else {
                CV::rej("harness", "bad-pow prover changed the arity schedule")
            };
            evaluated += 1;
            match (&nat, &cv) {
                (Err(e), CV::Reject { stage, err }) => {
                    classes.push(format!("bad-pow:{which}-witness:both-reject"));
                    classes.push(format!("native-reject:{}", first_word(e)));
                    classes.push(format!("circuit-reject@{stage}:{err}"));
                }
                (Err(e), CV::Accept) => {
                    failure.get_or_insert((
                        format!("C07/circuit-accepts-native-rejects:bad-pow-witness({which}):{}", first_word(e)),
                        format!(
                            "an opening that is honest except for grind #{at} ({which} phase PoW witness fails the \
                             {}-bit condition) is rejected by native Pcs::verify ({e}) but satisfies the verifier \
                             circuit. resolved shape {r:?}; log_arities {la:?}",
                            if which == "commit" { r.commit_pow_bits } else { r.query_pow_bits }
                        ),
                    ));
                }
                (Ok(()), _) => {
                    failure.get_or_insert((
                        "C07/harness:bad-pow-accepted-by-native".into(),
                        format!("harness error: native accepted a bad PoW witness (grind #{at}); shape {r:?}"),
                    ));
                }
            }
        }
    }
    let mut rep = Report::pass()
        .classes(classes)
        .nontrivial(shape_nt && evaluated > 0);
    if let Some((sig, msg)) = failure {
        rep.verdict = fw::Verdict::Fail { sig, msg };
        rep.nontrivial = true;
    }
    rep
}

/// All `log_arity` values of the proof (they decide the circuit's shape).
fn arity_sig(b: &Bundle) -> Vec<u8> {
    b.proof
        .query_proofs
        .iter()
        .flat_map(|q| q.commit_phase_openings.iter().map(|o| o.log_arity))
        .collect()
}

/// Positional evidence for the altered leaf (is the altered matrix a roll-in, is the altered
/// final-poly coefficient the last one, first/last phase).
fn leaf_position(r: &RShape, b: &Bundle, segs: &[Seg], max_h: usize) -> Vec<String> {
    let keys: Vec<&str> = segs
        .iter()
        .filter_map(|s| if let Seg::K(k) = s { Some(k.as_str()) } else { None })
        .collect();
    let idx: Vec<usize> = segs
        .iter()
        .filter_map(|s| if let Seg::I(i) = s { Some(*i) } else { None })
        .collect();
    let mut out = vec![];
    let mat_kind = |bi: usize, mi: usize| -> &'static str {
        match r.batches.get(bi).and_then(|b| b.get(mi)) {
            Some(m) if m.log_h == 0 => "constant-matrix",
            Some(m) if m.log_h + r.log_blowup == max_h => "max-height-matrix",
            Some(_) => "roll-in-matrix",
            None => "?",
        }
    };
    match keys.as_slice() {
        ["claims", ..] if idx.len() >= 2 => out.push(format!("pos:claim@{}", mat_kind(idx[0], idx[1]))),
        ["proof", "query_proofs", "input_proof", "opened_values", ..] if idx.len() >= 3 => {
            out.push(format!("pos:opened_value@{}", mat_kind(idx[1], idx[2])))
        }
        ["proof", "final_poly", ..] if !idx.is_empty() => {
            let last = b.proof.final_poly.len() - 1;
            out.push(format!(
                "pos:final_poly@{}",
                if idx[0] == last && last > 0 {
                    "last-coeff"
                } else if idx[0] == 0 {
                    "coeff0"
                } else {
                    "middle-coeff"
                }
            ));
        }
        ["proof", "query_proofs", "commit_phase_openings", what, ..] if idx.len() >= 2 => {
            let n = b.proof.commit_phase_commits.len();
            let ph = if idx[1] == 0 {
                "first-phase"
            } else if idx[1] + 1 == n {
                "last-phase"
            } else {
                "middle-phase"
            };
            out.push(format!("pos:{what}@{ph}"));
            if idx[0] > 0 {
                out.push("pos:commit_phase_opening@query>0".into());
            }
        }
        _ => {}
    }
    out
}

pub fn oracle_full(c: &Case) -> Report {
    oracle_mode(Mode::Full, c)
}
pub fn oracle_arith(c: &Case) -> Report {
    oracle_mode(Mode::Arith, c)
}

// ------------------------------------------------------------------------------------------
// strategies
// ------------------------------------------------------------------------------------------

fn mat_strategy() -> impl Strategy<Value = Mat> {
    (
        0u8..3,
        0u8..6,
        prop_oneof![3 => Just(0u8), 1 => 0u8..3],
        prop_oneof![3 => Just(None), 1 => (0u8..2).prop_map(Some)],
    )
        .prop_map(|(h, w, p0, p1)| Mat { h, w, p0, p1 })
}

fn shape_strategy() -> impl Strategy<Value = Shape> {
    (
        (1u8..=3, 1u8..=4, 1u8..=4, 0u8..=3, 0u8..4, 0u8..4, 1u8..=3),
        prop::collection::vec(prop_oneof![8 => 1u8..=8, 1 => Just(0u8)], 1..=3),
        prop::collection::vec(prop::collection::vec(mat_strategy(), 1..=4), 1..=3),
        prop_oneof![2 => Just(0u8), 1 => Just(1u8), 1 => Just(2u8)],
    )
        .prop_map(
            |(
                (
                    log_blowup,
                    num_queries,
                    max_log_arity,
                    log_final_poly_len,
                    commit_pow_bits,
                    query_pow_bits,
                    n_points,
                ),
                heights,
                batches,
                cap_height,
            )| Shape {
                log_blowup,
                num_queries,
                max_log_arity,
                log_final_poly_len,
                commit_pow_bits,
                query_pow_bits,
                n_points,
                heights,
                batches,
                cap_height,
            },
        )
}

fn mutation_strategy() -> impl Strategy<Value = Mutation> {
    (
        any::<u16>(),
        any::<u16>(),
        prop_oneof![2 => Just(0u32), 1 => 0u32..8, 3 => any::<u32>()],
    )
        .prop_map(|(class, leaf, delta)| Mutation {
            class,
            leaf,
            delta,
            path: None,
        })
}

pub fn strategy(max_muts: usize) -> impl Strategy<Value = Case> {
    (
        shape_strategy(),
        any::<u64>(),
        prop::collection::vec(mutation_strategy(), 1..=max_muts),
        prop_oneof![3 => Just(None), 1 => any::<u8>().prop_map(Some)],
    )
        .prop_map(|(shape, seed, muts, bad_pow)| Case {
            shape,
            seed,
            muts,
            bad_pow,
        })
}

pub fn run(ctx: &Ctx) {
    EXCLUDE_SHORT_BATCH.store(ctx.is_known(KNOWN_SHORT_BATCH), Ordering::Relaxed);
    ctx.assume("field configuration: BabyBear, quartic challenge field, Poseidon2 width 16 (the configuration of recursion/tests/fri.rs); MMCS cap height 0-2");
    ctx.assume("transcript prefix before Pcs::verify / the circuit: all commitments observed; opening points are free inputs (not sampled)");
    ctx.assume("matrix log-heights are clamped from below by log_final_poly_len+1 when log_final_poly_len>0 (p3-fri prover precondition: the smallest LDE must be strictly taller than the final domain); at least one matrix has log-height >= 1 so that there is >= 1 fold phase (the circuit documents \"FRI must have at least one fold phase\")");
    ctx.shrink_iters.store(150, Ordering::Relaxed);
    let n_full = ctx.tier.pick(9_000, 180_000);
    let n_arith = ctx.tier.pick(5_000, 100_000);
    // replaying a stored case of the known finding needs the exclusion switched off
    let excl_off = ctx
        .replay
        .as_ref()
        .is_some_and(|r| r.signature == KNOWN_SHORT_BATCH);
    let oracle_full = move |c: &Case| {
        if excl_off {
            crate::e1::without_exclusions(|| oracle_full(c))
        } else {
            oracle_full(c)
        }
    };
    let oracle_arith = move |c: &Case| {
        if excl_off {
            crate::e1::without_exclusions(|| oracle_arith(c))
        } else {
            oracle_arith(c)
        }
    };
    ctx.explore("pcs-circuit", RULE, n_full, || strategy(10), oracle_full);
    ctx.replay_known("pcs-circuit", |c: &Case| crate::e1::without_exclusions(|| oracle_full(c)));
    ctx.explore("fri-arith", RULE, n_arith, || strategy(10), oracle_arith);
    ctx.replay_known("fri-arith", |c: &Case| crate::e1::without_exclusions(|| oracle_arith(c)));
    let us = |a: &AtomicU64| a.load(Ordering::Relaxed) as f64 / 1e6;
    ctx.note(format!(
        "cpu seconds (summed over threads): honest commit+open {:.1}, native verify {:.1}, circuit build {:.1} ({} builds), circuit run {:.1} ({} runs)",
        us(&T_HONEST),
        us(&T_NATIVE),
        us(&T_BUILD),
        N_BUILD.load(Ordering::Relaxed),
        us(&T_RUN),
        N_RUN.load(Ordering::Relaxed)
    ));
}
