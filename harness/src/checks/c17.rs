//! C17 — recursion layers and aggregations chain, with or without cached preparation.
//!
//! A case is a *history* of calls into the unified recursion API
//! (`recursion/src/recursion.rs`): next-layer steps, 2-to-1 aggregation steps and parameter
//! changes, each proving step with one of three cache disciplines (no cache, a cache that is
//! prepared for this very call, a cache handed over from an earlier call).  The interpreter
//! keeps a model next to the real objects:
//!
//! * for every output: the statement it proves (a term over the base statements) and the
//!   configuration epoch it was produced under;
//! * for every cache: the digest of the verification circuit it was prepared for (computed
//!   here from the circuit's full op list, witness layout and constants — *not* from the
//!   four counters of `aggregation_circuit_fingerprint`), its parameters and its epoch.
//!
//! Oracle after every proving step:
//!
//! 1. all inputs valid, no cache or a cache for the same circuit  ⇒  the call returns `Ok`
//!    and the output verifies natively (`BatchStarkProver::verify_all_tables`, verifier
//!    assembled from scratch with the Poseidon2 and recompose tables registered);
//! 2. an invalid input (wrong public value / foreign common data)  ⇒  `Err`, with or
//!    without a cache (the negative direction of "verifies exactly when uncached does");
//! 3. a cache prepared for a *different* circuit  ⇒  `Err`, or an output that verifies;
//!    never an output that fails verification, never a panic;
//! 4. every output is later offered as input to further steps (acceptance by the next
//!    layer is item 1 of that later step).
//!
//! Engineered fingerprint collisions: aggregation `(L, R)` against `(R, L)`, and the
//! Fibonacci AIR against an AIR of identical shape with one constraint changed
//! (`next.right = left - right`), give different circuits with equal
//! `(witness_count, public_flat_len, private_flat_len, ops.len())`.
//!
//! Parameter changes come in three strengths: table packing / constraint profile (the
//! circuit of a call does not depend on them), prover-side FRI parameters (arity, number of
//! queries: a new configuration *epoch*; the verifier circuit reads them off the input proof,
//! so earlier outputs stay valid inputs), and the number of query proof-of-work bits (a
//! parameter of the verifier circuit: a new *era*, base statements are proved afresh, earlier
//! outputs are out of reach, caches stay around).  A cache of an earlier epoch carries that
//! epoch's prover; its proofs are accepted if they verify under that epoch's configuration
//! (the API documents "same config" as a precondition of cache reuse).
//!
//! Two sub-checks share interpreter and oracle: `histories` (generated) and `engineered`
//! (a fixed list that guarantees the thin classes: counter collisions, era changes, chains
//! that hand the previous layer's cache on, invalid inputs with a matching cache).
//!
//! Cost (release, 16 cores): a layer over the tiny base proofs takes 0.05-0.7 s, a history of
//! three proving steps about 1 s of CPU; see NOTES.md for the sizing of the tiers.

use std::collections::BTreeMap;
use std::hash::{Hash, Hasher};
use std::rc::Rc;
use std::sync::Arc;

use p3_air::{Air, AirBuilder, BaseAir, WindowAccess};
use p3_batch_stark::ProverData;
use p3_challenger::DuplexChallenger;
use p3_circuit::ops::{generate_poseidon2_trace, generate_recompose_trace};
use p3_circuit::{Circuit, CircuitBuilder, CircuitRunner, NonPrimitiveOpId};
use p3_circuit_prover::common::get_airs_and_degrees_with_prep;
use p3_circuit_prover::{BatchStarkProver, CircuitProverData, ConstraintProfile, TablePacking};
use p3_commit::{ExtensionMmcs, Pcs};
use p3_dft::Radix2DitParallel;
use p3_field::extension::BinomialExtensionField;
use p3_field::{Field, PrimeCharacteristicRing, PrimeField64};
use p3_fri::{FriParameters, TwoAdicFriPcs};
use p3_lookup::logup::LogUpGadget;
use p3_matrix::dense::RowMajorMatrix;
use p3_merkle_tree::MerkleTreeMmcs;
use p3_recursion::pcs::{
    InputProofTargets, MerkleCapTargets, RecValMmcs, set_fri_mmcs_private_data,
};
use p3_recursion::traits::{RecursiveAir, RecursivePcs};
use p3_recursion::verifier::VerificationError;
use p3_recursion::{
    AggregationPrepCache, FriRecursionBackend, FriRecursionBackendForExt, FriRecursionConfig,
    FriVerifierParams, NextLayerPrepCache, PcsRecursionBackend, Poseidon2Config,
    ProveNextLayerParams, RecursionInput, RecursionOutput, build_and_prove_aggregation_layer,
    build_and_prove_next_layer, build_next_layer_circuit, build_next_layer_prep,
    prove_aggregation_layer, prove_next_layer,
};
use p3_symmetric::{PaddingFreeSponge, TruncatedPermutation};
use p3_uni_stark::{Proof, StarkConfig, StarkGenericConfig, Val};
use proptest::prelude::*;
use serde::{Deserialize, Serialize};

use crate::fw::{Ctx, Report, catch, hash_of, pick, sig_of_panic};

// ------------------------------------------------------------------------------------------
// Case
// ------------------------------------------------------------------------------------------

/// Where a step takes a proof from.
#[derive(Clone, Debug, Serialize, Deserialize, Hash, PartialEq, Eq)]
pub enum Src {
    /// Uni-STARK proof.  `alt`: the AIR of identical shape with `next.right = left - right`;
    /// `big`: trace of 16 rows instead of 8; `bad`: claim a wrong last value.
    Uni { alt: bool, big: bool, bad: bool },
    /// Batch-STARK proof of a tiny arithmetic circuit.  Variants 0 and 1 have the same table
    /// shape, different constants and different wiring, variant 2 is a longer circuit.  `bad`: offer the proof
    /// together with the common data (preprocessed commitment) of another variant.
    Batch { variant: u8, bad: bool },
    /// Output of an earlier proving step (index into the outputs produced so far; if there is
    /// none yet the step falls back to `Batch{variant:0}`).
    Output(u16),
}

#[derive(Clone, Debug, Serialize, Deserialize, Hash, PartialEq, Eq)]
pub enum CacheUse {
    None,
    /// Prepare a cache in this call and keep it.
    Fresh,
    /// Hand over a cache kept from an earlier call (index into the caches of this kind; if
    /// there is none yet the step behaves like `Fresh`).
    Reuse(u16),
}

#[derive(Clone, Debug, Serialize, Deserialize, Hash, PartialEq, Eq)]
pub enum Step {
    /// `split`: `build_next_layer_circuit` + `prove_next_layer` instead of the convenience
    /// wrapper (always split when a cache is involved).
    NextLayer { input: Src, cache: CacheUse, split: bool },
    /// `split`: build the circuit with the backend's trait methods + `prove_aggregation_layer`
    /// instead of `build_and_prove_aggregation_layer`.
    Aggregate { left: Src, right: Src, cache: CacheUse, split: bool },
    /// New `ProveNextLayerParams` (packing preset incl. constraint profile), new prover-side
    /// FRI parameters (max arity, number of queries: the verifier circuit reads them off the
    /// proof), and/or a new number of query proof-of-work bits.  The last one is a parameter
    /// of the verifier circuit: it starts a new *era* in which the base statements are proved
    /// afresh and earlier outputs can no longer be inputs (caches stay around).  Circuits of
    /// two eras differ in `witness_count` only.
    ChangeParams {
        #[serde(default)]
        packing: Option<u8>,
        #[serde(default)]
        fri: Option<u8>,
        #[serde(default)]
        qpow: Option<u8>,
    },
}

#[derive(Clone, Debug, Serialize, Deserialize, Hash)]
pub struct Case {
    /// 0 = KoalaBear (D4), 1 = BabyBear (D4)
    pub field: u8,
    /// verifier-relevant FRI scalars, fixed for the whole history
    pub log_blowup: u8,
    pub commit_pow_bits: u8,
    pub query_pow_bits: u8,
    /// initial presets
    pub packing0: u8,
    pub fri0: u8,
    /// seeds for the base statements (start values of the sequences, constants and inputs of
    /// the arithmetic circuits)
    pub seed: u64,
    /// when a cache for the same circuit is reused, also run the uncached call and compare
    pub cross_check: bool,
    pub steps: Vec<Step>,
}

pub const RULE: &str = "histories of NextLayer / Aggregate / ChangeParams steps over the unified recursion API \
(KoalaBear D4 and BabyBear D4, Poseidon2 W16, log_blowup 1-2, final poly 0, <=4 PoW bits, 2-4 queries), each proving step with \
cache None | Fresh | Reuse(j); base statements: two uni-STARK AIRs of equal shape (8/16 rows, generated start values, \
optionally a wrong claimed value) and three tiny batch-STARK arithmetic circuits (generated constants/inputs, optionally \
foreign common data); oracle: valid inputs + no/same-circuit cache => Ok and verify_all_tables Ok (fresh verifier); invalid \
input => Err with and without cache; foreign cache => Err or verifying output, never a non-verifying output or a panic; \
non-trivial = >= 2 proving steps and >= 1 cache reuse; distinct on the op-kind/reuse-kind sequence";

// ------------------------------------------------------------------------------------------
// The two uni-STARK AIRs (same width, same number of constraints, same degrees)
// ------------------------------------------------------------------------------------------

#[derive(Clone, Copy, Debug, PartialEq, Eq, Hash)]
pub enum UniAir {
    /// a' = b, b' = a + b
    Fib,
    /// a' = b, b' = a - b
    Alt,
}

impl<F> BaseAir<F> for UniAir {
    fn width(&self) -> usize {
        2
    }
    fn num_public_values(&self) -> usize {
        3
    }
}

impl<AB: AirBuilder> Air<AB> for UniAir {
    fn eval(&self, builder: &mut AB) {
        let main = builder.main();
        let pis = builder.public_values();
        let (a, b, x) = (pis[0], pis[1], pis[2]);
        let local: Vec<AB::Var> = main.current_slice().to_vec();
        let next: Vec<AB::Var> = main.next_slice().to_vec();
        let (l0, l1, n0, n1) = (local[0].clone(), local[1].clone(), next[0].clone(), next[1].clone());

        let mut first = builder.when_first_row();
        first.assert_eq(l0.clone(), a);
        first.assert_eq(l1.clone(), b);

        let mut tr = builder.when_transition();
        tr.assert_eq(l1.clone(), n0);
        match self {
            UniAir::Fib => tr.assert_eq(l0.into() + l1.clone().into(), n1),
            UniAir::Alt => tr.assert_eq(l0.into() - l1.clone().into(), n1),
        }
        builder.when_last_row().assert_eq(l1, x);
    }
}

fn uni_trace<F: PrimeField64>(air: UniAir, a: u64, b: u64, n: usize) -> (RowMajorMatrix<F>, Vec<F>) {
    let mut vals = Vec::with_capacity(2 * n);
    let (mut l, mut r) = (F::from_u64(a), F::from_u64(b));
    for _ in 0..n {
        vals.push(l);
        vals.push(r);
        let nr = match air {
            UniAir::Fib => l + r,
            UniAir::Alt => l - r,
        };
        l = r;
        r = nr;
    }
    let last = vals[2 * n - 1];
    (
        RowMajorMatrix::new(vals, 2),
        vec![F::from_u64(a), F::from_u64(b), last],
    )
}

// ------------------------------------------------------------------------------------------
// Presets
// ------------------------------------------------------------------------------------------

/// (public lanes, alu lanes, horner k, recursion-optimised profile)
const PACKINGS: [(usize, usize, usize, bool); 6] = [
    (1, 4, 2, false),
    (1, 3, 4, false),
    (2, 2, 2, false),
    (1, 1, 3, false),
    (1, 4, 2, true),
    (2, 5, 2, false),
];
/// (max_log_arity, num_queries) — prover-side choices the verifier circuit reads off the proof
const FRIS: [(usize, usize); 4] = [(1, 2), (2, 3), (3, 2), (2, 4)];

fn params_of(preset: u8, log_blowup: usize) -> ProveNextLayerParams {
    let (p, a, k, opt) = PACKINGS[preset as usize % PACKINGS.len()];
    ProveNextLayerParams {
        table_packing: TablePacking::new(p, a)
            .with_horner_pack_k(k)
            .with_fri_params(0, log_blowup),
        constraint_profile: if opt {
            ConstraintProfile::RecursionOptimized
        } else {
            ConstraintProfile::Standard
        },
    }
}

// ------------------------------------------------------------------------------------------
// Circuit digest (the model's notion of "the same circuit")
// ------------------------------------------------------------------------------------------

fn op_string<EF: Field>(op: &p3_circuit::Op<EF>) -> String {
    use p3_circuit::Op;
    match op {
        Op::Const { out, val } => format!("Const w{} = {:?}", out.0, val),
        Op::Public { out, public_pos } => format!("Public w{} = pub[{}]", out.0, public_pos),
        Op::Alu {
            kind,
            a,
            b,
            c,
            out,
            intermediate_out,
        } => format!(
            "{:?} a=w{} b=w{} c={:?} out=w{} io={:?}",
            kind,
            a.0,
            b.0,
            c.map(|x| x.0),
            out.0,
            intermediate_out.map(|x| x.0)
        ),
        Op::Hint { inputs, outputs, .. } => format!(
            "Hint in={:?} out={:?}",
            inputs.iter().map(|w| w.0).collect::<Vec<_>>(),
            outputs.iter().map(|w| w.0).collect::<Vec<_>>()
        ),
        Op::NonPrimitiveOpWithExecutor {
            inputs,
            outputs,
            executor,
            op_id,
        } => format!(
            "Npo#{} {:?} in={:?} out={:?}",
            op_id.0,
            executor.op_type(),
            inputs
                .iter()
                .map(|g| g.iter().map(|w| w.0).collect::<Vec<_>>())
                .collect::<Vec<_>>(),
            outputs
                .iter()
                .map(|g| g.iter().map(|w| w.0).collect::<Vec<_>>())
                .collect::<Vec<_>>()
        ),
    }
}

/// Digest of everything the preprocessed columns are a function of.
fn circuit_digest<EF: Field>(c: &Circuit<EF>) -> u64 {
    let mut h = std::collections::hash_map::DefaultHasher::new();
    c.witness_count.hash(&mut h);
    c.public_flat_len.hash(&mut h);
    c.private_flat_len.hash(&mut h);
    for w in &c.public_rows {
        w.0.hash(&mut h);
    }
    for w in &c.private_input_rows {
        w.0.hash(&mut h);
    }
    for op in &c.ops {
        op_string(op).hash(&mut h);
    }
    h.finish()
}

/// The four counters `aggregation_circuit_fingerprint` looks at, recomputed from the public
/// fields of the circuit (used for classification only).
fn counters<EF>(c: &Circuit<EF>) -> (u32, usize, usize, usize) {
    (c.witness_count, c.public_flat_len, c.private_flat_len, c.ops.len())
}

// ------------------------------------------------------------------------------------------
// Outcome of a history
// ------------------------------------------------------------------------------------------

#[derive(Default)]
pub struct Outcome {
    pub classes: Vec<String>,
    /// op-kind / reuse-kind sequence
    pub kinds: Vec<String>,
    pub proving_steps: usize,
    pub reuses: usize,
    /// first violation that is not a known finding
    pub fail: Option<(String, String)>,
    /// first violation listed as known (the history continues past it)
    pub known_fail: Option<(String, String)>,
    pub timings: Vec<(String, f64)>,
}

// ------------------------------------------------------------------------------------------
// Per-field machinery
// ------------------------------------------------------------------------------------------

macro_rules! field_module {
    ($m:ident, $fname:expr, $F:ty, $Perm:ty, $default_perm:path, $p2cfg:expr, $p2circ:ty) => {
        pub mod $m {
            use super::*;

            pub type F = $F;
            pub const D: usize = 4;
            const WIDTH: usize = 16;
            const RATE: usize = 8;
            const DIGEST_ELEMS: usize = 8;
            const P2: Poseidon2Config = $p2cfg;

            type Challenge = BinomialExtensionField<F, D>;
            type Dft = Radix2DitParallel<F>;
            type Perm = $Perm;
            type MyHash = PaddingFreeSponge<Perm, WIDTH, RATE, DIGEST_ELEMS>;
            type MyCompress = TruncatedPermutation<Perm, 2, DIGEST_ELEMS, WIDTH>;
            type MyMmcs = MerkleTreeMmcs<
                <F as Field>::Packing,
                <F as Field>::Packing,
                MyHash,
                MyCompress,
                2,
                DIGEST_ELEMS,
            >;
            type ChallengeMmcs = ExtensionMmcs<F, Challenge, MyMmcs>;
            type Challenger = DuplexChallenger<F, Perm, WIDTH, RATE>;
            type MyPcs = TwoAdicFriPcs<F, Dft, MyMmcs, ChallengeMmcs>;
            type MyConfig = StarkConfig<MyPcs, Challenge, Challenger>;
            type InnerFri = p3_recursion::pcs::FriProofTargets<
                F,
                Challenge,
                p3_recursion::pcs::RecExtensionValMmcs<
                    F,
                    Challenge,
                    DIGEST_ELEMS,
                    RecValMmcs<F, DIGEST_ELEMS, MyHash, MyCompress>,
                >,
                InputProofTargets<F, Challenge, RecValMmcs<F, DIGEST_ELEMS, MyHash, MyCompress>>,
                p3_recursion::pcs::Witness<F>,
            >;

            /// Same shape as `ConfigWithFriParams` of `recursion/examples/common/mod.rs`.
            #[derive(Clone)]
            pub struct Cfg {
                config: Arc<MyConfig>,
                fri_verifier_params: FriVerifierParams,
            }

            impl StarkGenericConfig for Cfg {
                type Challenge = Challenge;
                type Challenger = Challenger;
                type Pcs = MyPcs;
                fn pcs(&self) -> &MyPcs {
                    self.config.pcs()
                }
                fn initialise_challenger(&self) -> Challenger {
                    self.config.initialise_challenger()
                }
            }

            impl FriRecursionConfig for Cfg
            where
                MyPcs: RecursivePcs<
                        Cfg,
                        InputProofTargets<F, Challenge, RecValMmcs<F, DIGEST_ELEMS, MyHash, MyCompress>>,
                        InnerFri,
                        MerkleCapTargets<F, DIGEST_ELEMS>,
                        <MyPcs as Pcs<Challenge, Challenger>>::Domain,
                    >,
            {
                type Commitment = MerkleCapTargets<F, DIGEST_ELEMS>;
                type InputProof =
                    InputProofTargets<F, Challenge, RecValMmcs<F, DIGEST_ELEMS, MyHash, MyCompress>>;
                type OpeningProof = InnerFri;
                type RawOpeningProof = <MyPcs as Pcs<Challenge, Challenger>>::Proof;
                const DIGEST_ELEMS: usize = 8;

                fn with_fri_opening_proof<'a, A, R>(
                    prev: &RecursionInput<'a, Self, A>,
                    f: impl FnOnce(&Self::RawOpeningProof) -> R,
                ) -> R
                where
                    A: RecursiveAir<Val<Self>, Self::Challenge, LogUpGadget>,
                {
                    match prev {
                        RecursionInput::UniStark { proof, .. } => f(&proof.opening_proof),
                        RecursionInput::BatchStark { proof, .. } => f(&proof.proof.opening_proof),
                    }
                }

                fn prepare_circuit_for_verification(
                    &self,
                    circuit: &mut CircuitBuilder<Challenge>,
                ) -> Result<(), VerificationError> {
                    let perm = $default_perm();
                    circuit.enable_poseidon2_perm::<$p2circ, _>(
                        generate_poseidon2_trace::<Challenge, $p2circ>,
                        perm,
                    );
                    circuit.enable_recompose::<F>(generate_recompose_trace::<F, Challenge>);
                    Ok(())
                }

                fn pcs_verifier_params(
                    &self,
                ) -> &<MyPcs as RecursivePcs<
                    Cfg,
                    InputProofTargets<F, Challenge, RecValMmcs<F, DIGEST_ELEMS, MyHash, MyCompress>>,
                    InnerFri,
                    MerkleCapTargets<F, DIGEST_ELEMS>,
                    <MyPcs as Pcs<Challenge, Challenger>>::Domain,
                >>::VerifierParams {
                    &self.fri_verifier_params
                }

                fn set_fri_private_data(
                    runner: &mut CircuitRunner<'_, Challenge>,
                    op_ids: &[NonPrimitiveOpId],
                    opening_proof: &Self::RawOpeningProof,
                ) -> Result<(), &'static str> {
                    set_fri_mmcs_private_data::<
                        F,
                        Challenge,
                        ChallengeMmcs,
                        MyMmcs,
                        MyHash,
                        MyCompress,
                        DIGEST_ELEMS,
                    >(runner, op_ids, opening_proof, P2)
                }
            }

            type Backend = FriRecursionBackendForExt<4, 16, 8, Poseidon2Config>;
            type Input<'a> = RecursionInput<'a, Cfg, UniAir>;
            type VRes = <Backend as PcsRecursionBackend<Cfg, UniAir, 4>>::VerifierResult;

            fn make_cfg(case: &Case, fri: u8, qpow: u8) -> Cfg {
                let (max_log_arity, num_queries) = FRIS[fri as usize % FRIS.len()];
                let perm = $default_perm();
                let hash = MyHash::new(perm.clone());
                let compress = MyCompress::new(perm.clone());
                let val_mmcs = MyMmcs::new(hash, compress, 0);
                let challenge_mmcs = ChallengeMmcs::new(val_mmcs.clone());
                let fri_params = FriParameters {
                    max_log_arity,
                    log_blowup: case.log_blowup as usize,
                    log_final_poly_len: 0,
                    num_queries,
                    commit_proof_of_work_bits: case.commit_pow_bits as usize,
                    query_proof_of_work_bits: qpow as usize,
                    mmcs: challenge_mmcs,
                };
                let pcs = MyPcs::new(Dft::default(), val_mmcs, fri_params);
                Cfg {
                    config: Arc::new(MyConfig::new(pcs, Challenger::new(perm))),
                    fri_verifier_params: FriVerifierParams::with_mmcs(
                        case.log_blowup as usize,
                        0,
                        case.commit_pow_bits as usize,
                        qpow as usize,
                        P2,
                    ),
                }
            }

            /// Verifier assembled from scratch (nothing taken from the call under test).
            fn verify_layer(cfg: &Cfg, out: &RecursionOutput<Cfg>) -> Result<(), String> {
                let mut v = BatchStarkProver::new(cfg.clone());
                v.register_poseidon2_table::<D>(P2);
                v.register_recompose_table::<D>(P2.d() != D);
                match catch(|| v.verify_all_tables::<Challenge>(&out.0)) {
                    Ok(Ok(())) => Ok(()),
                    Ok(Err(e)) => Err(format!("{e:?}")),
                    Err(p) => Err(format!("verifier panicked: {p}")),
                }
            }

            struct UniBase {
                proof: Proof<Cfg>,
                pis: Vec<F>,
                air: UniAir,
                stmt: String,
            }

            struct BatchBase {
                out: RecursionOutput<Cfg>,
                stmt: String,
            }

            struct OutRec {
                out: RecursionOutput<Cfg>,
                stmt: String,
                #[allow(dead_code)]
                epoch: usize,
            }

            struct NlCache {
                prep: NextLayerPrepCache<Cfg>,
                digest: u64,
                counters: (u32, usize, usize, usize),
                preset: u8,
                epoch: usize,
            }

            struct AggCache {
                slot: Option<AggregationPrepCache<Cfg>>,
                digest: u64,
                counters: (u32, usize, usize, usize),
                preset: u8,
                epoch: usize,
            }

            fn splitmix(x: u64) -> u64 {
                let mut z = x.wrapping_add(0x9E3779B97F4A7C15);
                z = (z ^ (z >> 30)).wrapping_mul(0xBF58476D1CE4E5B9);
                z = (z ^ (z >> 27)).wrapping_mul(0x94D049BB133111EB);
                z ^ (z >> 31)
            }

            fn prove_uni(cfg: &Cfg, case: &Case, alt: bool, big: bool) -> UniBase {
                let air = if alt { UniAir::Alt } else { UniAir::Fib };
                let s = splitmix(case.seed ^ ((alt as u64) << 1 | big as u64));
                let (a, b) = (s % 1000, (s >> 20) % 1000);
                let n = if big { 16 } else { 8 };
                let (trace, pis) = uni_trace::<F>(air, a, b, n);
                let proof = p3_uni_stark::prove(cfg, &air, trace, &pis);
                p3_uni_stark::verify(cfg, &air, &proof, &pis).expect("base uni-STARK proof must verify natively");
                UniBase {
                    proof,
                    pis,
                    air,
                    stmt: format!("Uni({air:?},n={n},a={a},b={b})"),
                }
            }

            /// acc = x0; acc = acc * c_i + x_{i mod 2} ... ; connect(acc, expected)
            fn prove_batch(cfg: &Cfg, case: &Case, variant: u8) -> BatchBase {
                let n_ops = if variant >= 2 { 9 } else { 3 };
                let s0 = splitmix(case.seed ^ 0xBA7C4 ^ ((variant as u64) << 8));
                let mut builder = CircuitBuilder::<F>::new();
                let x0 = builder.alloc_public_input("x0");
                let x1 = builder.alloc_public_input("x1");
                let expected = builder.alloc_public_input("expected");
                let (v0, v1) = (F::from_u64(s0 % 997 + 1), F::from_u64((s0 >> 24) % 997 + 1));
                let mut acc = x0;
                let mut val = v0;
                for i in 0..n_ops {
                    let cv = F::from_u64(splitmix(s0 ^ (i as u64 + 1)) % 65521 + 2);
                    let c = builder.alloc_const(cv, "c");
                    let m = builder.mul(acc, c);
                    // variant 1 is wired differently (other preprocessed index columns => other
                    // preprocessed commitment) but has the same table shape as variant 0
                    let flip = (variant == 1) as usize;
                    let (xi, xv) = if (i + flip) % 2 == 0 { (x1, v1) } else { (x0, v0) };
                    acc = builder.add(m, xi);
                    val = val * cv + xv;
                }
                builder.connect(acc, expected);
                let circuit = builder.build().expect("base circuit builds");
                // the longer variant also uses non-default lanes and a non-default Horner pack size
                // (the verifier circuit has to rebuild the child's ALU AIR from the proof metadata)
                let packing = if variant >= 2 {
                    TablePacking::new(1 + (case.seed % 2) as usize, 1 + ((case.seed >> 1) % 3) as usize)
                        .with_horner_pack_k(3 + ((case.seed >> 3) % 2) as usize)
                } else {
                    TablePacking::new(1, 1)
                }
                .with_fri_params(0, case.log_blowup as usize);
                let (airs_degrees, prim, non_prim) = get_airs_and_degrees_with_prep::<Cfg, F, 1>(
                    &circuit,
                    &packing,
                    &[],
                    &[],
                    ConstraintProfile::Standard,
                )
                .expect("base circuit preprocesses");
                let (airs, degrees): (Vec<_>, Vec<usize>) = airs_degrees.into_iter().unzip();
                let mut runner = circuit.runner();
                runner.set_public_inputs(&[v0, v1, val]).expect("public inputs");
                let traces = runner.run().expect("base circuit runs");
                let prover_data = ProverData::from_airs_and_degrees(cfg, &airs, &degrees);
                let cpd = CircuitProverData::new(prover_data, prim, non_prim);
                let prover = BatchStarkProver::new(cfg.clone()).with_table_packing(packing);
                let proof = prover.prove_all_tables(&traces, &cpd).expect("base batch proof");
                prover
                    .verify_all_tables::<F>(&proof)
                    .expect("base batch-STARK proof must verify natively");
                BatchBase {
                    out: RecursionOutput(proof, Rc::new(cpd)),
                    stmt: format!("Batch(v{variant},ops={n_ops})"),
                }
            }

            #[derive(Clone, Debug, PartialEq, Eq, Hash, PartialOrd, Ord)]
            enum BaseKey {
                Uni(bool, bool),
                Batch(u8),
            }

            /// A source resolved against the current state.
            #[derive(Clone, Debug)]
            enum RSrc {
                Uni { key: BaseKey, bad: bool },
                Batch { key: BaseKey, bad_with: Option<BaseKey> },
                Out(usize),
            }

            struct State<'c> {
                case: &'c Case,
                backend: Backend,
                cfgs: Vec<Cfg>,
                /// query PoW bits of each configuration epoch
                cfg_qpow: Vec<u8>,
                fri: u8,
                qpow: u8,
                /// outputs before this index belong to earlier eras
                era_start: usize,
                preset: u8,
                unis: BTreeMap<BaseKey, UniBase>,
                batches: BTreeMap<BaseKey, BatchBase>,
                outs: Vec<OutRec>,
                nl_caches: Vec<NlCache>,
                agg_caches: Vec<AggCache>,
                o: Outcome,
            }

            enum Kind {
                /// no cache offered
                Plain,
                /// cache prepared in / for this very call
                Fresh,
                /// cache prepared for the same circuit (same digest)
                Same,
                /// cache prepared for another circuit; `fp_equal`: the four counters coincide
                Foreign { fp_equal: bool },
            }

            impl<'c> State<'c> {
                fn cfg(&self) -> &Cfg {
                    self.cfgs.last().unwrap()
                }
                fn epoch(&self) -> usize {
                    self.cfgs.len() - 1
                }
                fn params(&self) -> ProveNextLayerParams {
                    params_of(self.preset, self.case.log_blowup as usize)
                }

                fn resolve(&mut self, s: &Src) -> RSrc {
                    match s {
                        Src::Uni { alt, big, bad } => {
                            let key = BaseKey::Uni(*alt, *big);
                            if !self.unis.contains_key(&key) {
                                let b = prove_uni(self.cfg(), self.case, *alt, *big);
                                self.unis.insert(key.clone(), b);
                            }
                            RSrc::Uni { key, bad: *bad }
                        }
                        Src::Batch { variant, bad } => {
                            let v = variant % 3;
                            let key = BaseKey::Batch(v);
                            self.ensure_batch(v);
                            let bad_with = if *bad {
                                // common data of the sibling variant of equal shape
                                let other = match v {
                                    0 => 1,
                                    1 => 0,
                                    _ => 0,
                                };
                                self.ensure_batch(other);
                                Some(BaseKey::Batch(other))
                            } else {
                                None
                            };
                            RSrc::Batch { key, bad_with }
                        }
                        Src::Output(i) => {
                            if self.outs.len() == self.era_start {
                                self.ensure_batch(0);
                                RSrc::Batch {
                                    key: BaseKey::Batch(0),
                                    bad_with: None,
                                }
                            } else {
                                RSrc::Out(self.era_start + pick(*i, self.outs.len() - self.era_start))
                            }
                        }
                    }
                }

                fn ensure_batch(&mut self, v: u8) {
                    let key = BaseKey::Batch(v);
                    if !self.batches.contains_key(&key) {
                        let b = prove_batch(self.cfg(), self.case, v);
                        self.batches.insert(key, b);
                    }
                }

                fn valid(r: &RSrc) -> bool {
                    match r {
                        RSrc::Uni { bad, .. } => !*bad,
                        RSrc::Batch { bad_with, .. } => bad_with.is_none(),
                        RSrc::Out(_) => true,
                    }
                }

                fn stmt(&self, r: &RSrc) -> String {
                    match r {
                        RSrc::Uni { key, bad } => {
                            format!("{}{}", self.unis[key].stmt, if *bad { "!wrong-claim" } else { "" })
                        }
                        RSrc::Batch { key, bad_with } => format!(
                            "{}{}",
                            self.batches[key].stmt,
                            if bad_with.is_some() { "!foreign-common" } else { "" }
                        ),
                        RSrc::Out(i) => self.outs[*i].stmt.clone(),
                    }
                }

                fn src_class(r: &RSrc) -> &'static str {
                    match r {
                        RSrc::Uni { bad: false, .. } => "uni",
                        RSrc::Uni { bad: true, .. } => "uni-bad",
                        RSrc::Batch { bad_with: None, .. } => "batch",
                        RSrc::Batch { .. } => "batch-bad",
                        RSrc::Out(_) => "output",
                    }
                }

                fn input<'a>(&'a self, r: &RSrc) -> Input<'a> {
                    match r {
                        RSrc::Uni { key, bad } => {
                            let u = &self.unis[key];
                            let mut pis = u.pis.clone();
                            if *bad {
                                pis[2] += F::ONE;
                            }
                            RecursionInput::UniStark {
                                proof: &u.proof,
                                air: &u.air,
                                public_inputs: pis,
                                preprocessed_commit: None,
                            }
                        }
                        RSrc::Batch { key, bad_with } => {
                            let b = &self.batches[key];
                            match bad_with {
                                None => b.out.into_recursion_input::<UniAir>(),
                                Some(other) => {
                                    let o = &self.batches[other];
                                    let n = b.out.0.proof.opened_values.instances.len();
                                    RecursionInput::BatchStark {
                                        proof: &b.out.0,
                                        common_data: &o.out.0.stark_common,
                                        table_public_inputs: vec![vec![]; n],
                                    }
                                }
                            }
                        }
                        RSrc::Out(i) => self.outs[*i].out.into_recursion_input::<UniAir>(),
                    }
                }

                fn violation(&mut self, sig: String, msg: String, ctx: Option<&Ctx>) -> bool {
                    let known = ctx.map(|c| c.is_known(&sig)).unwrap_or(false);
                    if known {
                        self.o.classes.push(format!("known:{sig}"));
                        if self.o.known_fail.is_none() {
                            self.o.known_fail = Some((sig, msg));
                        }
                        true
                    } else {
                        self.o.fail = Some((sig, msg));
                        false
                    }
                }

                /// Judge the result of one proving call.  Returns the output to keep, if any.
                #[allow(clippy::too_many_arguments)]
                fn judge(
                    &mut self,
                    what: &str,
                    kind: &Kind,
                    inputs_valid: bool,
                    cache_epoch: Option<usize>,
                    res: Result<Result<RecursionOutput<Cfg>, VerificationError>, String>,
                    stmt: &str,
                    ctx: Option<&Ctx>,
                ) -> Option<(RecursionOutput<Cfg>, usize)> {
                    // `prove_next_layer` has no fingerprint: the counters only matter for aggregation
                    let ktag = match kind {
                        Kind::Plain => "plain".to_string(),
                        Kind::Fresh => "fresh-cache".to_string(),
                        Kind::Same => "same-circuit-cache".to_string(),
                        Kind::Foreign { .. } if what == "next-layer" => "foreign-cache".to_string(),
                        Kind::Foreign { fp_equal: true } => "foreign-cache/fp-equal".to_string(),
                        Kind::Foreign { fp_equal: false } => "foreign-cache/fp-differs".to_string(),
                    };
                    let vtag = if inputs_valid { "valid-inputs" } else { "invalid-input" };
                    // signature suffix: only invalid inputs are spelled out
                    let vs = if inputs_valid { "" } else { "/invalid-input" };
                    match res {
                        Err(p) => {
                            self.o.classes.push(format!("outcome:{what}/{ktag}/{vtag}/panic"));
                            self.violation(
                                format!("C17/{what}/{ktag}{vs}/panic"),
                                format!("{what} over {stmt} panicked: {}", sig_of_panic(&p)),
                                ctx,
                            );
                            None
                        }
                        Ok(Err(e)) => {
                            self.o.classes.push(format!("outcome:{what}/{ktag}/{vtag}/err"));
                            let refused_ok = !inputs_valid || matches!(kind, Kind::Foreign { .. });
                            if !refused_ok {
                                self.violation(
                                    format!("C17/{what}/{ktag}/refused"),
                                    format!("{what} over {stmt} returned Err: {e:?}"),
                                    ctx,
                                );
                            }
                            None
                        }
                        Ok(Ok(out)) => {
                            let cur = self.epoch();
                            let mut verdict = verify_layer(self.cfg(), &out).map(|_| cur);
                            if verdict.is_err() {
                                if let Some(ep) = cache_epoch.filter(|ep| *ep != cur) {
                                    // the cache carries the prover of an earlier configuration epoch
                                    // (other query count / arity): its proofs are that epoch's proofs
                                    if verify_layer(&self.cfgs[ep], &out).is_ok() {
                                        self.o.classes.push("verified-under-cache-epoch".into());
                                        verdict = Ok(ep);
                                    }
                                }
                            }
                            match verdict {
                                Ok(ep) if inputs_valid => {
                                    self.o.classes.push(format!("outcome:{what}/{ktag}/{vtag}/ok+verified"));
                                    if self.cfg_qpow[ep] != self.cfg_qpow[cur] {
                                        // a proof of an earlier era (other query PoW bits): fine as an
                                        // outcome of a foreign cache, but not an input for this era
                                        self.o.classes.push("output-of-earlier-era:not-kept".into());
                                        return None;
                                    }
                                    Some((out, ep))
                                }
                                Ok(_) => {
                                    self.o.classes.push(format!("outcome:{what}/{ktag}/{vtag}/ok+verified"));
                                    self.violation(
                                        format!("C17/{what}/{ktag}/invalid-input/accepted"),
                                        format!("{what} over {stmt} (an invalid input) returned a proof that verifies"),
                                        ctx,
                                    );
                                    None
                                }
                                Err(e) => {
                                    self.o.classes.push(format!("outcome:{what}/{ktag}/{vtag}/ok+unverifiable"));
                                    self.violation(
                                        format!("C17/{what}/{ktag}{vs}/output-fails-verification"),
                                        format!(
                                            "{what} over {stmt} returned Ok but verify_all_tables rejects the output: {}",
                                            e.chars().take(300).collect::<String>()
                                        ),
                                        ctx,
                                    );
                                    None
                                }
                            }
                        }
                    }
                }

                fn next_layer(&mut self, input: &Src, cache: &CacheUse, split: bool, ctx: Option<&Ctx>) {
                    let t0 = std::time::Instant::now();
                    let r = self.resolve(input);
                    let valid = Self::valid(&r);
                    let stmt = format!("NL({})", self.stmt(&r));
                    let params = self.params();
                    self.o.classes.push(format!("nl-input:{}", Self::src_class(&r)));

                    // resolve the cache discipline
                    let reuse_idx = match cache {
                        CacheUse::Reuse(j) if !self.nl_caches.is_empty() => Some(pick(*j, self.nl_caches.len())),
                        _ => None,
                    };
                    let fresh = matches!(cache, CacheUse::Fresh)
                        || (matches!(cache, CacheUse::Reuse(_)) && reuse_idx.is_none());

                    if !fresh && reuse_idx.is_none() && !split {
                        // convenience wrapper, no cache
                        self.o.kinds.push("NL:none".into());
                        let res = {
                            let inp = self.input(&r);
                            let (cfg, backend) = (self.cfg(), &self.backend);
                            catch(|| build_and_prove_next_layer::<Cfg, UniAir, Backend, D>(&inp, cfg, backend, &params))
                        };
                        let kept = self.judge("next-layer", &Kind::Plain, valid, None, res, &stmt, ctx);
                        self.keep(kept, stmt);
                        self.o.timings.push(("NL:none".into(), t0.elapsed().as_secs_f64()));
                        return;
                    }

                    // split API
                    let built = {
                        let inp = self.input(&r);
                        let (cfg, backend) = (self.cfg(), &self.backend);
                        catch(|| build_next_layer_circuit::<Cfg, UniAir, Backend, D>(&inp, cfg, backend))
                    };
                    let (circuit, vres): (Circuit<Challenge>, VRes) = match built {
                        Ok(Ok(x)) => x,
                        Ok(Err(_)) if !valid => {
                            // an acceptable refusal of an invalid input
                            self.o.kinds.push("NL:build-refused-invalid".into());
                            self.o.classes.push("outcome:next-layer/build/invalid-input/err".into());
                            return;
                        }
                        Ok(Err(e)) => {
                            self.o.kinds.push("NL:build-err".into());
                            self.violation(
                                "C17/next-layer/build-circuit/refused".into(),
                                format!("build_next_layer_circuit over {stmt} returned Err: {e:?}"),
                                ctx,
                            );
                            return;
                        }
                        Err(p) => {
                            self.o.kinds.push("NL:build-panic".into());
                            self.violation(
                                "C17/next-layer/build-circuit/panic".into(),
                                format!("build_next_layer_circuit over {stmt} panicked: {}", sig_of_panic(&p)),
                                ctx,
                            );
                            return;
                        }
                    };
                    let digest = circuit_digest(&circuit);
                    let cnt = counters(&circuit);
                    if std::env::var("C17_DEBUG").is_ok() {
                        eprintln!("C17DBG NL {digest:016x} {cnt:?} h{} {stmt}", self.case.seed);
                    }

                    let (kind, cache_idx) = if fresh {
                        let prep = {
                            let (cfg, backend) = (self.cfg(), &self.backend);
                            catch(|| build_next_layer_prep::<Cfg, UniAir, Backend, D>(&circuit, cfg, backend, &params))
                        };
                        match prep {
                            Ok(Ok(prep)) => {
                                self.nl_caches.push(NlCache {
                                    prep,
                                    digest,
                                    counters: cnt,
                                    preset: self.preset,
                                    epoch: self.epoch(),
                                });
                                self.o.kinds.push("NL:fresh".into());
                                (Kind::Fresh, Some(self.nl_caches.len() - 1))
                            }
                            other => {
                                let m = match other {
                                    Ok(Err(e)) => format!("Err: {e:?}"),
                                    Err(p) => format!("panic: {}", sig_of_panic(&p)),
                                    _ => unreachable!(),
                                };
                                self.o.kinds.push("NL:prep-failed".into());
                                self.violation(
                                    "C17/next-layer/build-prep/failed".into(),
                                    format!("build_next_layer_prep for {stmt}: {m}"),
                                    ctx,
                                );
                                return;
                            }
                        }
                    } else if let Some(j) = reuse_idx {
                        self.o.reuses += 1;
                        let c = &self.nl_caches[j];
                        let kind = if c.digest == digest {
                            Kind::Same
                        } else {
                            Kind::Foreign {
                                fp_equal: c.counters == cnt,
                            }
                        };
                        let mut tag = match &kind {
                            Kind::Same => "NL:reuse-same".to_string(),
                            Kind::Foreign { fp_equal: true } => "NL:reuse-foreign-fp-equal".to_string(),
                            _ => "NL:reuse-foreign".to_string(),
                        };
                        if c.preset != self.preset {
                            tag.push_str("+other-params");
                        }
                        if c.epoch != self.epoch() {
                            tag.push_str("+other-epoch");
                        }
                        self.o.kinds.push(tag);
                        (kind, Some(j))
                    } else {
                        self.o.kinds.push("NL:none-split".into());
                        (Kind::Plain, None)
                    };

                    let cache_epoch = cache_idx.map(|j| self.nl_caches[j].epoch);
                    let res = {
                        let inp = self.input(&r);
                        let (cfg, backend) = (self.cfg(), &self.backend);
                        let prep = cache_idx.map(|j| &self.nl_caches[j].prep);
                        catch(|| {
                            prove_next_layer::<Cfg, UniAir, Backend, D>(&inp, &circuit, &vres, cfg, backend, &params, prep)
                        })
                    };
                    let was_same = matches!(kind, Kind::Same);
                    let kept = self.judge("next-layer", &kind, valid, cache_epoch, res, &stmt, ctx);
                    if was_same && self.case.cross_check && self.o.fail.is_none() {
                        // the uncached verdict for the very same call
                        let res2 = {
                            let inp = self.input(&r);
                            let (cfg, backend) = (self.cfg(), &self.backend);
                            catch(|| {
                                prove_next_layer::<Cfg, UniAir, Backend, D>(
                                    &inp, &circuit, &vres, cfg, backend, &params, None,
                                )
                            })
                        };
                        self.o.classes.push("cross-check:uncached-rerun".into());
                        let un = self.judge("next-layer", &Kind::Plain, valid, None, res2, &stmt, ctx);
                        if un.is_some() != kept.is_some() && self.o.fail.is_none() {
                            self.violation(
                                "C17/next-layer/same-circuit-cache/verdict-differs-from-uncached".into(),
                                format!(
                                    "{stmt}: cached call produced a verifying output = {}, uncached = {}",
                                    kept.is_some(),
                                    un.is_some()
                                ),
                                ctx,
                            );
                        }
                    }
                    self.keep(kept, stmt);
                    self.o.timings.push((self.o.kinds.last().cloned().unwrap_or_default(), t0.elapsed().as_secs_f64()));
                }

                fn keep(&mut self, kept: Option<(RecursionOutput<Cfg>, usize)>, stmt: String) {
                    if let Some((out, epoch)) = kept {
                        self.outs.push(OutRec { out, stmt, epoch });
                    }
                }

                /// The (private) `build_aggregation_layer_circuit`, re-assembled from the
                /// backend's public trait methods.
                fn build_agg(
                    &self,
                    left: &Input<'_>,
                    right: &Input<'_>,
                ) -> Result<(Circuit<Challenge>, VRes, VRes), VerificationError> {
                    let mut cb = CircuitBuilder::new();
                    let (cfg, backend) = (self.cfg(), &self.backend);
                    <Backend as PcsRecursionBackend<Cfg, UniAir, D>>::prepare_circuit(backend, cfg, &mut cb)?;
                    <Backend as PcsRecursionBackend<Cfg, UniAir, D>>::prepare_circuit(backend, cfg, &mut cb)?;
                    let l = <Backend as PcsRecursionBackend<Cfg, UniAir, D>>::build_verifier_circuit(
                        backend, left, cfg, &mut cb,
                    )?;
                    let r = <Backend as PcsRecursionBackend<Cfg, UniAir, D>>::build_verifier_circuit(
                        backend, right, cfg, &mut cb,
                    )?;
                    let circuit = cb.build().map_err(VerificationError::CircuitBuilder)?;
                    Ok((circuit, l, r))
                }

                fn aggregate(&mut self, left: &Src, right: &Src, cache: &CacheUse, split: bool, ctx: Option<&Ctx>) {
                    let t0 = std::time::Instant::now();
                    let rl = self.resolve(left);
                    let rr = self.resolve(right);
                    let valid = Self::valid(&rl) && Self::valid(&rr);
                    let stmt = format!("AGG({}, {})", self.stmt(&rl), self.stmt(&rr));
                    let params = self.params();
                    self.o.classes.push(format!("agg-inputs:{}+{}", Self::src_class(&rl), Self::src_class(&rr)));

                    let reuse_idx = match cache {
                        CacheUse::Reuse(j) if !self.agg_caches.is_empty() => Some(pick(*j, self.agg_caches.len())),
                        _ => None,
                    };
                    let fresh = matches!(cache, CacheUse::Fresh)
                        || (matches!(cache, CacheUse::Reuse(_)) && reuse_idx.is_none());

                    // the model needs the circuit of this call whenever a cache is involved
                    let need_circuit = split || fresh || reuse_idx.is_some();
                    let built = if need_circuit {
                        let (il, ir) = (self.input(&rl), self.input(&rr));
                        match catch(|| self.build_agg(&il, &ir)) {
                            Ok(Ok(x)) => Some(x),
                            Ok(Err(_)) if !valid => {
                                self.o.kinds.push("AGG:build-refused-invalid".into());
                                self.o.classes.push("outcome:aggregate/build/invalid-input/err".into());
                                return;
                            }
                            Ok(Err(e)) => {
                                self.o.kinds.push("AGG:build-err".into());
                                self.violation(
                                    "C17/aggregate/build-circuit/refused".into(),
                                    format!("building the aggregation circuit of {stmt} returned Err: {e:?}"),
                                    ctx,
                                );
                                return;
                            }
                            Err(p) => {
                                self.o.kinds.push("AGG:build-panic".into());
                                self.violation(
                                    "C17/aggregate/build-circuit/panic".into(),
                                    format!("building the aggregation circuit of {stmt} panicked: {}", sig_of_panic(&p)),
                                    ctx,
                                );
                                return;
                            }
                        }
                    } else {
                        None
                    };
                    let (digest, cnt) = built
                        .as_ref()
                        .map(|(c, _, _)| (circuit_digest(c), counters(c)))
                        .unwrap_or((0, (0, 0, 0, 0)));
                    if std::env::var("C17_DEBUG").is_ok() && built.is_some() {
                        eprintln!("C17DBG AGG {digest:016x} {cnt:?} h{} {stmt}", self.case.seed);
                    }

                    // take the slot out of the store for the duration of the call
                    let mut slot: Option<AggregationPrepCache<Cfg>> = None;
                    let (kind, cache_epoch) = if fresh {
                        self.o.kinds.push("AGG:fresh".into());
                        (Kind::Fresh, None)
                    } else if let Some(j) = reuse_idx {
                        self.o.reuses += 1;
                        let (cur_preset, cur_epoch) = (self.preset, self.epoch());
                        let c = &mut self.agg_caches[j];
                        slot = c.slot.take();
                        let kind = if c.digest == digest {
                            Kind::Same
                        } else {
                            Kind::Foreign {
                                fp_equal: c.counters == cnt,
                            }
                        };
                        let mut tag = match &kind {
                            Kind::Same => "AGG:reuse-same".to_string(),
                            Kind::Foreign { fp_equal: true } => "AGG:reuse-foreign-fp-equal".to_string(),
                            _ => "AGG:reuse-foreign".to_string(),
                        };
                        if c.preset != cur_preset {
                            tag.push_str("+other-params");
                        }
                        if c.epoch != cur_epoch {
                            tag.push_str("+other-epoch");
                        }
                        let ep = c.epoch;
                        self.o.kinds.push(tag);
                        (kind, Some(ep))
                    } else {
                        self.o.kinds.push(if split { "AGG:none-split" } else { "AGG:none" }.into());
                        (Kind::Plain, None)
                    };
                    let with_cache = fresh || reuse_idx.is_some();

                    let res = {
                        let (il, ir) = (self.input(&rl), self.input(&rr));
                        let (cfg, backend) = (self.cfg(), &self.backend);
                        let slot_ref = &mut slot;
                        let built_ref = &built;
                        let params = &params;
                        catch(move || {
                            let cache_arg = if with_cache { Some(slot_ref) } else { None };
                            match (split, built_ref) {
                                (true, Some((circuit, vl, vr))) => {
                                    prove_aggregation_layer::<Cfg, UniAir, UniAir, Backend, D>(
                                        &il, &ir, vl, vr, circuit, cfg, backend, params, cache_arg,
                                    )
                                }
                                _ => build_and_prove_aggregation_layer::<Cfg, UniAir, UniAir, Backend, D>(
                                    &il, &ir, cfg, backend, params, cache_arg,
                                ),
                            }
                        })
                    };
                    // which preparation does the slot hold now?  If the output shares its prover
                    // data with the slot, the slot is (now) this call's preparation.
                    let slot_is_this_call = match (&res, &slot) {
                        (Ok(Ok(out)), Some(s)) => Rc::ptr_eq(&out.1, &s.circuit_prover_data),
                        _ => false,
                    };
                    let was_same = matches!(kind, Kind::Same);
                    let was_foreign = matches!(kind, Kind::Foreign { .. });
                    let kept = self.judge("aggregate", &kind, valid, cache_epoch, res, &stmt, ctx);

                    if fresh {
                        if slot.is_some() {
                            self.agg_caches.push(AggCache {
                                slot,
                                digest,
                                counters: cnt,
                                preset: self.preset,
                                epoch: self.epoch(),
                            });
                        } else if kept.is_some() {
                            self.violation(
                                "C17/aggregate/fresh-cache/slot-left-empty".into(),
                                format!("{stmt}: the call succeeded with Some(&mut None) but did not fill the slot"),
                                ctx,
                            );
                        }
                    } else if let Some(j) = reuse_idx {
                        let refilled = was_foreign && slot_is_this_call && kept.is_some();
                        let (preset, epoch) = (self.preset, self.epoch());
                        let c = &mut self.agg_caches[j];
                        c.slot = slot;
                        if refilled {
                            // recomputed: the slot was replaced by this call's preparation
                            c.digest = digest;
                            c.counters = cnt;
                            c.preset = preset;
                            c.epoch = epoch;
                            self.o.classes.push("agg-slot:refilled-after-mismatch".into());
                        }
                    }

                    if was_same && self.case.cross_check && self.o.fail.is_none() {
                        let res2 = {
                            let (il, ir) = (self.input(&rl), self.input(&rr));
                            let (cfg, backend) = (self.cfg(), &self.backend);
                            catch(|| {
                                build_and_prove_aggregation_layer::<Cfg, UniAir, UniAir, Backend, D>(
                                    &il, &ir, cfg, backend, &params, None,
                                )
                            })
                        };
                        self.o.classes.push("cross-check:uncached-rerun".into());
                        let un = self.judge("aggregate", &Kind::Plain, valid, None, res2, &stmt, ctx);
                        if un.is_some() != kept.is_some() && self.o.fail.is_none() {
                            self.violation(
                                "C17/aggregate/same-circuit-cache/verdict-differs-from-uncached".into(),
                                format!(
                                    "{stmt}: cached call produced a verifying output = {}, uncached = {}",
                                    kept.is_some(),
                                    un.is_some()
                                ),
                                ctx,
                            );
                        }
                    }
                    self.keep(kept, stmt);
                    self.o.timings.push((self.o.kinds.last().cloned().unwrap_or_default(), t0.elapsed().as_secs_f64()));
                }
            }

            /// Counters of the next-layer circuit over the 8-row Fibonacci proof (exploration aid).
            #[allow(dead_code)]
            pub fn probe(case: &Case) -> (u64, (u32, usize, usize, usize)) {
                let backend: Backend = FriRecursionBackend::<16, 8, Poseidon2Config>::new(P2).for_extension_degree::<4>();
                let cfg = make_cfg(case, case.fri0, case.query_pow_bits);
                let u = prove_uni(&cfg, case, false, false);
                let inp: Input<'_> = RecursionInput::UniStark {
                    proof: &u.proof,
                    air: &u.air,
                    public_inputs: u.pis.clone(),
                    preprocessed_commit: None,
                };
                let (c, _) = build_next_layer_circuit::<Cfg, UniAir, Backend, D>(&inp, &cfg, &backend).unwrap();
                (circuit_digest(&c), counters(&c))
            }

            pub fn run_history(case: &Case, ctx: Option<&Ctx>) -> Outcome {
                let backend: Backend = FriRecursionBackend::<16, 8, Poseidon2Config>::new(P2).for_extension_degree::<4>();
                let mut st = State {
                    case,
                    backend,
                    cfgs: vec![make_cfg(case, case.fri0, case.query_pow_bits)],
                    cfg_qpow: vec![case.query_pow_bits],
                    fri: case.fri0,
                    qpow: case.query_pow_bits,
                    era_start: 0,
                    preset: case.packing0,
                    unis: BTreeMap::new(),
                    batches: BTreeMap::new(),
                    outs: vec![],
                    nl_caches: vec![],
                    agg_caches: vec![],
                    o: Outcome::default(),
                };
                st.o.classes.push(format!("field:{}", $fname));
                st.o.classes.push(format!("log_blowup:{}", case.log_blowup));
                for step in &case.steps {
                    match step {
                        Step::NextLayer { input, cache, split } => {
                            st.o.proving_steps += 1;
                            st.next_layer(input, cache, *split, ctx);
                        }
                        Step::Aggregate {
                            left,
                            right,
                            cache,
                            split,
                        } => {
                            st.o.proving_steps += 1;
                            st.aggregate(left, right, cache, *split, ctx);
                        }
                        Step::ChangeParams { packing, fri, qpow } => {
                            let mut tag = String::from("CP:");
                            if let Some(p) = packing.filter(|p| p % PACKINGS.len() as u8 != st.preset % PACKINGS.len() as u8) {
                                st.preset = p;
                                tag.push_str("packing");
                            }
                            let new_fri = fri.filter(|f| f % FRIS.len() as u8 != st.fri % FRIS.len() as u8);
                            let new_qpow = qpow.map(|q| 1 + q % 4).filter(|q| *q != st.qpow);
                            if new_fri.is_some() || new_qpow.is_some() {
                                if let Some(f) = new_fri {
                                    st.fri = f;
                                    tag.push_str("+fri");
                                }
                                if let Some(q) = new_qpow {
                                    st.qpow = q;
                                    // new era: the verifier circuit changes, base statements are
                                    // proved afresh, earlier outputs are out of reach
                                    st.unis.clear();
                                    st.batches.clear();
                                    st.era_start = st.outs.len();
                                    tag.push_str("+qpow");
                                }
                                let c = make_cfg(case, st.fri, st.qpow);
                                st.cfgs.push(c);
                                st.cfg_qpow.push(st.qpow);
                            }
                            st.o.kinds.push(tag);
                        }
                    }
                    if st.o.fail.is_some() {
                        break;
                    }
                }
                st.o.classes.push(format!("outputs:{}", st.outs.len().min(4)));
                st.o
            }
        }
    };
}

field_module!(
    kb,
    "KoalaBear-D4",
    p3_koala_bear::KoalaBear,
    p3_koala_bear::Poseidon2KoalaBear<16>,
    p3_koala_bear::default_koalabear_poseidon2_16,
    Poseidon2Config::KOALA_BEAR_D4_W16,
    p3_poseidon2_circuit_air::KoalaBearD4Width16
);

field_module!(
    bb,
    "BabyBear-D4",
    p3_baby_bear::BabyBear,
    p3_baby_bear::Poseidon2BabyBear<16>,
    p3_baby_bear::default_babybear_poseidon2_16,
    Poseidon2Config::BABY_BEAR_D4_W16,
    p3_poseidon2_circuit_air::BabyBearD4Width16
);

pub fn run_case(case: &Case, ctx: Option<&Ctx>) -> Outcome {
    match case.field % 2 {
        0 => kb::run_history(case, ctx),
        _ => bb::run_history(case, ctx),
    }
}

fn report_of(case: &Case, o: Outcome) -> Report {
    let nontrivial = o.proving_steps >= 2 && o.reuses >= 1;
    let key = hash_of(&(case.field % 2, &o.kinds));
    let mut classes = o.classes.clone();
    for k in &o.kinds {
        classes.push(format!("step:{k}"));
    }
    classes.push(format!("proving-steps:{}", o.proving_steps));
    classes.push(format!("reuses:{}", o.reuses.min(3)));
    let rep = match (o.fail, o.known_fail) {
        (Some((sig, msg)), _) => Report::fail(sig, format!("{msg}\n  history kinds: {:?}", o.kinds)),
        (None, Some((sig, msg))) => Report::fail(sig, format!("{msg}\n  history kinds: {:?}", o.kinds)),
        (None, None) => Report::pass(),
    };
    rep.nontrivial(nontrivial).key(key).classes(classes)
}

// ------------------------------------------------------------------------------------------
// Strategy: a small planner turns raw choices into explicit steps
// ------------------------------------------------------------------------------------------

fn src_from(r: u16, n_outputs: usize, allow_bad: bool) -> Src {
    // prefer outputs when there are any (chains), otherwise a base statement
    let sel = r % 16;
    let hi = r / 16;
    if n_outputs > 0 && sel < 7 {
        // most often the latest output
        let idx = if hi % 3 == 0 { hi } else { u16::MAX };
        return Src::Output(idx);
    }
    let bad = allow_bad && sel >= 14;
    if sel % 2 == 0 {
        Src::Uni {
            alt: hi % 3 == 1,
            big: hi % 5 == 1,
            bad,
        }
    } else {
        Src::Batch {
            variant: (hi % 4).min(2) as u8,
            bad,
        }
    }
}

/// A source of the same *shape* as `s` (so that the verification circuit is the same or an
/// engineered near-twin): sibling batch variant / same AIR other start values are the same
/// circuit; the other AIR is a twin with equal counters.
fn sibling(s: &Src, r: u16) -> Src {
    match s {
        Src::Uni { alt, big, .. } => Src::Uni {
            alt: if r % 4 == 0 { !*alt } else { *alt },
            big: *big,
            bad: r % 16 == 5,
        },
        Src::Batch { variant, .. } => Src::Batch {
            variant: match (*variant % 3, r % 2) {
                (0, 1) => 1,
                (1, 1) => 0,
                (v, _) => v,
            },
            bad: r % 16 == 5,
        },
        Src::Output(i) => Src::Output(*i),
    }
}

pub fn plan(raw: &[[u16; 6]], max_proving: usize) -> Vec<Step> {
    let mut steps: Vec<Step> = vec![];
    let mut n_out = 0usize;
    // creators of caches, by kind, in creation order
    let mut nl_creators: Vec<Src> = vec![];
    let mut agg_creators: Vec<(Src, Src)> = vec![];
    let mut proving = 0usize;
    // set by a change of the query PoW bits: the next proving step then (3 times out of 4)
    // repeats the creator call of some cache literally, so that the circuit differs from the
    // cached one in `witness_count` only
    let mut after_qpow = false;
    for r in raw {
        if proving >= max_proving {
            break;
        }
        let k = r[0] % 16;
        if k == 15 || k == 14 {
            // one, two or all three components
            let m = r[3] % 8;
            steps.push(Step::ChangeParams {
                packing: if m % 2 == 0 || m == 7 { Some((r[1] % 6) as u8) } else { None },
                fri: if m == 1 || m == 2 || m == 7 { Some((r[2] % 4) as u8) } else { None },
                qpow: if m >= 3 && m != 4 { Some((r[4] % 4) as u8) } else { None },
            });
            if m >= 3 && m != 4 {
                n_out = 0;
                after_qpow = true;
            }
            continue;
        }
        let mut is_agg = k >= 7;
        // lean towards the kind of call for which a cache is already around
        if (r[0] / 16) % 2 == 0 && nl_creators.is_empty() != agg_creators.is_empty() {
            is_agg = nl_creators.is_empty();
        }
        let have = if is_agg { !agg_creators.is_empty() } else { !nl_creators.is_empty() };
        // 0-1 none, 2-4 fresh, 5-9 reuse (5-8 mirrored inputs, 9 arbitrary inputs)
        let cache_sel = if have {
            [0, 2, 3, 5, 6, 7, 8, 8, 9, 9][(r[3] % 10) as usize]
        } else {
            r[3] % 10
        };
        let split = r[4] % 2 == 0;
        proving += 1;
        let repeat = after_qpow && r[3] % 4 != 0 && !(nl_creators.is_empty() && agg_creators.is_empty());
        after_qpow = false;
        if repeat {
            if !agg_creators.is_empty() && (nl_creators.is_empty() || r[0] % 4 != 0) {
                let j = (r[5] as usize) % agg_creators.len();
                let (left, right) = agg_creators[j].clone();
                steps.push(Step::Aggregate {
                    left,
                    right,
                    cache: CacheUse::Reuse(enc(j, agg_creators.len())),
                    split,
                });
            } else {
                let j = (r[5] as usize) % nl_creators.len();
                steps.push(Step::NextLayer {
                    input: nl_creators[j].clone(),
                    cache: CacheUse::Reuse(enc(j, nl_creators.len())),
                    split,
                });
            }
            n_out += 1;
            continue;
        }
        if !is_agg {
            let mut input = src_from(r[1], n_out, true);
            let cache = if cache_sel < 2 {
                CacheUse::None
            } else if cache_sel < 5 || nl_creators.is_empty() {
                CacheUse::Fresh
            } else {
                let j = (r[5] as usize) % nl_creators.len();
                if cache_sel < 9 {
                    // mirror the creator's input shape
                    input = sibling(&nl_creators[j], r[5] / 8);
                }
                // index encoded so that fw::pick maps back onto j
                CacheUse::Reuse(enc(j, nl_creators.len()))
            };
            if matches!(cache, CacheUse::Fresh) {
                nl_creators.push(input.clone());
            }
            steps.push(Step::NextLayer { input, cache, split });
        } else {
            let mut left = src_from(r[1], n_out, true);
            let mut right = src_from(r[2], n_out, false);
            let cache = if cache_sel < 2 {
                CacheUse::None
            } else if cache_sel < 5 || agg_creators.is_empty() {
                CacheUse::Fresh
            } else {
                let j = (r[5] as usize) % agg_creators.len();
                if cache_sel < 9 {
                    let (cl, cr) = agg_creators[j].clone();
                    let q = r[5] / 8;
                    if q % 3 == 0 {
                        // engineered: the same two shapes, swapped
                        left = sibling(&cr, q / 3);
                        right = sibling(&cl, q / 7);
                    } else {
                        left = sibling(&cl, q / 3);
                        right = sibling(&cr, q / 7);
                    }
                }
                CacheUse::Reuse(enc(j, agg_creators.len()))
            };
            if matches!(cache, CacheUse::Fresh) {
                agg_creators.push((left.clone(), right.clone()));
            }
            steps.push(Step::Aggregate {
                left,
                right,
                cache,
                split,
            });
        }
        // optimistic: assume the step yields an output (bad inputs do not; indices are
        // re-mapped by `pick` at run time anyway)
        n_out += 1;
    }
    steps
}

/// Smallest `u16` that `fw::pick` maps onto `j` out of `len`.
fn enc(j: usize, len: usize) -> u16 {
    if len == 0 {
        return 0;
    }
    (((j << 16) + len - 1) / len).min(u16::MAX as usize) as u16
}

pub fn strategy(max_proving: usize) -> impl Strategy<Value = Case> {
    (
        (0u8..8, 1u8..=2, 0u8..=1, 1u8..=4, 0u8..6, 0u8..4),
        any::<u64>(),
        any::<bool>(),
        proptest::collection::vec(any::<[u16; 6]>(), 2..=(max_proving + 2)),
    )
        .prop_map(move |((field, log_blowup, cpow, qpow, packing0, fri0), seed, cross_check, raw)| Case {
            // KoalaBear first: 5 of 8
            field: if field < 5 { 0 } else { 1 },
            log_blowup,
            commit_pow_bits: cpow,
            query_pow_bits: qpow,
            packing0,
            fri0,
            seed,
            cross_check,
            steps: plan(&raw, max_proving),
        })
}

pub fn oracle_with(ctx: &Ctx) -> impl Fn(&Case) -> Report + Sync + '_ {
    move |case: &Case| {
        let o = run_case(case, Some(ctx));
        report_of(case, o)
    }
}

pub fn run(ctx: &Ctx) {
    ctx.assume(
        "FRI: log_blowup 1-2, log_final_poly_len 0, cap height 0, 0-1 commit PoW bits, 1-4 query PoW bits, 2-4 queries \
         (smallest parameters the recursion examples accept); Poseidon2 width 16, D = 4",
    );
    ctx.assume(
        "a layer costs seconds: this is the thinnest exploration of the twenty (quick: tens of histories of <= 3 proving \
         steps run in parallel shards)",
    );
    ctx.shrink_iters.store(48, std::sync::atomic::Ordering::Relaxed);
    if std::env::var("C17_ONLY").as_deref() == Ok("cross") || std::env::var("C17X_MEASURE").is_ok() {
        super::c17x::run(ctx);
        return;
    }
    if let Ok(m) = std::env::var("C17_MEASURE") {
        measure(&m);
        return;
    }
    let (n, depth) = match ctx.tier {
        crate::fw::Tier::Quick => (800, 3),
        crate::fw::Tier::Thorough => (16_000, 5),
    };
    // development aids: C17_CASES / C17_DEPTH override the tier's size, C17_ONLY=histories|engineered
    // runs one sub-check
    let n = std::env::var("C17_CASES").ok().and_then(|v| v.parse().ok()).unwrap_or(n);
    let depth = std::env::var("C17_DEPTH").ok().and_then(|v| v.parse().ok()).unwrap_or(depth);
    let only = std::env::var("C17_ONLY").unwrap_or_default();
    if only.is_empty() || only == "histories" {
        ctx.explore("histories", RULE, n, || strategy(depth), oracle_with(ctx));
    }
    if only.is_empty() || only == "engineered" {
        ctx.enumerate("engineered", RULE_ENGINEERED, engineered(), false, oracle_with(ctx));
    }
    ctx.replay_known("engineered", |c: &Case| {
        let o = run_case(c, None);
        report_of(c, o)
    });
    ctx.replay_known("histories", |c: &Case| {
        // replay without the known-findings filter so that the listed signature shows up
        let o = run_case(c, None);
        report_of(c, o)
    });
    // cross-configuration aggregation and ZK layer configurations (sub-checks cross-histories, cross-engineered)
    if std::env::var("C17_ONLY").is_err() {
        super::c17x::run(ctx);
    }
}

pub const RULE_ENGINEERED: &str = "fixed list of engineered histories through the same interpreter and oracle, for both fields and log_blowup 1-2: caches offered to a different circuit with equal fingerprint counters (left/right swapped; AIR twin), to a circuit that differs in witness_count only (query PoW bits changed between the calls), to the same circuit with other statements / other packing / after a prover-side FRI change, chains of three layers with the cache of the previous layer, invalid inputs with a same-circuit cache; every history has >= 2 proving steps and >= 1 reuse";

fn engineered() -> Vec<Case> {
    let uni = |alt: bool, big: bool| Src::Uni { alt, big, bad: false };
    let bat = |variant: u8| Src::Batch { variant, bad: false };
    let agg = |left: Src, right: Src, cache: CacheUse, split: bool| Step::Aggregate {
        left,
        right,
        cache,
        split,
    };
    let nl = |input: Src, cache: CacheUse| Step::NextLayer {
        input,
        cache,
        split: true,
    };
    let last = || Src::Output(u16::MAX);
    let qpow = |q: u8| Step::ChangeParams {
        packing: None,
        fri: None,
        qpow: Some(q),
    };
    let mut hs: Vec<Vec<Step>> = vec![];
    // the same two inputs, swapped
    for (l, r) in [
        (uni(false, false), bat(0)),
        (uni(false, false), uni(false, true)),
        (bat(0), bat(2)),
    ] {
        hs.push(vec![
            agg(l.clone(), r.clone(), CacheUse::Fresh, false),
            agg(r.clone(), l.clone(), CacheUse::Reuse(0), true),
            nl(last(), CacheUse::None),
        ]);
    }
    // AIR twin
    hs.push(vec![
        agg(uni(false, false), bat(0), CacheUse::Fresh, true),
        agg(uni(true, false), bat(0), CacheUse::Reuse(0), false),
    ]);
    hs.push(vec![
        nl(uni(false, true), CacheUse::Fresh),
        nl(uni(true, true), CacheUse::Reuse(0)),
    ]);
    // circuits that differ in witness_count only
    for q in [1u8, 2] {
        hs.push(vec![
            agg(uni(false, false), uni(true, false), CacheUse::Fresh, false),
            qpow(q),
            agg(uni(false, false), uni(true, false), CacheUse::Reuse(0), false),
            nl(last(), CacheUse::None),
        ]);
        hs.push(vec![
            nl(uni(false, false), CacheUse::Fresh),
            qpow(q),
            nl(uni(false, false), CacheUse::Reuse(0)),
        ]);
    }
    // the same circuit: other statements, other packing, other prover-side FRI parameters
    hs.push(vec![
        agg(uni(false, false), bat(0), CacheUse::Fresh, false),
        agg(uni(false, false), bat(1), CacheUse::Reuse(0), true),
        Step::ChangeParams {
            packing: Some(2),
            fri: None,
            qpow: None,
        },
        agg(uni(false, false), bat(1), CacheUse::Reuse(0), false),
        nl(last(), CacheUse::None),
    ]);
    hs.push(vec![
        agg(bat(0), bat(1), CacheUse::Fresh, true),
        Step::ChangeParams {
            packing: None,
            fri: Some(1),
            qpow: None,
        },
        agg(bat(1), bat(0), CacheUse::Reuse(0), true),
        nl(last(), CacheUse::None),
    ]);
    hs.push(vec![
        nl(bat(0), CacheUse::Fresh),
        nl(bat(1), CacheUse::Reuse(0)),
        agg(Src::Output(0), last(), CacheUse::Fresh, false),
        agg(last(), Src::Output(0), CacheUse::Reuse(0), false),
    ]);
    // chains: the cache of the previous layer offered to the next one
    hs.push(vec![
        nl(uni(false, false), CacheUse::Fresh),
        nl(last(), CacheUse::Fresh),
        nl(last(), CacheUse::Reuse(u16::MAX)),
        nl(last(), CacheUse::Reuse(u16::MAX)),
    ]);
    hs.push(vec![
        agg(bat(0), bat(1), CacheUse::Fresh, false),
        agg(last(), last(), CacheUse::Reuse(0), false),
        agg(last(), last(), CacheUse::Reuse(0), false),
    ]);
    // invalid inputs with a cache for the same circuit
    hs.push(vec![
        nl(uni(false, false), CacheUse::Fresh),
        nl(Src::Uni { alt: false, big: false, bad: true }, CacheUse::Reuse(0)),
        agg(uni(false, false), bat(0), CacheUse::Fresh, false),
        agg(uni(false, false), Src::Batch { variant: 0, bad: true }, CacheUse::Reuse(0), false),
        agg(Src::Uni { alt: false, big: false, bad: true }, bat(1), CacheUse::Reuse(0), true),
    ]);
    // a populated slot that misses is refilled; the refilled entry must be complete (data AND
    // prover of the new call): fill under one packing / FRI setting, change it, miss with another
    // circuit, then hit with exactly that circuit again
    for change in [
        Step::ChangeParams { packing: Some(1), fri: None, qpow: None },
        Step::ChangeParams { packing: Some(2), fri: None, qpow: None },
        Step::ChangeParams { packing: None, fri: Some(1), qpow: None },
    ] {
        hs.push(vec![
            agg(uni(false, false), bat(0), CacheUse::Fresh, false),
            change.clone(),
            agg(bat(0), bat(2), CacheUse::Reuse(0), false),
            agg(bat(0), bat(2), CacheUse::Reuse(0), false),
            nl(last(), CacheUse::None),
        ]);
        hs.push(vec![
            nl(uni(false, false), CacheUse::Fresh),
            change.clone(),
            nl(bat(0), CacheUse::Reuse(0)),
            nl(bat(0), CacheUse::Reuse(0)),
        ]);
    }
    let mut out = vec![];
    for (i, steps) in hs.into_iter().enumerate() {
        for field in 0..2u8 {
            for log_blowup in 1..=2u8 {
                out.push(Case {
                    field,
                    log_blowup,
                    commit_pow_bits: (i % 2) as u8,
                    query_pow_bits: 1,
                    packing0: (i % PACKINGS.len()) as u8,
                    fri0: ((i + field as usize) % FRIS.len()) as u8,
                    seed: 1000 + i as u64,
                    cross_check: true,
                    steps: steps.clone(),
                });
            }
        }
    }
    out
}

/// Cost measurement (`C17_MEASURE=<field>`): one history touching every kind of call.
fn measure(which: &str) {
    if which.contains("probe") {
        for fri0 in 0..4u8 {
            for cp in 0..=1u8 {
                for qp in 1..=4u8 {
                    for seed in [1u64, 2] {
                        let case = Case {
                            field: 0,
                            log_blowup: 1,
                            commit_pow_bits: cp,
                            query_pow_bits: qp,
                            packing0: 0,
                            fri0,
                            seed,
                            cross_check: false,
                            steps: vec![],
                        };
                        println!("fri0={fri0} cpow={cp} qpow={qp} seed={seed}: {:?}", kb::probe(&case));
                    }
                }
            }
        }
        return;
    }
    let field = if which.contains("bb") { 1 } else { 0 };
    for log_blowup in [1u8, 2] {
        let case = Case {
            field,
            log_blowup,
            commit_pow_bits: 0,
            query_pow_bits: 2,
            packing0: 0,
            fri0: 0,
            seed: 7,
            cross_check: false,
            steps: vec![
                Step::NextLayer {
                    input: Src::Uni { alt: false, big: false, bad: false },
                    cache: CacheUse::None,
                    split: false,
                },
                Step::NextLayer {
                    input: Src::Batch { variant: 0, bad: false },
                    cache: CacheUse::Fresh,
                    split: true,
                },
                Step::NextLayer {
                    input: Src::Batch { variant: 1, bad: false },
                    cache: CacheUse::Reuse(0),
                    split: true,
                },
                Step::Aggregate {
                    left: Src::Uni { alt: false, big: false, bad: false },
                    right: Src::Batch { variant: 0, bad: false },
                    cache: CacheUse::Fresh,
                    split: false,
                },
                Step::Aggregate {
                    left: Src::Output(0),
                    right: Src::Output(1),
                    cache: CacheUse::None,
                    split: true,
                },
                Step::NextLayer {
                    input: Src::Output(u16::MAX),
                    cache: CacheUse::None,
                    split: false,
                },
                Step::NextLayer {
                    input: Src::Uni { alt: false, big: false, bad: true },
                    cache: CacheUse::None,
                    split: false,
                },
            ],
        };
        let t0 = std::time::Instant::now();
        let o = run_case(&case, None);
        println!(
            "measure field={field} log_blowup={log_blowup}: total {:.2}s fail={:?}",
            t0.elapsed().as_secs_f64(),
            o.fail
        );
        for (k, t) in &o.timings {
            println!("   {k:<28} {t:.2}s");
        }
        println!("   classes: {:?}", o.classes);
    }
}
