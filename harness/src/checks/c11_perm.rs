//! C11 (permutation tables) — Poseidon2 / Poseidon1 circuit AIRs accept exactly the row sequences
//! their modes allow.
//!
//! Row sequences (sponge start / sponge continuation / Merkle left / Merkle right / arity-4
//! position 0..3 / chain boundaries / witness-fed limbs) are executed by a small reference model
//! that uses the *native* permutation (`default_*_poseidon{1,2}_*`), turned into
//! `Poseidon{1,2}CircuitRow`s and laid out by the repo's own `extract_preprocessed_from_operations`
//! + `generate_trace_rows` (the real trace generator, internal round columns honest).  Then one
//! *semantic* column is perturbed:
//!   * op level (trace regenerated honestly): one input element, or a direction bit;
//!   * cell level (rest of the row untouched): input element, output element, direction bit /
//!     high bit / product column, index accumulator.
//! Oracle (independent of the AIR): per row `out == NativePerm(in)`, bits boolean (product column
//! consistent); per adjacent pair (no wrap-around) the chaining / placement / accumulator relation
//! of the next row's mode on the final cell values.  The set of evaluation rows with a failing
//! constraint must equal the set of rows the model rejects.

use std::sync::OnceLock;

use p3_air::BaseAir;
use p3_baby_bear::BabyBear;
use p3_circuit::ops::{Poseidon1CircuitRow, Poseidon2CircuitRow};
use p3_field::extension::BinomialExtensionField;
use p3_field::{PrimeCharacteristicRing, PrimeField64};
use p3_koala_bear::KoalaBear;
use p3_matrix::Matrix;
use p3_matrix::dense::RowMajorMatrix;
use p3_symmetric::Permutation;
use proptest::prelude::*;
use serde::{Deserialize, Serialize};

use super::c11::{RowEval, Sm, eval_rows, hist};
use crate::fw::{Ctx, Report, hash_of};

#[derive(Clone, Debug, Serialize, Deserialize, Hash)]
pub struct RowSpec {
    pub new_start: bool,
    pub merkle: bool,
    /// direction: bit = pos & 1, bit2 = pos & 2 (arity-4 shapes only)
    pub pos: u8,
    /// witness-fed input limbs (bit l = limb l)
    pub in_ctl: u16,
    pub mmcs_ctl: bool,
}

#[derive(Clone, Debug, Serialize, Deserialize, Hash, PartialEq)]
pub enum Pert {
    None,
    /// op-level: input element changed, trace regenerated honestly
    OpInput { row: u8, idx: u8, delta: u64 },
    /// op-level: direction bit (0) / high bit (1) flipped, trace regenerated (accumulator follows)
    OpBit { row: u8, which: u8 },
    CellInput { row: u8, idx: u8, delta: u64 },
    CellOutput { row: u8, idx: u8, delta: u64 },
    /// which: 0 bit, 1 high bit, 2 product column (1, 2 on arity-4 shapes only)
    CellBit { row: u8, which: u8, delta: u64 },
    CellSum { row: u8, delta: u64 },
}

impl Pert {
    fn name(&self) -> &'static str {
        match self {
            Pert::None => "untouched",
            Pert::OpInput { .. } => "op-input",
            Pert::OpBit { .. } => "op-bit",
            Pert::CellInput { .. } => "cell-input",
            Pert::CellOutput { .. } => "cell-output",
            Pert::CellBit { .. } => "cell-bit",
            Pert::CellSum { .. } => "cell-index-sum",
        }
    }
    fn row(&self) -> Option<usize> {
        match self {
            Pert::None => None,
            Pert::OpInput { row, .. }
            | Pert::OpBit { row, .. }
            | Pert::CellInput { row, .. }
            | Pert::CellOutput { row, .. }
            | Pert::CellBit { row, .. }
            | Pert::CellSum { row, .. } => Some(*row as usize),
        }
    }
}

#[derive(Clone, Debug, Serialize, Deserialize, Hash)]
pub struct PermCase {
    pub air: u8,
    pub rows: Vec<RowSpec>,
    pub seed: u64,
    pub pert: Pert,
}

#[derive(Clone, Copy, Debug)]
pub struct Shape {
    pub name: &'static str,
    pub d: usize,
    pub width: usize,
    pub width_ext: usize,
    pub rate_ext: usize,
    pub cap_ext: usize,
    pub arity4: bool,
    pub compact: bool,
}

pub const NAIR: usize = 7;
pub const SHAPES: [Shape; NAIR] = [
    Shape { name: "p2-babybear-d4-w16", d: 4, width: 16, width_ext: 4, rate_ext: 2, cap_ext: 2, arity4: false, compact: false },
    Shape { name: "p2-koalabear-d4-w32-arity4", d: 4, width: 32, width_ext: 8, rate_ext: 6, cap_ext: 2, arity4: true, compact: false },
    Shape { name: "p2-babybear-d1-w16-compact", d: 1, width: 16, width_ext: 16, rate_ext: 8, cap_ext: 8, arity4: false, compact: true },
    Shape { name: "p2-koalabear-d4-w16", d: 4, width: 16, width_ext: 4, rate_ext: 2, cap_ext: 2, arity4: false, compact: false },
    Shape { name: "p1-babybear-d4-w16", d: 4, width: 16, width_ext: 4, rate_ext: 2, cap_ext: 2, arity4: false, compact: false },
    Shape { name: "p1-koalabear-d1-w16-compact", d: 1, width: 16, width_ext: 16, rate_ext: 8, cap_ext: 8, arity4: false, compact: true },
    Shape { name: "p2-babybear-d4-w32-arity4", d: 4, width: 32, width_ext: 8, rate_ext: 6, cap_ext: 2, arity4: true, compact: false },
];

/// Reference-model row (superset of the two circuit row types).
#[derive(Clone, Debug)]
pub struct MOp<F> {
    pub new_start: bool,
    pub merkle: bool,
    pub bit: bool,
    pub bit2: bool,
    pub sum: F,
    pub input: Vec<F>,
    pub in_ctl: Vec<bool>,
    pub mmcs_ctl: bool,
}

type Evaluator<F> = Box<dyn Fn(&[Vec<F>], &[Vec<F>]) -> Vec<RowEval<F>>>;
type Built<F> = (Vec<Vec<F>>, Vec<Vec<F>>, Evaluator<F>);

fn mat_rows<F: p3_field::Field>(m: &RowMajorMatrix<F>) -> Vec<Vec<F>> {
    (0..m.height()).map(|r| m.row_slice(r).unwrap().to_vec()).collect()
}

macro_rules! p2_build {
    ($ops:expr, $sh:expr, $F:ty, $Params:ty, $Air:ty, $IL:expr, $OL:expr) => {{
        type Ch = BinomialExtensionField<$F, 4>;
        let sh: Shape = $sh;
        let rows: Vec<Poseidon2CircuitRow<$F>> = $ops
            .iter()
            .enumerate()
            .map(|(i, o)| Poseidon2CircuitRow {
                new_start: o.new_start,
                merkle_path: o.merkle,
                mmcs_bit: o.bit,
                mmcs_bit2: o.bit2,
                mmcs_index_sum: o.sum,
                input_values: o.input.clone(),
                in_ctl: o.in_ctl.clone(),
                input_indices: (0..sh.width_ext as u32).map(|l| 7 * i as u32 + l).collect(),
                out_ctl: vec![i % 2 == 0; sh.rate_ext],
                output_indices: (0..sh.rate_ext as u32).map(|l| 500 + 5 * i as u32 + l).collect(),
                mmcs_index_sum_idx: 900 + i as u32,
                mmcs_ctl_enabled: o.mmcs_ctl,
            })
            .collect();
        let constants = <$Params>::round_constants();
        let prep = p3_poseidon2_circuit_air::extract_preprocessed_from_operations::<$IL, $OL, $F, $F>(
            &rows,
            sh.d as u32,
            sh.d,
        );
        let air = <$Air>::new_with_preprocessed(constants.clone(), prep);
        let main = air.generate_trace_rows(&rows, &constants, 0);
        let prep_m = BaseAir::<$F>::preprocessed_trace(&air).expect("preprocessed");
        let ev: Evaluator<$F> = Box::new(move |m, p| eval_rows::<$F, Ch, _>(&air, m, p));
        (mat_rows(&main), mat_rows(&prep_m), ev)
    }};
}

macro_rules! p1_build {
    ($ops:expr, $sh:expr, $F:ty, $Params:ty, $Air:ty, $IL:expr, $OL:expr, $cache:ident) => {{
        type Ch = BinomialExtensionField<$F, 4>;
        let sh: Shape = $sh;
        let rows: Vec<Poseidon1CircuitRow<$F>> = $ops
            .iter()
            .enumerate()
            .map(|(i, o)| Poseidon1CircuitRow {
                new_start: o.new_start,
                merkle_path: o.merkle,
                mmcs_bit: o.bit,
                mmcs_index_sum: o.sum,
                input_values: o.input.clone(),
                in_ctl: o.in_ctl.clone(),
                input_indices: (0..sh.width_ext as u32).map(|l| 7 * i as u32 + l).collect(),
                out_ctl: vec![i % 2 == 0; sh.rate_ext],
                output_indices: (0..sh.rate_ext as u32).map(|l| 500 + 5 * i as u32 + l).collect(),
                mmcs_index_sum_idx: 900 + i as u32,
                mmcs_ctl_enabled: o.mmcs_ctl,
            })
            .collect();
        static $cache: OnceLock<p3_poseidon1_circuit_air::OptimizedConstants<$F, 16>> = OnceLock::new();
        let (full, partial) = $cache.get_or_init(<$Params>::round_constants).clone();
        let prep = p3_poseidon1_circuit_air::extract_preprocessed_from_operations::<$IL, $OL, $F, $F>(
            &rows,
            sh.d as u32,
            sh.d,
        );
        let air = <$Air>::new_with_preprocessed(full.clone(), partial.clone(), prep);
        let main = air.generate_trace_rows(&rows, &full, &partial, 0);
        let prep_m = BaseAir::<$F>::preprocessed_trace(&air).expect("preprocessed");
        let ev: Evaluator<$F> = Box::new(move |m, p| eval_rows::<$F, Ch, _>(&air, m, p));
        (mat_rows(&main), mat_rows(&prep_m), ev)
    }};
}

fn build_bb(air: usize, ops: &[MOp<BabyBear>]) -> Built<BabyBear> {
    use p3_poseidon2_circuit_air as p2;
    match air {
        0 => p2_build!(ops, SHAPES[0], BabyBear, p2::BabyBearD4Width16, p2::Poseidon2CircuitAirBabyBearD4Width16, 4, 2),
        2 => p2_build!(ops, SHAPES[2], BabyBear, p2::BabyBearD1Width16, p2::Poseidon2CircuitAirBabyBearD1Width16, 16, 8),
        4 => {
            use p3_poseidon1_circuit_air as p1;
            p1_build!(ops, SHAPES[4], BabyBear, p1::BabyBearD4Width16, p1::Poseidon1CircuitAirBabyBearD4Width16, 4, 2, P1_BB)
        }
        _ => p2_build!(ops, SHAPES[6], BabyBear, p2::BabyBearD4Width32, p2::Poseidon2CircuitAirBabyBearD4Width32, 8, 6),
    }
}

fn build_kb(air: usize, ops: &[MOp<KoalaBear>]) -> Built<KoalaBear> {
    use p3_poseidon2_circuit_air as p2;
    match air {
        1 => p2_build!(ops, SHAPES[1], KoalaBear, p2::KoalaBearD4Width32, p2::Poseidon2CircuitAirKoalaBearD4Width32, 8, 6),
        3 => p2_build!(ops, SHAPES[3], KoalaBear, p2::KoalaBearD4Width16, p2::Poseidon2CircuitAirKoalaBearD4Width16, 4, 2),
        _ => {
            use p3_poseidon1_circuit_air as p1;
            p1_build!(ops, SHAPES[5], KoalaBear, p1::KoalaBearD1Width16, p1::Poseidon1CircuitAirKoalaBearD1Width16, 16, 8, P1_KB)
        }
    }
}

fn native_bb(air: usize, x: &[BabyBear]) -> Vec<BabyBear> {
    match air {
        0 | 2 => {
            let mut s: [BabyBear; 16] = x.try_into().unwrap();
            p3_baby_bear::default_babybear_poseidon2_16().permute_mut(&mut s);
            s.to_vec()
        }
        4 => {
            let mut s: [BabyBear; 16] = x.try_into().unwrap();
            p3_baby_bear::default_babybear_poseidon1_16().permute_mut(&mut s);
            s.to_vec()
        }
        _ => {
            let mut s: [BabyBear; 32] = x.try_into().unwrap();
            p3_baby_bear::default_babybear_poseidon2_32().permute_mut(&mut s);
            s.to_vec()
        }
    }
}

fn native_kb(air: usize, x: &[KoalaBear]) -> Vec<KoalaBear> {
    match air {
        1 => {
            let mut s: [KoalaBear; 32] = x.try_into().unwrap();
            p3_koala_bear::default_koalabear_poseidon2_32().permute_mut(&mut s);
            s.to_vec()
        }
        3 => {
            let mut s: [KoalaBear; 16] = x.try_into().unwrap();
            p3_koala_bear::default_koalabear_poseidon2_16().permute_mut(&mut s);
            s.to_vec()
        }
        _ => {
            let mut s: [KoalaBear; 16] = x.try_into().unwrap();
            p3_koala_bear::default_koalabear_poseidon1_16().permute_mut(&mut s);
            s.to_vec()
        }
    }
}

pub const RULE: &str = "row sequences (1-6 rows + new-start fillers to a power of two) of sponge / Merkle left,right / \
arity-4 position / boundary / witness-fed-limb rows over 7 Poseidon2/Poseidon1 circuit AIR shapes (D=4 arity-2, D=4 \
arity-4, D=1 compact), executed with the native permutation and laid out by the repo's trace generator, then one \
semantic column perturbed (op-level input / bit with honest regeneration; cell-level input, output, bit, high bit, \
product, index accumulator); oracle: evaluation rows with a failing constraint == rows on which out != Perm(in), a \
bit is not boolean, or the next row's chaining / placement / accumulator relation fails on the final cells; \
non-trivial = some row must be rejected; distinct on (shape, mode of the target row, perturbation, index)";

fn perm_check<F: PrimeField64>(
    case: &PermCase,
    air: usize,
    build: fn(usize, &[MOp<F>]) -> Built<F>,
    native: fn(usize, &[F]) -> Vec<F>,
) -> Report {
    let sh = SHAPES[air];
    let (d, w, we, re, ce) = (sh.d, sh.width, sh.width_ext, sh.rate_ext, sh.cap_ext);
    let mut g = Sm(case.seed);
    // ---- reference execution ---------------------------------------------------------
    let n_real = case.rows.len().clamp(1, 6);
    let h = n_real.next_power_of_two().max(2);
    let mut ops: Vec<MOp<F>> = vec![];
    let mut prev_out: Vec<F> = vec![];
    for i in 0..h {
        let filler = RowSpec { new_start: true, merkle: false, pos: 0, in_ctl: 0, mmcs_ctl: false };
        let s = if i < n_real { case.rows.get(i).unwrap_or(&filler) } else { &filler };
        let is_filler = i >= n_real;
        let ns = s.new_start || i == 0;
        let mk = s.merkle;
        let mut in_ctl: Vec<bool> = (0..we).map(|l| (s.in_ctl >> (l % 16)) & 1 == 1).collect();
        if sh.compact {
            // capacity limbs are never witness-fed in the compact layout
            for c in in_ctl.iter_mut().skip(re) {
                *c = false;
            }
        }
        let mut input: Vec<F> = if is_filler { vec![F::ZERO; w] } else { g.vec::<F>(w, 0) };
        if sh.compact && ns && !mk {
            for x in input.iter_mut().skip(re * d) {
                *x = F::ZERO;
            }
        }
        let bit = s.pos & 1 == 1;
        let bit2 = sh.arity4 && s.pos & 2 == 2;
        if !ns {
            if !mk {
                for l in 0..we {
                    let chained = if sh.compact && l >= re { true } else { !in_ctl[l] };
                    if chained {
                        input[l * d..(l + 1) * d].copy_from_slice(&prev_out[l * d..(l + 1) * d]);
                    }
                }
            } else if sh.arity4 {
                let pos = (s.pos & 3) as usize;
                for sl in 0..ce {
                    let gsl = pos * ce + sl;
                    if !in_ctl[gsl] {
                        input[gsl * d..(gsl + 1) * d].copy_from_slice(&prev_out[sl * d..(sl + 1) * d]);
                    }
                }
            } else {
                for i2 in 0..re {
                    if !in_ctl[i2] {
                        let dst = if bit { re + i2 } else { i2 };
                        input[dst * d..(dst + 1) * d].copy_from_slice(&prev_out[i2 * d..(i2 + 1) * d]);
                    }
                }
            }
        }
        prev_out = native(air, &input);
        ops.push(MOp {
            new_start: ns,
            merkle: mk,
            bit,
            bit2,
            sum: F::from_u64(g.below(1 << 20)),
            input,
            in_ctl,
            mmcs_ctl: s.mmcs_ctl,
        });
    }
    // ---- op-level perturbation ---------------------------------------------------------
    let trow = case.pert.row().map(|r| r % n_real);
    match &case.pert {
        Pert::OpInput { idx, delta, .. } => {
            let r = trow.unwrap();
            let j = *idx as usize % w;
            ops[r].input[j] += F::from_u64(1 + delta % (F::ORDER_U64 - 1));
        }
        Pert::OpBit { which, .. } => {
            let r = trow.unwrap();
            if sh.arity4 && which % 2 == 1 {
                ops[r].bit2 = !ops[r].bit2;
            } else {
                ops[r].bit = !ops[r].bit;
            }
        }
        _ => {}
    }
    let (mut main, prep, ev) = build(air, &ops);
    let width = main[0].len();
    let extra = if sh.arity4 { 4 } else { 2 };
    let pn = width - extra;
    let (c_bit, c_bit2, c_prod, c_sum) = if sh.arity4 {
        (pn, pn + 1, pn + 2, pn + 3)
    } else {
        (pn, usize::MAX, usize::MAX, pn + 1)
    };
    let mode_of = |r: usize| -> String {
        let o = &ops[r];
        match (o.new_start, o.merkle) {
            (true, false) => "sponge-start".into(),
            (true, true) => "merkle-start".into(),
            (false, false) => "sponge-chained".into(),
            (false, true) if sh.arity4 => format!("merkle-arity4-pos{}", o.bit as u8 + 2 * o.bit2 as u8),
            (false, true) => (if o.bit { "merkle-right" } else { "merkle-left" }).into(),
        }
    };
    let mut classes = vec![format!("air:{}", sh.name), format!("pert:{}", case.pert.name()), format!("height:{h}")];
    for r in 0..n_real {
        classes.push(format!("row:{}", mode_of(r)));
        if ops[r].in_ctl.iter().any(|&c| c) && !ops[r].new_start {
            classes.push("row:has-witness-fed-limb".into());
        }
    }
    let fail = |classes: &Vec<String>, sig: String, msg: String| {
        let mut r = Report::fail(sig, msg);
        r.classes = classes.clone();
        r.classes.sort();
        r.classes.dedup();
        r
    };
    // generated trace vs reference execution (inputs where written, outputs native)
    if main.len() != h || prep.len() != h {
        return fail(&classes, format!("C11/perm/shape-mismatch:{}", sh.name), format!("main {} prep {} expected {h}", main.len(), prep.len()));
    }
    for r in 0..h {
        if main[r][..w] != ops[r].input[..] || main[r][pn - w..pn] != native(air, &ops[r].input)[..] {
            return fail(
                &classes,
                format!("C11/perm/generated-trace-differs-from-native-permutation:{}", sh.name),
                format!("row {r}: input/output columns of the generated trace are not (input, NativePerm(input))"),
            );
        }
    }
    // ---- cell-level perturbation ---------------------------------------------------------
    let nz = |delta: &u64| F::from_u64(1 + delta % (F::ORDER_U64 - 1));
    let mut idx_key = 0usize;
    match &case.pert {
        Pert::CellInput { idx, delta, .. } => {
            idx_key = *idx as usize % w;
            main[trow.unwrap()][idx_key] += nz(delta);
        }
        Pert::CellOutput { idx, delta, .. } => {
            idx_key = *idx as usize % w;
            main[trow.unwrap()][pn - w + idx_key] += nz(delta);
        }
        Pert::CellBit { which, delta, .. } => {
            let col = match (sh.arity4, which % 3) {
                (true, 1) => c_bit2,
                (true, 2) => c_prod,
                _ => c_bit,
            };
            idx_key = col - pn;
            // delta 0: boolean flip; otherwise add a non-zero amount (usually leaves {0,1})
            let cell = &mut main[trow.unwrap()][col];
            if *delta == 0 {
                *cell = F::ONE - *cell;
            } else {
                *cell += nz(delta);
            }
        }
        Pert::CellSum { delta, .. } => main[trow.unwrap()][c_sum] += nz(delta),
        Pert::OpInput { idx, .. } => idx_key = *idx as usize % w,
        Pert::OpBit { which, .. } => idx_key = (*which % 2) as usize,
        Pert::None => {}
    }
    // ---- oracle on the final cells ---------------------------------------------------------
    let mut expect = std::collections::BTreeSet::new();
    let mut why = std::collections::BTreeMap::new();
    let is_bool = |x: F| x == F::ZERO || x == F::ONE;
    for r in 0..h {
        let row = &main[r];
        let mut bad: Vec<&'static str> = vec![];
        if native(air, &row[..w])[..] != row[pn - w..pn] {
            bad.push("out != Perm(in)");
        }
        if !is_bool(row[c_bit]) {
            bad.push("bit not boolean");
        }
        if sh.arity4 {
            if !is_bool(row[c_bit2]) {
                bad.push("high bit not boolean");
            }
            if row[c_prod] != row[c_bit] * row[c_bit2] {
                bad.push("product column");
            }
        }
        if r + 1 < h {
            let nx = &main[r + 1];
            let o = &ops[r + 1];
            let out = &row[pn - w..pn];
            let inn = &nx[..w];
            let limb_eq = |dst: usize, src: usize| (0..d).all(|k| inn[dst * d + k] == out[src * d + k]);
            if !o.new_start && !o.merkle {
                for l in 0..we {
                    let chained = if sh.compact && l >= re { true } else { !o.in_ctl[l] };
                    if chained && !limb_eq(l, l) {
                        bad.push("sponge chaining");
                    }
                }
            }
            if sh.compact && o.new_start && !o.merkle && inn[re * d..].iter().any(|x| *x != F::ZERO) {
                bad.push("fresh sponge capacity not zero");
            }
            if !o.new_start && o.merkle {
                let b0 = nx[c_bit];
                if sh.arity4 {
                    let b1 = nx[c_bit2];
                    let p = nx[c_prod];
                    let hsel = [F::ONE - b0 - b1 + p, b0 - p, b1 - p, p];
                    for (k, hk) in hsel.iter().enumerate() {
                        if *hk == F::ZERO {
                            continue;
                        }
                        for sl in 0..ce {
                            let gsl = k * ce + sl;
                            if !o.in_ctl[gsl] && !limb_eq(gsl, sl) {
                                bad.push("arity-4 digest placement");
                            }
                        }
                    }
                    if nx[c_sum] != row[c_sum] * F::from_u64(4) + b0 + b1.double() {
                        bad.push("base-4 index accumulator");
                    }
                } else {
                    for i2 in 0..re {
                        if o.in_ctl[i2] {
                            continue;
                        }
                        if b0 != F::ONE && !limb_eq(i2, i2) {
                            bad.push("merkle left placement");
                        }
                        if b0 != F::ZERO && !limb_eq(re + i2, i2) {
                            bad.push("merkle right placement");
                        }
                    }
                    if nx[c_sum] != row[c_sum].double() + b0 {
                        bad.push("index accumulator");
                    }
                }
            }
        }
        if r + 1 == h && sh.compact {
            // the one constraint that also holds on the wrap-around window (last row -> row 0):
            // row 0 always starts a chain and has no predecessor, so the capacity inputs of a
            // fresh sponge in row 0 are forced to (tag = 0, 0, ...) through this window
            let o = &ops[0];
            let inn = &main[0][..w];
            if o.new_start && !o.merkle && inn[re * d..].iter().any(|x| *x != F::ZERO) {
                bad.push("fresh sponge capacity not zero (wrap-around window)");
            }
        }
        if !bad.is_empty() {
            expect.insert(r);
            why.insert(r, bad);
        }
    }
    let res = ev(&main, &prep);
    let got: std::collections::BTreeSet<usize> =
        res.iter().enumerate().filter(|(_, e)| e.failed).map(|(r, _)| r).collect();
    let must_reject = !expect.is_empty();
    let tmode = trow.map(|r| mode_of(r)).unwrap_or_else(|| "-".into());
    classes.push(format!("expect:{}", if must_reject { "reject" } else { "accept" }));
    classes.push(format!(
        "pert:{}@{}->{}",
        case.pert.name(),
        tmode,
        if must_reject { "invalid" } else { "still-valid" }
    ));
    hist(format!(
        "perm:{}|{}|-|-|{}-{}",
        sh.name,
        tmode,
        case.pert.name(),
        if must_reject { "invalid" } else { "still-valid" }
    ));
    classes.sort();
    classes.dedup();
    if case.pert == Pert::None && must_reject {
        // the row sequence was executed by the reference model, so the honestly generated trace
        // must satisfy every relation: a cell the generator derives (index accumulator, product
        // column, permutation columns) is wrong
        let (r, b) = why.iter().next().unwrap();
        return fail(
            &classes,
            format!("C11/perm/generated-trace-of-valid-rows-violates-relation:{}:{}", sh.name, b[0].replace(' ', "-")),
            format!(
                "untouched trace from generate_trace_rows: row {r} violates {:?}; modes {:?}; AIR failing rows {:?}",
                b,
                (0..h).map(mode_of).collect::<Vec<_>>(),
                got
            ),
        );
    }
    if got != expect {
        let r = *got.symmetric_difference(&expect).next().unwrap();
        let dir = if expect.contains(&r) { "accepts-invalid-row" } else { "rejects-valid-row" };
        let reason = why.get(&r).map(|b| b[0]).unwrap_or("-").replace(' ', "-");
        // accepts-invalid: name the perturbation and the broken relation; rejects-valid: name the
        // modes of the row pair on which a constraint fired
        let detail = if expect.contains(&r) {
            format!("{}:{}", case.pert.name(), reason)
        } else {
            format!("{}->{}", mode_of(r), if r + 1 < h { mode_of(r + 1) } else { "wrap".into() })
        };
        return fail(
            &classes,
            format!("C11/perm/{dir}:{}:{}", sh.name, detail),
            format!(
                "evaluation rows with failing constraints {:?} != rows the model rejects {:?} ({:?}); target row {:?} \
                 mode {tmode}; modes {:?}; failures at row {r}: {}",
                got,
                expect,
                why,
                trow,
                (0..h).map(mode_of).collect::<Vec<_>>(),
                res[r].failures.chars().take(300).collect::<String>()
            ),
        );
    }
    Report::pass()
        .classes(classes)
        .nontrivial(must_reject)
        .key(hash_of(&(air, tmode, case.pert.name(), idx_key)))
}

pub fn oracle(case: &PermCase) -> Report {
    let air = case.air as usize % NAIR;
    match air {
        0 | 2 | 4 | 6 => perm_check::<BabyBear>(case, air, build_bb, native_bb),
        _ => perm_check::<KoalaBear>(case, air, build_kb, native_kb),
    }
}

fn spec_strategy() -> impl Strategy<Value = RowSpec> {
    (
        prop_oneof![2 => Just(false), 1 => Just(true)],
        any::<bool>(),
        0u8..4,
        prop_oneof![3 => Just(0u16), 1 => any::<u16>(), 1 => (0u32..16).prop_map(|b| 1u16 << b)],
        any::<bool>(),
    )
        .prop_map(|(new_start, merkle, pos, in_ctl, mmcs_ctl)| RowSpec {
            new_start,
            merkle,
            pos,
            in_ctl,
            mmcs_ctl,
        })
}

pub fn strategy() -> impl Strategy<Value = PermCase> {
    let delta = || prop_oneof![Just(0u64), any::<u64>()];
    let pert = prop_oneof![
        2 => Just(Pert::None),
        3 => (0u8..6, any::<u8>(), delta()).prop_map(|(row, idx, delta)| Pert::OpInput { row, idx, delta }),
        2 => (0u8..6, 0u8..2).prop_map(|(row, which)| Pert::OpBit { row, which }),
        2 => (0u8..6, any::<u8>(), delta()).prop_map(|(row, idx, delta)| Pert::CellInput { row, idx, delta }),
        2 => (0u8..6, any::<u8>(), delta()).prop_map(|(row, idx, delta)| Pert::CellOutput { row, idx, delta }),
        2 => (0u8..6, 0u8..3, delta()).prop_map(|(row, which, delta)| Pert::CellBit { row, which, delta }),
        2 => (0u8..6, delta()).prop_map(|(row, delta)| Pert::CellSum { row, delta }),
    ];
    (
        0u8..NAIR as u8,
        proptest::collection::vec(spec_strategy(), 1..=6),
        any::<u64>(),
        pert,
    )
        .prop_map(|(air, rows, seed, pert)| PermCase { air, rows, seed, pert })
}

/// Every semantic column of every row of a few fixed scenarios, per shape.
pub fn enumeration(seed: u64) -> Vec<PermCase> {
    let sp = |new_start: bool, merkle: bool, pos: u8, in_ctl: u16| RowSpec {
        new_start,
        merkle,
        pos,
        in_ctl,
        mmcs_ctl: merkle,
    };
    let mut out = vec![];
    for air in 0..NAIR {
        let sh = SHAPES[air];
        let mut scenarios: Vec<Vec<RowSpec>> = vec![
            // sponge chain, then a Merkle-left step, then sponge again (the unit-test shape)
            vec![sp(true, false, 0, 0), sp(false, false, 1, 0), sp(false, true, 0, 0), sp(false, false, 0, 0)],
            // Merkle chain: start, right, left, right
            vec![sp(true, true, 1, 0), sp(false, true, 1, 0), sp(false, true, 0, 0), sp(false, true, 1, 0)],
            // boundaries: two one-row chains and a chained row with a witness-fed limb
            vec![sp(true, false, 0, 0), sp(true, true, 0, 0), sp(false, true, 1, 1), sp(false, false, 0, 2)],
        ];
        // a second sponge chain starting mid-table (fresh-capacity rule of the compact layout)
        scenarios.push(vec![sp(true, false, 0, 0), sp(false, false, 0, 0), sp(true, false, 1, 0), sp(false, false, 0, 4)]);
        if sh.arity4 {
            scenarios.push(vec![sp(true, true, 0, 0), sp(false, true, 3, 0), sp(false, true, 2, 0), sp(false, true, 1, 0)]);
            scenarios.push(vec![sp(true, true, 2, 0), sp(false, true, 0, 0), sp(false, true, 1, 4), sp(false, true, 3, 0)]);
        }
        for (si, sc) in scenarios.iter().enumerate() {
            let mk = |pert: Pert, salt: usize| PermCase {
                air: air as u8,
                rows: sc.clone(),
                seed: hash_of(&(seed, air, si, salt)),
                pert,
            };
            out.push(mk(Pert::None, 0));
            for row in 0..sc.len() as u8 {
                for idx in 0..sh.width as u8 {
                    let delta = if idx % 2 == 0 { 0 } else { hash_of(&(seed, idx)) };
                    out.push(mk(Pert::OpInput { row, idx, delta }, idx as usize));
                    out.push(mk(Pert::CellInput { row, idx, delta }, idx as usize));
                    out.push(mk(Pert::CellOutput { row, idx, delta }, idx as usize));
                }
                for which in 0..if sh.arity4 { 3u8 } else { 1 } {
                    for delta in [0u64, 1, hash_of(&(seed, which))] {
                        out.push(mk(Pert::CellBit { row, which, delta }, which as usize));
                    }
                }
                for which in 0..if sh.arity4 { 2u8 } else { 1 } {
                    out.push(mk(Pert::OpBit { row, which }, which as usize));
                }
                for delta in [0u64, hash_of(&(seed, row))] {
                    out.push(mk(Pert::CellSum { row, delta }, 0));
                }
            }
        }
    }
    out
}

pub fn run(ctx: &Ctx) {
    ctx.assume(
        "permutation tables: on the last->first row pair only the chain-start capacity rule of the compact D=1 \
         layout applies (row 0 has no predecessor); every other chaining constraint is gated by is_transition",
    );
    ctx.assume(
        "compact D=1 layout: capacity limbs are never witness-fed and the capacity length tag column is 0 \
         (what extract_preprocessed_from_operations emits)",
    );
    for rep in 0..ctx.tier.pick(1, 4) as u64 {
        let en = enumeration(ctx.seed.wrapping_add(rep.wrapping_mul(0x9E37_79B9)));
        ctx.enumerate("perm-enum", RULE, en, false, oracle);
    }
    ctx.explore("perm-rows", RULE, ctx.tier.pick(36_000, 1_000_000), strategy, oracle);
}
