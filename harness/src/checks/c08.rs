//! C08 — in-circuit Merkle (MMCS) opening verification agrees with native.
//!
//! Differential check.  A batch of matrices is committed with the *native*
//! `p3_merkle_tree::MerkleTreeMmcs` (plain, hiding/salted, wrapped in `ExtensionMmcs`), an
//! opening is produced natively, at most one fault is applied to the opening tuple
//! `(cap, dimensions, index, opened values, salts, siblings)` and the very same tuple is
//! handed to
//!   * the native `verify_batch` (oracle), and
//!   * the circuit built by `p3_recursion::pcs::verify_batch_circuit{,_from_extension_opened}
//!     {,_arity4}` executed by `CircuitRunner` (code under test).
//! Property: runner Ok  <=>  native Ok.  Honest openings must be accepted by both.
//!
//! Conventions of the circuit side (taken from the repo's own tests and
//! `set_*_mmcs_private_data` helpers): opened base values are lifted `EF::from(base)` public
//! inputs, index bits are `log2_ceil(max declared height)` little-endian public inputs, cap
//! entries are public inputs (packed D-per-limb, or one lifted limb per digest word for the
//! D=1 permutation configurations), salts are private inputs, sibling digests are
//! non-primitive-op private data.  An opening whose sibling count differs from the number of
//! op-ids returned by the builder cannot be supplied to the runner; like the repo's
//! `set_fri_mmcs_private_data` this is counted as a rejection ("shape:sibling-count").

use p3_baby_bear::{BabyBear, Poseidon2BabyBear, default_babybear_poseidon2_16, default_babybear_poseidon2_32};
use p3_circuit::ops::{Poseidon2Config, generate_poseidon2_trace, generate_recompose_trace, perm_private_data};
use p3_circuit::{Circuit, CircuitBuilder, NonPrimitiveOpId};
use p3_commit::{BatchOpeningRef, ExtensionMmcs, Mmcs};
use p3_field::extension::{BinomialExtensionField, QuinticTrinomialExtensionField};
use p3_field::{BasedVectorSpace, ExtensionField, PrimeCharacteristicRing, PrimeField64, TwoAdicField};
use p3_koala_bear::{KoalaBear, Poseidon2KoalaBear, default_koalabear_poseidon2_16, default_koalabear_poseidon2_32};
use p3_matrix::Dimensions;
use p3_matrix::dense::RowMajorMatrix;
use p3_merkle_tree::{MerkleTreeError, MerkleTreeHidingMmcs, MerkleTreeMmcs};
use p3_poseidon2_circuit_air::{
    BabyBearD4Width16, BabyBearD4Width32, KoalaBearD1Width16, KoalaBearD1Width32, KoalaBearD4Width16,
    KoalaBearD4Width32,
};
use p3_recursion::pcs::{
    verify_batch_circuit, verify_batch_circuit_arity4, verify_batch_circuit_from_extension_opened,
    verify_batch_circuit_from_extension_opened_arity4,
};
use p3_symmetric::{MerkleCap, PaddingFreeSponge, TruncatedPermutation};
use p3_test_utils::LiftPermToQuintic;
use p3_util::log2_ceil_usize;
use proptest::prelude::*;
use rand::rngs::SmallRng;
use rand::{Rng, SeedableRng};
use serde::{Deserialize, Serialize};

use crate::fw::{Ctx, Report, catch, hash_of, pick, sig_of_panic};

pub const DIGEST: usize = 8;
pub const SALT: usize = 4;
type Dig<F> = [F; DIGEST];

// ------------------------------------------------------------------------------------------
// configurations
// ------------------------------------------------------------------------------------------

/// One (field, permutation, arity) configuration: native MMCS types + circuit set-up.
pub trait Mc: 'static {
    type F: PrimeField64 + TwoAdicField + Send + Sync;
    type EF: ExtensionField<Self::F> + BasedVectorSpace<Self::F> + Send + Sync;
    /// plain native MMCS
    type M: Mmcs<Self::F, Proof = Vec<Dig<Self::F>>, Commitment = MerkleCap<Self::F, Dig<Self::F>>, Error = MerkleTreeError>;
    /// hiding native MMCS (SALT salt elements per leaf)
    type HM: Mmcs<
            Self::F,
            Proof = (Vec<Vec<Self::F>>, Vec<Dig<Self::F>>),
            Commitment = MerkleCap<Self::F, Dig<Self::F>>,
            Error = MerkleTreeError,
        >;
    const NAME: &'static str;
    const ARITY: usize;
    /// D=1 permutation inside a degree>1 circuit field: digest words are one lifted limb each
    const LIFTED: bool;
    fn cfg() -> Poseidon2Config;
    fn mmcs(cap_height: usize) -> Self::M;
    fn hmmcs(cap_height: usize, seed: u64) -> Self::HM;
    /// native per-level compression arity from the leaves to the root (no cap), integer work only
    fn full_schedule(dims: &[Dimensions]) -> Vec<usize>;
    fn enable(b: &mut CircuitBuilder<Self::EF>);
}

type KbPerm16 = Poseidon2KoalaBear<16>;
type KbPerm32 = Poseidon2KoalaBear<32>;
type BbPerm16 = Poseidon2BabyBear<16>;
type BbPerm32 = Poseidon2BabyBear<32>;
type H16<P> = PaddingFreeSponge<P, 16, 8, 8>;
type C16<P> = TruncatedPermutation<P, 2, 8, 16>;
type H32<P> = PaddingFreeSponge<P, 32, 24, 8>;
type C32<P> = TruncatedPermutation<P, 4, 8, 32>;
type M2<F, P> = MerkleTreeMmcs<F, F, H16<P>, C16<P>, 2, 8>;
type HM2<F, P> = MerkleTreeHidingMmcs<F, F, H16<P>, C16<P>, SmallRng, 2, 8, SALT>;
type M4<F, P> = MerkleTreeMmcs<F, F, H32<P>, C32<P>, 4, 8>;
type HM4<F, P> = MerkleTreeHidingMmcs<F, F, H32<P>, C32<P>, SmallRng, 4, 8, SALT>;

pub struct KbD4W16;
pub struct BbD4W16;
pub struct KbD1W16Q;
pub struct KbD4W32;
pub struct BbD4W32;
pub struct KbD1W32Q;

macro_rules! native_a2 {
    ($perm:expr) => {
        fn full_schedule(dims: &[Dimensions]) -> Vec<usize> {
            Self::mmcs(0).proof_arity_schedule(dims).unwrap_or_default()
        }
        fn mmcs(cap_height: usize) -> Self::M {
            let p = $perm;
            MerkleTreeMmcs::new(PaddingFreeSponge::new(p.clone()), TruncatedPermutation::new(p), cap_height)
        }
        fn hmmcs(cap_height: usize, seed: u64) -> Self::HM {
            let p = $perm;
            MerkleTreeHidingMmcs::new(
                PaddingFreeSponge::new(p.clone()),
                TruncatedPermutation::new(p),
                cap_height,
                SmallRng::seed_from_u64(seed),
            )
        }
    };
}

impl Mc for KbD4W16 {
    type F = KoalaBear;
    type EF = BinomialExtensionField<KoalaBear, 4>;
    type M = M2<KoalaBear, KbPerm16>;
    type HM = HM2<KoalaBear, KbPerm16>;
    const NAME: &'static str = "kb-d4-w16";
    const ARITY: usize = 2;
    const LIFTED: bool = false;
    fn cfg() -> Poseidon2Config {
        Poseidon2Config::KOALA_BEAR_D4_W16
    }
    native_a2!(default_koalabear_poseidon2_16());
    fn enable(b: &mut CircuitBuilder<Self::EF>) {
        b.enable_poseidon2_perm::<KoalaBearD4Width16, _>(
            generate_poseidon2_trace::<Self::EF, KoalaBearD4Width16>,
            default_koalabear_poseidon2_16(),
        );
        b.enable_recompose::<Self::F>(generate_recompose_trace::<Self::F, Self::EF>);
    }
}

impl Mc for BbD4W16 {
    type F = BabyBear;
    type EF = BinomialExtensionField<BabyBear, 4>;
    type M = M2<BabyBear, BbPerm16>;
    type HM = HM2<BabyBear, BbPerm16>;
    const NAME: &'static str = "bb-d4-w16";
    const ARITY: usize = 2;
    const LIFTED: bool = false;
    fn cfg() -> Poseidon2Config {
        Poseidon2Config::BABY_BEAR_D4_W16
    }
    native_a2!(default_babybear_poseidon2_16());
    fn enable(b: &mut CircuitBuilder<Self::EF>) {
        b.enable_poseidon2_perm::<BabyBearD4Width16, _>(
            generate_poseidon2_trace::<Self::EF, BabyBearD4Width16>,
            default_babybear_poseidon2_16(),
        );
        b.enable_recompose::<Self::F>(generate_recompose_trace::<Self::F, Self::EF>);
    }
}

impl Mc for KbD1W16Q {
    type F = KoalaBear;
    type EF = QuinticTrinomialExtensionField<KoalaBear>;
    type M = M2<KoalaBear, KbPerm16>;
    type HM = HM2<KoalaBear, KbPerm16>;
    const NAME: &'static str = "kb-d1-w16-quintic";
    const ARITY: usize = 2;
    const LIFTED: bool = true;
    fn cfg() -> Poseidon2Config {
        Poseidon2Config::KOALA_BEAR_D1_W16
    }
    native_a2!(default_koalabear_poseidon2_16());
    fn enable(b: &mut CircuitBuilder<Self::EF>) {
        b.enable_poseidon2_perm_base::<KoalaBearD1Width16, _>(
            generate_poseidon2_trace::<Self::EF, KoalaBearD1Width16>,
            LiftPermToQuintic::<KoalaBear, KbPerm16, 16>::new(default_koalabear_poseidon2_16()),
        );
        b.enable_recompose::<Self::F>(generate_recompose_trace::<Self::F, Self::EF>);
    }
}

macro_rules! native_a4 {
    ($perm:expr) => {
        fn full_schedule(dims: &[Dimensions]) -> Vec<usize> {
            Self::mmcs(0).proof_arity_schedule(dims).unwrap_or_default()
        }
        fn mmcs(cap_height: usize) -> Self::M {
            let p = $perm;
            MerkleTreeMmcs::new(PaddingFreeSponge::new(p.clone()), TruncatedPermutation::new(p), cap_height)
        }
        fn hmmcs(cap_height: usize, seed: u64) -> Self::HM {
            let p = $perm;
            MerkleTreeHidingMmcs::new(
                PaddingFreeSponge::new(p.clone()),
                TruncatedPermutation::new(p),
                cap_height,
                SmallRng::seed_from_u64(seed),
            )
        }
    };
}

impl Mc for KbD4W32 {
    type F = KoalaBear;
    type EF = BinomialExtensionField<KoalaBear, 4>;
    type M = M4<KoalaBear, KbPerm32>;
    type HM = HM4<KoalaBear, KbPerm32>;
    const NAME: &'static str = "kb-d4-w32";
    const ARITY: usize = 4;
    const LIFTED: bool = false;
    fn cfg() -> Poseidon2Config {
        Poseidon2Config::KOALA_BEAR_D4_W32
    }
    native_a4!(default_koalabear_poseidon2_32());
    fn enable(b: &mut CircuitBuilder<Self::EF>) {
        b.enable_poseidon2_perm_width_32::<KoalaBearD4Width32, _>(
            generate_poseidon2_trace::<Self::EF, KoalaBearD4Width32>,
            default_koalabear_poseidon2_32(),
        );
        b.enable_recompose::<Self::F>(generate_recompose_trace::<Self::F, Self::EF>);
    }
}

impl Mc for BbD4W32 {
    type F = BabyBear;
    type EF = BinomialExtensionField<BabyBear, 4>;
    type M = M4<BabyBear, BbPerm32>;
    type HM = HM4<BabyBear, BbPerm32>;
    const NAME: &'static str = "bb-d4-w32";
    const ARITY: usize = 4;
    const LIFTED: bool = false;
    fn cfg() -> Poseidon2Config {
        Poseidon2Config::BABY_BEAR_D4_W32
    }
    native_a4!(default_babybear_poseidon2_32());
    fn enable(b: &mut CircuitBuilder<Self::EF>) {
        b.enable_poseidon2_perm_width_32::<BabyBearD4Width32, _>(
            generate_poseidon2_trace::<Self::EF, BabyBearD4Width32>,
            default_babybear_poseidon2_32(),
        );
        b.enable_recompose::<Self::F>(generate_recompose_trace::<Self::F, Self::EF>);
    }
}

impl Mc for KbD1W32Q {
    type F = KoalaBear;
    type EF = QuinticTrinomialExtensionField<KoalaBear>;
    type M = M4<KoalaBear, KbPerm32>;
    type HM = HM4<KoalaBear, KbPerm32>;
    const NAME: &'static str = "kb-d1-w32-quintic";
    const ARITY: usize = 4;
    const LIFTED: bool = true;
    fn cfg() -> Poseidon2Config {
        Poseidon2Config::KOALA_BEAR_D1_W32
    }
    native_a4!(default_koalabear_poseidon2_32());
    fn enable(b: &mut CircuitBuilder<Self::EF>) {
        b.enable_poseidon2_perm_base_width_32::<KoalaBearD1Width32, _>(
            generate_poseidon2_trace::<Self::EF, KoalaBearD1Width32>,
            LiftPermToQuintic::<KoalaBear, KbPerm32, 32>::new(default_koalabear_poseidon2_32()),
        );
        b.enable_recompose::<Self::F>(generate_recompose_trace::<Self::F, Self::EF>);
    }
}

pub const N_CFG: u8 = 6;

macro_rules! dispatch_cfg {
    ($idx:expr, $C:ident => $e:expr) => {
        match $idx % N_CFG {
            0 => {
                type $C = KbD4W16;
                $e
            }
            1 => {
                type $C = KbD4W32;
                $e
            }
            2 => {
                type $C = BbD4W16;
                $e
            }
            3 => {
                type $C = BbD4W32;
                $e
            }
            4 => {
                type $C = KbD1W16Q;
                $e
            }
            _ => {
                type $C = KbD1W32Q;
                $e
            }
        }
    };
}

// ------------------------------------------------------------------------------------------
// cases
// ------------------------------------------------------------------------------------------

#[derive(Clone, Debug, Serialize, Deserialize, Hash, PartialEq, Eq)]
pub enum Fault {
    None,
    /// add a non-zero base-field delta to coefficient `coef` of opened value (`mat`,`col`)
    Opened { mat: u16, col: u16, coef: u8, delta: u32 },
    /// add a non-zero delta to word `word` of sibling digest `sib`
    Sibling { sib: u16, word: u8, delta: u32 },
    /// flip index bit `bit`
    IndexBit { bit: u8 },
    /// add a non-zero delta to word `word` of cap entry `entry`
    Cap { entry: u16, word: u8, delta: u32 },
    /// add a non-zero delta to salt element (`mat`,`pos`)
    Salt { mat: u16, pos: u8, delta: u32 },
    /// declare another height for matrix `mat`: mode 0 = another rung of the ladder,
    /// 1 = height+1, 2 = height-1
    DimHeight { mat: u16, mode: u8, rung: u8 },
    /// declare another width for matrix `mat`; `adjust` = also resize the opened row
    DimWidth { mat: u16, delta: i8, adjust: bool },
    /// move the last value of matrix `mat`'s row to the front of the next matrix of the same
    /// height (dimensions unchanged): same leaf stream, different row boundary
    ShiftBoundary { mat: u16 },
}

impl Fault {
    fn kind(&self) -> &'static str {
        match self {
            Fault::None => "none",
            Fault::Opened { .. } => "opened",
            Fault::Sibling { .. } => "sibling",
            Fault::IndexBit { .. } => "index-bit",
            Fault::Cap { .. } => "cap",
            Fault::Salt { .. } => "salt",
            Fault::DimHeight { .. } => "dim-height",
            Fault::DimWidth { .. } => "dim-width",
            Fault::ShiftBoundary { .. } => "shift-boundary",
        }
    }
    fn is_dim_lie(&self) -> bool {
        matches!(self, Fault::DimHeight { .. } | Fault::DimWidth { .. } | Fault::ShiftBoundary { .. })
    }
}

#[derive(Clone, Debug, Serialize, Deserialize, Hash)]
pub struct Case {
    /// configuration index (mod N_CFG): 0 kb-d4-w16, 1 kb-d4-w32, 2 bb-d4-w16, 3 bb-d4-w32,
    /// 4 kb-d1-w16-quintic, 5 kb-d1-w32-quintic
    pub cfg: u8,
    /// extension-field leaves (`ExtensionMmcs` / `..._from_extension_opened`)
    pub ext: bool,
    /// hiding (salted) MMCS; only constructible for the arity-2 circuits
    pub hiding: bool,
    /// configured cap height 0..=3 (native shortens it for small trees)
    pub cap_height: u8,
    /// height of the tallest matrix, 1..=64
    pub max_height: u8,
    /// (halvings below the tallest, width); matrix `anchor` is forced to 0 halvings
    pub mats: Vec<(u8, u8)>,
    pub anchor: u16,
    /// 0 = random values, 1 = all zero, 2 = values in {0,1,2}
    pub data_mode: u8,
    pub data_seed: u64,
    /// opened index = pick(index, max_height)
    pub index: u16,
    /// also check the honest opening at every index (<= 32 rows) or at a sample of indices
    pub sweep: bool,
    pub fault: Fault,
}

struct Shape {
    heights: Vec<usize>,
    widths: Vec<usize>,
    max_height: usize,
    cap_height: usize,
    hiding: bool,
    ext: bool,
}

fn shape_of<C: Mc>(c: &Case) -> Shape {
    let max_height = (c.max_height as usize).clamp(1, 64);
    let log = log2_ceil_usize(max_height);
    let n = c.mats.len().clamp(1, 6);
    let anchor = pick(c.anchor, n);
    let mut heights = vec![];
    let mut widths = vec![];
    for (i, &(k, w)) in c.mats.iter().take(n).enumerate() {
        let k = if i == anchor { 0 } else { (k as usize) % (log + 1) };
        heights.push(((max_height - 1) >> k) + 1);
        let wmax = if c.ext { 10 } else { 24 };
        widths.push(1 + (w as usize).saturating_sub(1) % wmax);
    }
    if c.mats.is_empty() {
        heights.push(max_height);
        widths.push(1);
    }
    // `MerkleCap::new` (native) only accepts power-of-two caps: a non-power-of-two tree whose cap
    // layer is a padded, non-power-of-two layer cannot be committed natively either.  Lower the
    // configured cap height until the native cap is constructible (by construction, no rejection).
    let dims: Vec<Dimensions> = heights.iter().zip(&widths).map(|(&height, &width)| Dimensions { width, height }).collect();
    let sched = C::full_schedule(&dims);
    let lw = layer_widths::<C>(&dims);
    let mut cap_height = (c.cap_height % 4) as usize;
    loop {
        let eff = cap_height.min(sched.len());
        let layer = sched.len() - eff;
        let cap_len = sched[layer..].iter().product::<usize>().min(lw[layer]);
        if cap_len.is_power_of_two() || cap_height == 0 {
            break;
        }
        cap_height -= 1;
    }
    Shape {
        heights,
        widths,
        max_height,
        cap_height,
        hiding: c.hiding && C::ARITY == 2,
        ext: c.ext,
    }
}

/// The tuple both verifiers receive.
#[derive(Clone)]
struct Opening<F, EF> {
    cap: Vec<Dig<F>>,
    dims: Vec<Dimensions>,
    index: usize,
    base: Vec<Vec<F>>,
    ext: Vec<Vec<EF>>,
    salts: Option<Vec<Vec<F>>>,
    sibs: Vec<Dig<F>>,
}

fn gen_f<F: PrimeField64>(rng: &mut SmallRng, mode: u8) -> F {
    match mode % 3 {
        0 => F::from_u64(rng.next_u64() % F::ORDER_U64),
        1 => F::ZERO,
        _ => F::from_u64(rng.next_u64() % 3),
    }
}

fn bump<F: PrimeField64>(x: &mut F, delta: u32) {
    // non-zero delta, so the value really changes
    *x += F::from_u64(1 + (delta as u64) % (F::ORDER_U64 - 1));
}

struct Committed<C: Mc> {
    /// honest openings at the requested indices
    openings: Vec<Opening<C::F, C::EF>>,
}

fn commit_and_open<C: Mc>(c: &Case, sh: &Shape, indices: &[usize]) -> Committed<C> {
    let mut rng = SmallRng::seed_from_u64(c.data_seed);
    let dims: Vec<Dimensions> = sh
        .heights
        .iter()
        .zip(&sh.widths)
        .map(|(&height, &width)| Dimensions { width, height })
        .collect();
    let d = <C::EF as BasedVectorSpace<C::F>>::DIMENSION;
    let mut openings = vec![];
    macro_rules! go {
        ($mmcs:expr, $mats:expr, $split:expr, $is_ext:expr) => {{
            let mmcs = $mmcs;
            let (commit, pd) = mmcs.commit($mats);
            for &index in indices {
                let bo = mmcs.open_batch(index, &pd);
                let (salts, sibs) = $split(bo.opening_proof);
                let mut o = Opening {
                    cap: commit.roots().to_vec(),
                    dims: dims.clone(),
                    index,
                    base: vec![],
                    ext: vec![],
                    salts,
                    sibs,
                };
                $is_ext(&mut o, bo.opened_values);
                // the honest opening must be accepted natively (harness self-check)
                openings.push(o);
            }
        }};
    }
    if !sh.ext {
        let mats: Vec<RowMajorMatrix<C::F>> = dims
            .iter()
            .map(|dm| RowMajorMatrix::new((0..dm.height * dm.width).map(|_| gen_f(&mut rng, c.data_mode)).collect(), dm.width))
            .collect();
        let set = |o: &mut Opening<C::F, C::EF>, v: Vec<Vec<C::F>>| o.base = v;
        if sh.hiding {
            go!(C::hmmcs(sh.cap_height, c.data_seed ^ 0x5a17), mats, |p: (Vec<Vec<C::F>>, Vec<Dig<C::F>>)| (Some(p.0), p.1), set);
        } else {
            go!(C::mmcs(sh.cap_height), mats, |p: Vec<Dig<C::F>>| (None, p), set);
        }
    } else {
        let mats: Vec<RowMajorMatrix<C::EF>> = dims
            .iter()
            .map(|dm| {
                RowMajorMatrix::new(
                    (0..dm.height * dm.width)
                        .map(|_| {
                            let cs: Vec<C::F> = (0..d).map(|_| gen_f(&mut rng, c.data_mode)).collect();
                            C::EF::from_basis_coefficients_slice(&cs).unwrap()
                        })
                        .collect(),
                    dm.width,
                )
            })
            .collect();
        let set = |o: &mut Opening<C::F, C::EF>, v: Vec<Vec<C::EF>>| o.ext = v;
        if sh.hiding {
            go!(
                ExtensionMmcs::<C::F, C::EF, C::HM>::new(C::hmmcs(sh.cap_height, c.data_seed ^ 0x5a17)),
                mats,
                |p: (Vec<Vec<C::F>>, Vec<Dig<C::F>>)| (Some(p.0), p.1),
                set
            );
        } else {
            go!(ExtensionMmcs::<C::F, C::EF, C::M>::new(C::mmcs(sh.cap_height)), mats, |p: Vec<Dig<C::F>>| (None, p), set);
        }
    }
    Committed { openings }
}

fn native_err_name(e: &MerkleTreeError) -> String {
    let s = format!("{e:?}");
    s.split(|c: char| !c.is_alphanumeric()).next().unwrap_or("Err").to_string()
}

/// Oracle: the native verdict on the (possibly faulted) tuple.
fn native_verdict<C: Mc>(sh: &Shape, o: &Opening<C::F, C::EF>) -> Result<(), String> {
    let commit = MerkleCap::<C::F, Dig<C::F>>::new(o.cap.clone());
    let r = match (sh.ext, sh.hiding) {
        (false, false) => C::mmcs(sh.cap_height).verify_batch(&commit, &o.dims, o.index, BatchOpeningRef::new(&o.base, &o.sibs)),
        (false, true) => {
            let proof = (o.salts.clone().unwrap(), o.sibs.clone());
            C::hmmcs(sh.cap_height, 0).verify_batch(&commit, &o.dims, o.index, BatchOpeningRef::new(&o.base, &proof))
        }
        (true, false) => ExtensionMmcs::<C::F, C::EF, C::M>::new(C::mmcs(sh.cap_height)).verify_batch(
            &commit,
            &o.dims,
            o.index,
            BatchOpeningRef::new(&o.ext, &o.sibs),
        ),
        (true, true) => {
            let proof = (o.salts.clone().unwrap(), o.sibs.clone());
            ExtensionMmcs::<C::F, C::EF, C::HM>::new(C::hmmcs(sh.cap_height, 0)).verify_batch(
                &commit,
                &o.dims,
                o.index,
                BatchOpeningRef::new(&o.ext, &proof),
            )
        }
    };
    r.map_err(|e| native_err_name(&e))
}

// ------------------------------------------------------------------------------------------
// circuit side
// ------------------------------------------------------------------------------------------

struct Built<EF> {
    circuit: Circuit<EF>,
    op_ids: Vec<NonPrimitiveOpId>,
    n_bits: usize,
    row_lens: Vec<usize>,
    salt_lens: Option<Vec<usize>>,
    cap_len: usize,
}

#[derive(Clone, Debug, PartialEq, Eq)]
enum Reject {
    /// the verify_batch_circuit* function returned Err
    Gadget(String),
    /// it panicked
    GadgetPanic(String),
    /// CircuitBuilder::build failed
    Build(String),
    /// the tuple cannot be expressed as inputs of the circuit built for the declared shape
    Shape(&'static str),
    /// CircuitRunner::run returned Err
    Run(String),
}

impl Reject {
    fn name(&self) -> String {
        match self {
            Reject::Gadget(s) => format!("gadget-err:{s}"),
            Reject::GadgetPanic(s) => format!("gadget-panic:{s}"),
            Reject::Build(s) => format!("build-err:{s}"),
            Reject::Shape(s) => format!("shape:{s}"),
            Reject::Run(s) => format!("run:{s}"),
        }
    }
}

fn first_word(s: &str) -> String {
    s.split(|c: char| !c.is_alphanumeric()).next().unwrap_or("Err").to_string()
}

fn limbs_per_digest<C: Mc>() -> usize {
    if C::LIFTED { DIGEST } else { DIGEST / <C::EF as BasedVectorSpace<C::F>>::DIMENSION }
}

fn pack_digest<C: Mc>(dg: &Dig<C::F>) -> Vec<C::EF> {
    if C::LIFTED {
        dg.iter().map(|&w| C::EF::from(w)).collect()
    } else {
        let d = <C::EF as BasedVectorSpace<C::F>>::DIMENSION;
        dg.chunks(d).map(|ch| C::EF::from_basis_coefficients_slice(ch).unwrap()).collect()
    }
}

fn build_circuit<C: Mc>(sh: &Shape, o: &Opening<C::F, C::EF>) -> Result<Built<C::EF>, Reject> {
    let max_h = o.dims.iter().map(|d| d.height).max().unwrap_or(0);
    let n_bits = log2_ceil_usize(max_h.max(1));
    let row_lens: Vec<usize> = if sh.ext { o.ext.iter().map(Vec::len).collect() } else { o.base.iter().map(Vec::len).collect() };
    let salt_lens: Option<Vec<usize>> = o.salts.as_ref().map(|s| s.iter().map(Vec::len).collect());
    let cap_len = o.cap.len();
    let dims = o.dims.clone();
    let ext = sh.ext;
    let res = catch(|| {
        let mut b = CircuitBuilder::<C::EF>::new();
        C::enable(&mut b);
        let opened: Vec<Vec<_>> = row_lens.iter().map(|&n| b.alloc_public_inputs(n, "opened")).collect();
        let bits = b.alloc_public_inputs(n_bits, "index bits");
        let lpd = limbs_per_digest::<C>();
        let cap: Vec<Vec<_>> = (0..cap_len).map(|_| b.alloc_public_inputs(lpd, "cap")).collect();
        let salts: Option<Vec<Vec<_>>> = salt_lens
            .as_ref()
            .map(|ls| ls.iter().map(|&n| b.alloc_private_inputs(n, "salt")).collect());
        let r = match (C::ARITY, ext) {
            (2, false) => verify_batch_circuit::<C::F, C::EF>(&mut b, C::cfg(), &cap, &dims, &bits, &opened, salts.as_deref()),
            (2, true) => {
                verify_batch_circuit_from_extension_opened::<C::F, C::EF>(&mut b, C::cfg(), &cap, &dims, &bits, &opened, salts.as_deref())
            }
            (_, false) => verify_batch_circuit_arity4::<C::F, C::EF>(&mut b, C::cfg(), &cap, &dims, &bits, &opened),
            (_, true) => verify_batch_circuit_from_extension_opened_arity4::<C::F, C::EF>(&mut b, C::cfg(), &cap, &dims, &bits, &opened),
        };
        match r {
            Err(e) => Err(Reject::Gadget(first_word(&format!("{e:?}")))),
            Ok(op_ids) => match b.build() {
                Ok(circuit) => Ok((circuit, op_ids)),
                Err(e) => Err(Reject::Build(first_word(&format!("{e:?}")))),
            },
        }
    });
    match res {
        Err(p) => Err(Reject::GadgetPanic(sig_of_panic(&p))),
        Ok(Err(r)) => Err(r),
        Ok(Ok((circuit, op_ids))) => Ok(Built {
            circuit,
            op_ids,
            n_bits,
            row_lens,
            salt_lens,
            cap_len,
        }),
    }
}

fn run_circuit<C: Mc>(sh: &Shape, bt: &Built<C::EF>, o: &Opening<C::F, C::EF>) -> Result<(), Reject> {
    run_circuit_traces::<C>(sh, bt, o).map(|_| ())
}

fn run_circuit_traces<C: Mc>(
    sh: &Shape,
    bt: &Built<C::EF>,
    o: &Opening<C::F, C::EF>,
) -> Result<p3_circuit::Traces<C::EF>, Reject> {
    // shape compatibility of the tuple with the built circuit
    let row_lens: Vec<usize> = if sh.ext { o.ext.iter().map(Vec::len).collect() } else { o.base.iter().map(Vec::len).collect() };
    assert_eq!(row_lens, bt.row_lens, "harness: circuit built for another row shape");
    assert_eq!(o.cap.len(), bt.cap_len, "harness: circuit built for another cap");
    assert_eq!(o.salts.as_ref().map(|s| s.iter().map(Vec::len).collect::<Vec<_>>()), bt.salt_lens);
    if bt.n_bits < usize::BITS as usize && o.index >> bt.n_bits != 0 {
        return Err(Reject::Shape("index-unrepresentable"));
    }
    if bt.op_ids.len() != o.sibs.len() {
        return Err(Reject::Shape("sibling-count"));
    }
    let mut publics: Vec<C::EF> = vec![];
    if sh.ext {
        publics.extend(o.ext.iter().flatten().copied());
    } else {
        publics.extend(o.base.iter().flatten().map(|&v| C::EF::from(v)));
    }
    publics.extend((0..bt.n_bits).map(|k| C::EF::from_bool((o.index >> k) & 1 == 1)));
    for e in &o.cap {
        publics.extend(pack_digest::<C>(e));
    }
    let privates: Vec<C::EF> = o.salts.iter().flatten().flatten().map(|&v| C::EF::from(v)).collect();
    let mut runner = bt.circuit.runner();
    runner.set_public_inputs(&publics).expect("harness: public input count");
    if !privates.is_empty() || bt.circuit.private_flat_len > 0 {
        runner.set_private_inputs(&privates).expect("harness: private input count");
    }
    let cfg = C::cfg();
    if C::ARITY == 2 {
        for (&op, sib) in bt.op_ids.iter().zip(&o.sibs) {
            runner
                .set_private_data(op, perm_private_data(cfg, pack_digest::<C>(sib)))
                .expect("harness: set_private_data");
        }
    } else {
        // one op-id occurrence per sibling; consecutive equal op-ids (3 for a step-4 level, 1 for
        // a step-2 bridge) share one payload, padded with zero limbs to 3 digests
        let lpd = limbs_per_digest::<C>();
        let mut i = 0;
        while i < bt.op_ids.len() {
            let op = bt.op_ids[i];
            let mut flat: Vec<C::EF> = vec![];
            let mut n = 0;
            while i < bt.op_ids.len() && bt.op_ids[i] == op {
                flat.extend(pack_digest::<C>(&o.sibs[i]));
                i += 1;
                n += 1;
            }
            assert!(n <= 3, "harness: op-id group larger than 3");
            flat.resize(3 * lpd, C::EF::ZERO);
            runner.set_private_data(op, perm_private_data(cfg, flat)).expect("harness: set_private_data");
        }
    }
    match catch(|| runner.run()) {
        Ok(Ok(t)) => Ok(t),
        Ok(Err(e)) => Err(Reject::Run(crate::checks::c02::err_name(&e))),
        Err(p) => Err(Reject::Run(format!("panic:{}", sig_of_panic(&p)))),
    }
}

// ------------------------------------------------------------------------------------------
// faults
// ------------------------------------------------------------------------------------------

/// Apply the fault; returns the class label, or None when the fault does not apply to this
/// shape (the case is then evaluated as an honest opening).
fn apply_fault<C: Mc>(sh: &Shape, f: &Fault, o: &mut Opening<C::F, C::EF>) -> Option<String> {
    let n = o.dims.len();
    let d = <C::EF as BasedVectorSpace<C::F>>::DIMENSION;
    match *f {
        Fault::None => None,
        Fault::Opened { mat, col, coef, delta } => {
            let m = pick(mat, n);
            if sh.ext {
                let w = o.ext[m].len();
                let j = pick(col, w);
                let mut cs: Vec<C::F> = o.ext[m][j].as_basis_coefficients_slice().to_vec();
                bump(&mut cs[coef as usize % d], delta);
                o.ext[m][j] = C::EF::from_basis_coefficients_slice(&cs).unwrap();
            } else {
                let w = o.base[m].len();
                bump(&mut o.base[m][pick(col, w)], delta);
            }
            Some(format!("opened:{}", level_class(sh, m)))
        }
        Fault::Sibling { sib, word, delta } => {
            if o.sibs.is_empty() {
                return None;
            }
            let s = pick(sib, o.sibs.len());
            bump(&mut o.sibs[s][word as usize % DIGEST], delta);
            Some("sibling".into())
        }
        Fault::IndexBit { bit } => {
            let bits = log2_ceil_usize(sh.max_height);
            if bits == 0 {
                return None;
            }
            let b = bit as usize % bits;
            o.index ^= 1 << b;
            Some(if o.index >= sh.max_height { "index-bit:out-of-range".into() } else { "index-bit:in-range".into() })
        }
        Fault::Cap { entry, word, delta } => {
            let e = pick(entry, o.cap.len());
            bump(&mut o.cap[e][word as usize % DIGEST], delta);
            Some("cap".into())
        }
        Fault::Salt { mat, pos, delta } => {
            let salts = o.salts.as_mut()?;
            let m = pick(mat, n);
            let l = salts[m].len();
            bump(&mut salts[m][pos as usize % l], delta);
            Some(format!("salt:{}", level_class(sh, m)))
        }
        Fault::DimHeight { mat, mode, rung } => {
            let m = pick(mat, n);
            let h = o.dims[m].height;
            let log = log2_ceil_usize(sh.max_height);
            let nh = match mode % 3 {
                0 => {
                    let k = rung as usize % (log + 1);
                    ((sh.max_height - 1) >> k) + 1
                }
                1 => h + 1,
                _ => h.saturating_sub(1).max(1),
            };
            if nh == h {
                return None;
            }
            o.dims[m].height = nh;
            let same_bucket = nh.next_power_of_two() == h.next_power_of_two();
            Some(format!(
                "dim-height:{}",
                if same_bucket { "same-pow2-bucket" } else { "other-bucket" }
            ))
        }
        Fault::DimWidth { mat, delta, adjust } => {
            let m = pick(mat, n);
            let w = o.dims[m].width as i64;
            let nw = (w + delta as i64).max(1) as usize;
            if nw == w as usize {
                return None;
            }
            o.dims[m].width = nw;
            if adjust {
                if sh.ext {
                    o.ext[m].resize(nw, C::EF::ZERO);
                } else {
                    o.base[m].resize(nw, C::F::ZERO);
                }
            }
            Some(format!("dim-width:{}", if adjust { "row-resized" } else { "row-unchanged" }))
        }
        Fault::ShiftBoundary { mat } => {
            // matrices in the order both verifiers hash them (stable, tallest first)
            let mut order: Vec<usize> = (0..n).collect();
            order.sort_by_key(|&i| std::cmp::Reverse(o.dims[i].height));
            let pairs: Vec<(usize, usize)> = order
                .windows(2)
                .filter(|w| o.dims[w[0]].height == o.dims[w[1]].height)
                .map(|w| (w[0], w[1]))
                .collect();
            if pairs.is_empty() || o.salts.is_some() {
                // with salts the two rows are not adjacent in the leaf stream
                return None;
            }
            let (a, b) = pairs[pick(mat, pairs.len())];
            if sh.ext {
                let v = o.ext[a].pop()?;
                o.ext[b].insert(0, v);
            } else {
                let v = o.base[a].pop()?;
                o.base[b].insert(0, v);
            }
            Some("shift-boundary".into())
        }
    }
}

/// Where matrix `m` enters the tree: the leaf layer, an injection below the cap, or a level
/// that lies inside the cap (never hashed by either verifier).
fn level_class(sh: &Shape, m: usize) -> &'static str {
    let h = sh.heights[m];
    if h.next_power_of_two() == sh.max_height.next_power_of_two() { "leaf-layer" } else { "injected-or-capped" }
}

// ------------------------------------------------------------------------------------------
// oracle
// ------------------------------------------------------------------------------------------

fn shape_classes<C: Mc>(sh: &Shape, cap_len: usize, n_sibs: usize) -> (Vec<String>, bool) {
    let mut cl = vec![
        format!("cfg:{}", C::NAME),
        format!("arity:{}", C::ARITY),
        format!("leaves:{}", if sh.ext { "ext" } else { "base" }),
        format!("hiding:{}", sh.hiding),
        format!("mats:{}", sh.heights.len()),
        format!("cap-entries:{cap_len}"),
        format!("cap-height-cfg:{}", sh.cap_height),
    ];
    let mut distinct: Vec<usize> = sh.heights.clone();
    distinct.sort();
    distinct.dedup();
    cl.push(format!("distinct-heights:{}", distinct.len().min(4)));
    let pow2 = sh.heights.iter().all(|h| h.is_power_of_two());
    cl.push(format!("heights:{}", if pow2 { "all-pow2" } else { "some-non-pow2" }));
    cl.push(format!(
        "max-height:{}",
        match sh.max_height {
            1 => "1",
            2..=4 => "2-4",
            5..=16 => "5-16",
            17..=32 => "17-32",
            _ => "33-64",
        }
    ));
    let rate = C::cfg().rate();
    let d = <C::EF as BasedVectorSpace<C::F>>::DIMENSION;
    let unaligned = sh.widths.iter().any(|&w| {
        let base_w = if sh.ext { w * d } else { w } + if sh.hiding { SALT } else { 0 };
        base_w % rate != 0
    });
    let multi_chunk = {
        // total base width of some height group exceeds one sponge block
        let mut by_h = std::collections::BTreeMap::<usize, usize>::new();
        for (h, w) in sh.heights.iter().zip(&sh.widths) {
            *by_h.entry(*h).or_default() += if sh.ext { w * d } else { *w } + if sh.hiding { SALT } else { 0 };
        }
        by_h.values().any(|&t| t > rate)
    };
    let aligned_some = sh.widths.iter().any(|&w| {
        let base_w = if sh.ext { w * d } else { w } + if sh.hiding { SALT } else { 0 };
        base_w % rate == 0
    });
    if unaligned {
        cl.push("width-vs-rate:has-unaligned-matrix".into());
    }
    if aligned_some {
        cl.push("width-vs-rate:has-aligned-matrix".into());
    }
    cl.push(format!("leaf-blocks:{}", if multi_chunk { "multi" } else { "single" }));
    cl.push(format!("path-siblings:{}", n_sibs.min(9)));
    let nontrivial = distinct.len() >= 2 || unaligned || cap_len > 1 || C::ARITY == 4;
    (cl, nontrivial)
}

fn padded_len(raw: usize, n: usize) -> usize {
    if raw <= 1 {
        raw
    } else if raw >= n {
        raw.div_ceil(n) * n
    } else {
        n
    }
}

/// Widths of the native digest layers (leaf layer first, root last), from the native arity
/// schedule and the documented padding rule.
fn layer_widths<C: Mc>(dims: &[Dimensions]) -> Vec<usize> {
    let max_h = dims.iter().map(|d| d.height).max().unwrap_or(1);
    let mut w = padded_len(max_h, C::ARITY);
    let mut out = vec![w];
    for step in C::full_schedule(dims) {
        w = padded_len(w / step, C::ARITY);
        out.push(w);
    }
    out
}

/// More than one native digest layer has exactly `cap_len` (> 1) nodes: the cap layer cannot be
/// told from the commitment size alone.
fn cap_layer_ambiguous<C: Mc>(dims: &[Dimensions], cap_len: usize) -> bool {
    cap_len > 1 && layer_widths::<C>(dims).iter().filter(|&&w| w == cap_len).count() >= 2
}

fn variant<C: Mc>(sh: &Shape) -> String {
    format!("a{}-{}{}", C::ARITY, if sh.ext { "ext" } else { "base" }, if sh.hiding { "-hiding" } else { "" })
}

fn check<C: Mc>(c: &Case, allow_dim_lies: bool) -> Report {
    let sh = shape_of::<C>(c);
    let index = pick(c.index, sh.max_height);
    let fault = if c.fault.is_dim_lie() && !allow_dim_lies { Fault::None } else { c.fault.clone() };

    // indices at which the honest opening is checked as well
    let mut honest_idx: Vec<usize> = vec![];
    if c.sweep {
        if sh.max_height <= 32 {
            honest_idx.extend(0..sh.max_height);
        } else {
            honest_idx.extend([0, 1, sh.max_height / 2, sh.max_height - 2, sh.max_height - 1]);
        }
    }
    honest_idx.push(index);
    let com = commit_and_open::<C>(c, &sh, &honest_idx);
    let probe = com.openings.last().unwrap().clone();
    let (mut classes, nontrivial) = shape_classes::<C>(&sh, probe.cap.len(), probe.sibs.len());
    let var = variant::<C>(&sh);
    let key = hash_of(&(c.cfg % N_CFG, sh.ext, sh.hiding, sh.cap_height, &sh.heights, &sh.widths, index, &fault));
    let finish = |rep: Report, classes: Vec<String>| rep.classes(classes).nontrivial(nontrivial).key(key);

    let ambiguous = cap_layer_ambiguous::<C>(&probe.dims, probe.cap.len());
    if ambiguous {
        classes.push("cap:layer-width-ambiguous".into());
    }

    // ---- honest openings: both must accept ---------------------------------------------
    let built = build_circuit::<C>(&sh, &probe);
    for o in &com.openings {
        if let Err(e) = native_verdict::<C>(&sh, o) {
            panic!("harness: native rejects its own honest opening: {e} (heights {:?} idx {})", sh.heights, o.index);
        }
        let cv = match &built {
            Ok(bt) => run_circuit::<C>(&sh, bt, o),
            Err(r) => Err(r.clone()),
        };
        if let Err(r) = cv {
            classes.push("verdict:honest-REJECTED-by-circuit".into());
            let rep = Report::fail(
                if ambiguous {
                    format!("C08/honest-rejected:a{}:cap-layer-width-ambiguous", C::ARITY)
                } else {
                    format!("C08/honest-rejected:{var}:{}", r.name())
                },
                format!(
                    "[{} {var}] honest opening at index {} rejected by the circuit ({}); native accepts. heights {:?} widths {:?} \
                     cap entries {} siblings {}",
                    C::NAME,
                    o.index,
                    r.name(),
                    sh.heights,
                    sh.widths,
                    o.cap.len(),
                    o.sibs.len()
                ),
            );
            return finish(rep, classes);
        }
    }
    classes.push(format!("honest-openings-checked:{}", if com.openings.len() > 1 { "sweep" } else { "one" }));

    // ---- the faulted opening ---------------------------------------------------------------
    let mut o = probe.clone();
    let Some(fclass) = apply_fault::<C>(&sh, &fault, &mut o) else {
        classes.push(if fault == Fault::None { "fault:none".into() } else { format!("fault:{}:not-applicable", fault.kind()) });
        classes.push("verdict:both-accept".into());
        return finish(Report::pass(), classes);
    };
    classes.push(format!("fault:{fclass}"));
    let nat = native_verdict::<C>(&sh, &o);
    // a dimension lie changes the circuit shape: rebuild for the declared dimensions
    let rebuilt;
    let bt = if fault.is_dim_lie() {
        rebuilt = build_circuit::<C>(&sh, &o);
        &rebuilt
    } else {
        &built
    };
    let cv = match bt {
        Ok(bt) => run_circuit::<C>(&sh, bt, &o),
        Err(r) => Err(r.clone()),
    };
    let cap_exceeds_tree = {
        let max_h = o.dims.iter().map(|d| d.height).max().unwrap_or(1);
        o.cap.len() > 1usize << log2_ceil_usize(max_h.max(1))
    };
    let rep = match (&nat, &cv) {
        (Ok(()), Ok(())) => {
            classes.push("verdict:both-accept(faulted)".into());
            classes.push(format!("both-accept(faulted):{fclass}"));
            Report::pass()
        }
        (Err(ne), Err(ce)) => {
            classes.push(format!("verdict:both-reject:native={ne}"));
            classes.push(format!("circuit-reject:{}", ce.name()));
            Report::pass()
        }
        (Ok(()), Err(ce)) => {
            classes.push("verdict:MISMATCH".into());
            Report::fail(
                if fault.is_dim_lie() {
                    dim_lie_sig(None, Some(ce), &fclass, C::ARITY, cap_exceeds_tree)
                } else {
                    format!("C08/native-accepts-circuit-rejects:{}:{var}:{}", fault.kind(), first_word(&ce.name()))
                },
                format!(
                    "[{} {var}] fault {fclass} ({:?}): native verify_batch accepts, circuit rejects with {}. heights {:?} widths {:?} \
                     declared dims {:?} index {}",
                    C::NAME,
                    fault,
                    ce.name(),
                    sh.heights,
                    sh.widths,
                    o.dims,
                    o.index
                ),
            )
        }
        (Err(ne), Ok(())) => {
            classes.push("verdict:MISMATCH".into());
            Report::fail(
                if fault.is_dim_lie() {
                    dim_lie_sig(Some(ne), None, &fclass, C::ARITY, cap_exceeds_tree)
                } else {
                    format!("C08/native-rejects({ne})-circuit-accepts:{}:a{}", fclass_sig(&fclass), C::ARITY)
                },
                format!(
                    "[{} {var}] fault {fclass} ({:?}): native verify_batch rejects with {ne}, the circuit run is Ok. heights {:?} \
                     widths {:?} declared dims {:?} index {} cap entries {}",
                    C::NAME,
                    fault,
                    sh.heights,
                    sh.widths,
                    o.dims,
                    o.index,
                    o.cap.len()
                ),
            )
        }
    };
    finish(rep, classes)
}

/// Signature of a disagreement under a dimension lie, named by mechanism.  The gadgets take the
/// dimension vector as a build-time constant and (unlike native) run no geometry gate on it, so
/// the disagreements fall into few classes; anything outside them keeps a fully specific name.
fn dim_lie_sig(native_err: Option<&String>, circuit_rej: Option<&Reject>, fclass: &str, arity: usize, cap_exceeds_tree: bool) -> String {
    match (native_err.map(String::as_str), circuit_rej) {
        // cap with more entries than the declared tree has (padded) leaves: `index_bits.len() -
        // cap_height` underflows inside the gadget
        (None, Some(Reject::GadgetPanic(_))) if cap_exceeds_tree => "C08/dim-lie:cap-larger-than-declared-tree:gadget-panics".into(),
        // native check_widths; the gadgets never look at Dimensions::width
        (Some("WrongWidth"), None) => "C08/dim-lie:width-not-checked".into(),
        // native validate_commit_reachable_heights; the gadgets only use height.next_power_of_two()
        (Some("IncompatibleHeights"), None) => "C08/dim-lie:height-ladder-not-checked".into(),
        // native `index >= max_height`; the gadgets take log2_ceil(max_height) free index bits
        (Some("IndexOutOfBounds"), None) => "C08/dim-lie:index-bound-not-checked".into(),
        // native derives the path length from the configured cap_height, the gadgets from the cap size
        (Some("WrongHeight"), None) => "C08/dim-lie:depth-from-cap-size:circuit-accepts".into(),
        (None, Some(Reject::Shape("sibling-count"))) => "C08/dim-lie:depth-from-cap-size:circuit-stricter".into(),
        (Some(ne), None) => format!("C08/dim-lie:native-rejects({ne})-circuit-accepts:{}:a{arity}", fclass_sig(fclass)),
        (None, Some(ce)) => format!("C08/dim-lie:native-accepts-circuit-rejects({}):{}:a{arity}", ce.name(), fclass_sig(fclass)),
        _ => unreachable!(),
    }
}

fn fclass_sig(fclass: &str) -> String {
    // keep the fault class but drop the level qualifier of value faults
    let mut it = fclass.split(':');
    let head = it.next().unwrap_or("");
    match head {
        "opened" | "salt" => head.to_string(),
        _ => fclass.to_string(),
    }
}

pub fn oracle_main(c: &Case) -> Report {
    dispatch_cfg!(c.cfg, C => check::<C>(c, false))
}

pub fn oracle_dims(c: &Case) -> Report {
    dispatch_cfg!(c.cfg, C => check::<C>(c, true))
}

// ------------------------------------------------------------------------------------------
// strategies
// ------------------------------------------------------------------------------------------

fn value_fault() -> impl Strategy<Value = Fault> {
    prop_oneof![
        3 => Just(Fault::None),
        4 => (any::<u16>(), any::<u16>(), 0u8..5, any::<u32>()).prop_map(|(mat, col, coef, delta)| Fault::Opened { mat, col, coef, delta }),
        4 => (any::<u16>(), 0u8..8, any::<u32>()).prop_map(|(sib, word, delta)| Fault::Sibling { sib, word, delta }),
        3 => (0u8..6).prop_map(|bit| Fault::IndexBit { bit }),
        3 => (any::<u16>(), 0u8..8, any::<u32>()).prop_map(|(entry, word, delta)| Fault::Cap { entry, word, delta }),
        2 => (any::<u16>(), 0u8..4, any::<u32>()).prop_map(|(mat, pos, delta)| Fault::Salt { mat, pos, delta }),
    ]
}

fn dim_fault() -> impl Strategy<Value = Fault> {
    prop_oneof![
        3 => (any::<u16>(), 0u8..3, 0u8..7).prop_map(|(mat, mode, rung)| Fault::DimHeight { mat, mode, rung }),
        3 => (any::<u16>(), prop_oneof![Just(-2i8), Just(-1i8), Just(1i8), Just(2i8), Just(8i8)], any::<bool>())
            .prop_map(|(mat, delta, adjust)| Fault::DimWidth { mat, delta, adjust }),
        2 => any::<u16>().prop_map(|mat| Fault::ShiftBoundary { mat }),
    ]
}

fn case_strategy<S: Strategy<Value = Fault>>(fault: S, max_mats: usize) -> impl Strategy<Value = Case> {
    let height = prop_oneof![
        3 => (0u32..7).prop_map(|l| 1u8 << l),
        3 => 1u8..=64,
        1 => 1u8..=9,
    ];
    // widths 1..=24 with extra weight on multiples of the sponge rates / extension degrees
    let width = prop_oneof![
        5 => 1u8..=24,
        1 => Just(8u8),
        1 => Just(16u8),
        1 => Just(24u8),
        1 => Just(6u8),
        1 => (1u8..=6).prop_map(|k| 4 * k),
    ];
    let cap = prop_oneof![4 => Just(0u8), 2 => Just(1u8), 2 => Just(2u8), 2 => Just(3u8)];
    let hiding = prop_oneof![2 => Just(false), 1 => Just(true)];
    let data_mode = prop_oneof![6 => Just(0u8), 1 => Just(1u8), 1 => Just(2u8)];
    (
        (0u8..N_CFG, any::<bool>(), hiding, cap, height),
        (proptest::collection::vec((0u8..7, width), 1..=max_mats), any::<u16>()),
        (data_mode, any::<u64>(), any::<u16>(), proptest::bool::weighted(0.25), fault),
    )
        .prop_map(|((cfg, ext, hiding, cap_height, max_height), (mats, anchor), (data_mode, data_seed, index, sweep, fault))| {
            // a salt fault needs a hiding MMCS, which only the arity-2 gadgets support
            let salt = matches!(fault, Fault::Salt { .. });
            let (cfg, hiding) = if salt { ([0u8, 2, 4][(cfg % 3) as usize], true) } else { (cfg, hiding) };
            Case {
            cfg,
            ext,
            hiding,
            cap_height,
            max_height,
            mats,
            anchor,
            data_mode,
            data_seed,
            index,
            sweep,
            fault,
            }
        })
}

pub const RULE: &str = "batches of 1-6 matrices, tallest height 1-64 (powers of two and not), shorter heights on the \
ceil(max/2^k) ladder in arbitrary order, widths 1-20 (ext leaves 1-10), configured cap height 0-3, 6 permutation \
configurations (arity 2: KoalaBear/BabyBear D4 W16, KoalaBear D1 W16 in the quintic field; arity 4: KoalaBear/BabyBear D4 W32, \
KoalaBear D1 W32 quintic), base and extension leaves, plain and hiding (arity 2), committed and opened natively, <= 1 fault on \
(opened value | sibling word | index bit | cap word | salt); oracle: native verify_batch verdict == CircuitRunner verdict, \
honest opening accepted by both; non-trivial = >= 2 distinct heights or some leaf width not a multiple of the sponge rate or \
cap with > 1 entry or arity 4; distinct on (cfg, leaves, hiding, cap, heights, widths, index, fault)";

pub const RULE_DIMS: &str = "same batches; the single fault is a lie in the declared dimension vector (another ladder rung, \
height +-1, width +-1/2/8 with or without resizing the opened row, row boundary shifted between two matrices of one height); \
the circuit is rebuilt for the declared dimensions; same oracle and non-triviality rule";

pub const RULE_SMALL: &str = "complete enumeration: 6 configurations x base/ext leaves x plain/hiding (arity 2) x configured cap height 0-3 x tallest height 1..=12 (thorough 1..=24) x {one matrix, two matrices with the second on every ladder rung, three matrices on rungs (2,0,1), (1,0,1), (log,0,log)}; widths 3/9/2; honest opening at EVERY index must be accepted by native and circuit";

/// Small geometries, enumerated completely (no faults; every index is opened).
fn small_cases(max_small: u8) -> Vec<Case> {
    let mut out = vec![];
    for cfg in 0..N_CFG {
        for ext in [false, true] {
            for hiding in [false, true] {
                if hiding && cfg % 2 == 1 {
                    continue; // arity-4 configurations have odd indices; no hiding gadget there
                }
                for cap_height in 0u8..4 {
                    for max_height in 1..=max_small {
                        let log = log2_ceil_usize(max_height as usize) as u8;
                        let mut shapes: Vec<Vec<(u8, u8)>> = vec![vec![(0, 3)]];
                        for k in 0..=log {
                            shapes.push(vec![(0, 3), (k, 9)]);
                        }
                        if log >= 2 {
                            shapes.push(vec![(2, 2), (0, 3), (1, 9)]);
                        }
                        if log >= 1 {
                            // two matrices sharing one injection level
                            shapes.push(vec![(1, 2), (0, 3), (1, 9)]);
                            shapes.push(vec![(log, 9), (0, 3), (log, 2)]);
                        }
                        for mats in shapes {
                            let anchor = if mats.len() == 3 { 0x8000 } else { 0 }; // index of the (0, _) entry
                            out.push(Case {
                                cfg,
                                ext,
                                hiding,
                                cap_height,
                                max_height,
                                mats,
                                anchor,
                                data_mode: 0,
                                data_seed: 0xC08 + max_height as u64,
                                index: 0,
                                sweep: true,
                                fault: Fault::None,
                            });
                        }
                    }
                }
            }
        }
    }
    out
}

pub fn run(ctx: &Ctx) {
    ctx.assume(
        "circuit-side conventions follow the repo's tests/set_*_mmcs_private_data helpers: index bits = log2_ceil(max declared \
         height) little-endian public inputs; cap entries as public inputs; salts as private inputs; a sibling count different \
         from the number of op-ids returned by the gadget counts as a rejection",
    );
    ctx.assume("opened base-field values are always supplied as lifted base elements (a non-base EF value in a base slot is outside native's input space)");
    ctx.note("hiding MMCS is only exercised for arity 2: the arity-4 gadgets take no salts");
    ctx.shrink_iters.store(600, std::sync::atomic::Ordering::Relaxed);
    // complete enumeration of small geometries, honest openings at every index
    let max_small = ctx.tier.pick(12, 24) as u8;
    ctx.enumerate("small-exhaustive", RULE_SMALL, small_cases(max_small), true, oracle_main);
    let n = ctx.tier.pick(160_000, 4_000_000);
    ctx.explore("openings", RULE, n, || case_strategy(value_fault(), 6), oracle_main);
    ctx.replay_known("openings", oracle_main);
    let n = ctx.tier.pick(40_000, 1_000_000);
    // Declared-dimension lies are outside the property's quantifier (dimensions are
    // verifier-known data): exploratory only, see /verif/observations/c08_dim_lies.json.
    if std::env::var("VERIF_C08_DIM_LIES").is_ok() {
        ctx.explore("dim-lies", RULE_DIMS, n, || case_strategy(dim_fault(), 6), oracle_dims);
        ctx.replay_known("dim-lies", oracle_dims);
    }
}

// ------------------------------------------------------------------------------------------
// proving the honest opening circuits (sub-check of C10: completeness of the prover on the
// Merkle-mode permutation tables)
// ------------------------------------------------------------------------------------------

pub const RULE_PROVE: &str = "honest MMCS opening circuits (arity-2 degree-4 Poseidon2 configurations, base and extension \
leaves, hiding on/off, caps, mixed heights) built by verify_batch_circuit*, executed, proven with BatchStarkProver \
(Poseidon2 + recompose tables registered) and verified natively; oracle: run Ok => prove Ok => verify Ok; non-trivial \
= >= 2 distinct heights or cap height > 0 or hiding; distinct on the shape";

thread_local! {
    /// widen the tallest matrix until the permutation table of the circuit is exactly full
    static FULL_TABLE: std::cell::Cell<bool> = const { std::cell::Cell::new(false) };
}

fn perm_rows<EF: p3_field::Field>(circuit: &p3_circuit::Circuit<EF>) -> usize {
    circuit
        .ops
        .iter()
        .filter(|op| matches!(op, p3_circuit::Op::NonPrimitiveOpWithExecutor { executor, .. } if executor.op_type().as_str().starts_with("poseidon")))
        .count()
}

fn prove_honest_cfg<C: Mc, P: crate::pv::Pv<EF = C::EF>>(c: &Case) -> Report {
    let mut sh = shape_of::<C>(c);
    let index = pick(c.index, sh.max_height);
    let mut full = false;
    if FULL_TABLE.with(|f| f.get()) {
        // Every extra block of sponge-rate leaf elements in the tallest matrix adds one sponge row
        // ahead of the Merkle rows: steer the number of permutation rows to a power of two so that
        // the table has no padding row and ends on the last Merkle row of the path.
        let tallest = sh.heights.iter().enumerate().max_by_key(|(_, h)| **h).map(|(i, _)| i).unwrap_or(0);
        for _ in 0..8 {
            let com = commit_and_open::<C>(c, &sh, &[index]);
            let o = com.openings.last().unwrap().clone();
            let Ok(bt) = build_circuit::<C>(&sh, &o) else { break };
            let n = perm_rows(&bt.circuit);
            if n == 0 {
                break;
            }
            if n.is_power_of_two() {
                full = true;
                break;
            }
            let pad = n.next_power_of_two() - n;
            sh.widths[tallest] += pad * if sh.ext { 2 } else { 8 };
        }
    }
    let com = commit_and_open::<C>(c, &sh, &[index]);
    let o = com.openings.last().unwrap().clone();
    let (classes, nontrivial) = shape_classes::<C>(&sh, o.cap.len(), o.sibs.len());
    if cap_layer_ambiguous::<C>(&o.dims, o.cap.len()) {
        return Report::pass().class("excluded_by_known_finding:cap-layer-width-ambiguous");
    }
    let bt = match build_circuit::<C>(&sh, &o) {
        Ok(b) => b,
        Err(r) => return Report::discard(format!("circuit not buildable: {}", r.name().chars().take(40).collect::<String>())),
    };
    let traces = match run_circuit_traces::<C>(&sh, &bt, &o) {
        Ok(t) => t,
        Err(r) => return Report::discard(format!("honest run rejected (C08's business): {}", r.name().chars().take(40).collect::<String>())),
    };
    let npo = crate::pv::NpoSel {
        recompose: true,
        debug_lookups: false,
        poseidon2: Some(C::cfg()),
        poseidon1: None,
    };
    let pk = p3_circuit_prover::TablePacking::new(1 + (c.data_mode as usize % 3), 1 + (c.cap_height as usize % 4));
    let rep = Report::pass()
        .classes(classes)
        .class(format!("cfg:{}", C::NAME))
        .class(if full || perm_rows(&bt.circuit).is_power_of_two() { "perm-table:exactly-full(no padding row)" } else { "perm-table:padded" })
        .nontrivial(nontrivial)
        .key(hash_of(&(c.cfg % N_CFG, sh.ext, sh.hiding, sh.cap_height, &sh.heights, &sh.widths)));
    match P::prove_verify(&bt.circuit, &traces, &pk, &npo) {
        Ok(()) => rep.class("outcome:proved+verified"),
        Err(crate::pv::PvErr::Setup(m)) if m.starts_with("UnclaimedPrivateInput") => {
            // documented restriction: salts given as private inputs whose only consumer is a hash
            Report::discard("documented: unclaimed private input (salt consumed only by the hash)")
        }
        Err(e) => {
            let dbg = match P::prove_verify(&bt.circuit, &traces, &pk, &crate::pv::NpoSel { debug_lookups: true, ..npo.clone() }) {
                Err(crate::pv::PvErr::ProvePanic(m)) => format!(" | lookup debugger: {}", m.chars().take(400).collect::<String>()),
                _ => String::new(),
            };
            let mut r = rep;
            r.verdict = crate::fw::Verdict::Fail {
                sig: format!("C10/mmcs-circuit:{}:{}", e.kind(), variant::<C>(&sh)),
                msg: format!("honest MMCS opening circuit ran Ok but {}: {}{}", e.kind(), e.msg().chars().take(300).collect::<String>(), dbg),
            };
            r.nontrivial = true;
            r
        }
    }
}

pub fn oracle_prove_honest(c: &Case) -> Report {
    match c.cfg % N_CFG {
        0 => prove_honest_cfg::<KbD4W16, crate::fields::Kb4>(c),
        1 => prove_honest_cfg::<KbD4W32, crate::fields::Kb4>(c),
        2 => prove_honest_cfg::<BbD4W16, crate::fields::Bb4>(c),
        3 => prove_honest_cfg::<BbD4W32, crate::fields::Bb4>(c),
        _ => Report::discard("configuration has no prover table support in the harness"),
    }
}

// ------------------------------------------------------------------------------------------
// forged openings at the proof level (sub-check of C04)
// ------------------------------------------------------------------------------------------

pub const RULE_FORGED_OPENING: &str = "honest MMCS opening circuits (arity-2 and arity-4 degree-4 Poseidon2 configurations) whose \
honest execution is proven; then ONE opened value (a public input) is changed in the Public table, the leaf-hash \
(sponge) rows and everything else downstream are re-derived from it by the real executors, while the Merkle-mode \
permutation rows and the slots they write keep their honest contents (the prover keeps the honest path to the \
committed cap); proven and verified. Oracle: the native MMCS rejects the changed opened value, so the proof must be \
rejected. Control: with the Merkle rows re-derived as well the proof must be rejected. Non-trivial = every case; \
distinct on (configuration, leaves, hiding, cap, heights, which matrix level the changed value belongs to)";

fn forged_opening_cfg<C: Mc, P: crate::pv::Pv<EF = C::EF, BF = C::F>>(c: &Case) -> Report {
    use p3_circuit::ops::NpoTypeId;
    use p3_circuit::ops::poseidon2_perm::Poseidon2Trace;
    let sh = shape_of::<C>(c);
    let index = pick(c.index, sh.max_height);
    let com = commit_and_open::<C>(c, &sh, &[index]);
    let o = com.openings.last().unwrap().clone();
    let (classes, _) = shape_classes::<C>(&sh, o.cap.len(), o.sibs.len());
    if cap_layer_ambiguous::<C>(&o.dims, o.cap.len()) {
        return Report::pass().class("excluded_by_known_finding:cap-layer-width-ambiguous");
    }
    let Ok(bt) = build_circuit::<C>(&sh, &o) else {
        return Report::discard("circuit not buildable");
    };
    let Ok(honest) = run_circuit_traces::<C>(&sh, &bt, &o) else {
        return Report::discard("honest run rejected (C08's business)");
    };
    let circuit = &bt.circuit;
    let ty = NpoTypeId::poseidon2_perm(C::cfg());
    let Some(hp) = honest.non_primitive_trace::<Poseidon2Trace<C::F>>(&ty).cloned() else {
        return Report::discard("no permutation rows");
    };
    // permutation ops in execution order <-> rows of the honest trace
    let perm_ops: Vec<&p3_circuit::Op<C::EF>> = circuit
        .ops
        .iter()
        .filter(|op| matches!(op, p3_circuit::Op::NonPrimitiveOpWithExecutor { executor, .. } if executor.op_type() == &ty))
        .collect();
    if perm_ops.len() != hp.operations.len() {
        return Report::discard("permutation ops and trace rows do not line up");
    }
    let w0 = crate::forge::assignment_of::<P>(circuit, &honest);
    // which opened value changes
    let n_open: usize = bt.row_lens.iter().sum();
    if n_open == 0 {
        return Report::discard("nothing opened");
    }
    let k = pick(c.anchor, n_open);
    let level = {
        let mut acc = 0usize;
        let mut m = 0usize;
        for (i, l) in bt.row_lens.iter().enumerate() {
            if k < acc + l {
                m = i;
                break;
            }
            acc += l;
        }
        level_class(&sh, m)
    };
    let slot = circuit.public_rows[k].0;
    let mut pins: std::collections::HashMap<u32, C::EF> =
        circuit.public_rows.iter().map(|w| (w.0, w0[w.0 as usize])).collect();
    pins.insert(slot, w0[slot as usize] + C::EF::ONE);
    let mut pins_all = pins.clone();
    for (op, row) in perm_ops.iter().zip(&hp.operations) {
        if row.merkle_path {
            if let p3_circuit::Op::NonPrimitiveOpWithExecutor { outputs, .. } = op {
                for wdx in outputs.iter().flatten() {
                    pins_all.insert(wdx.0, w0[wdx.0 as usize]);
                }
            }
        }
    }
    let npo = crate::pv::NpoSel {
        recompose: true,
        debug_lookups: false,
        poseidon2: Some(C::cfg()),
        poseidon1: None,
    };
    let pk = p3_circuit_prover::TablePacking::new(1 + (c.data_mode as usize % 3), 1 + (c.cap_height as usize % 4));
    let setup = match P::setup(circuit, &pk, &npo) {
        Ok(s) => s,
        Err(crate::pv::PvErr::Setup(m)) if m.starts_with("UnclaimedPrivateInput") => {
            return Report::discard("documented: unclaimed private input");
        }
        Err(e) => return Report::discard(format!("setup failed: {}", e.kind())),
    };
    let accepted = |t: &p3_circuit::Traces<C::EF>| match P::prove(&setup, t) {
        Ok(p) => P::verify(&setup, &p).is_ok(),
        Err(_) => false,
    };
    if !accepted(&honest) {
        return Report::discard("honest proof rejected (C10's business)");
    }
    let rep = Report::pass()
        .classes(classes)
        .class(format!("cfg:{}", C::NAME))
        .class(format!("changed:{level}"))
        .nontrivial(true)
        .key(hash_of(&(c.cfg % N_CFG, sh.ext, sh.hiding, sh.cap_height, &sh.heights, &level)));
    // sibling payloads of the Merkle rows, as the honest run supplies them
    let payloads = || -> Vec<(u32, p3_circuit::ops::NpoPrivateData)> {
        if C::ARITY == 2 {
            return bt
                .op_ids
                .iter()
                .zip(&o.sibs)
                .map(|(op, sib)| (op.0, perm_private_data(C::cfg(), pack_digest::<C>(sib))))
                .collect();
        }
        // arity 4: consecutive equal op-ids share one payload, padded to 3 digests
        let lpd = limbs_per_digest::<C>();
        let mut out = vec![];
        let mut i = 0;
        while i < bt.op_ids.len() {
            let op = bt.op_ids[i];
            let mut flat: Vec<C::EF> = vec![];
            while i < bt.op_ids.len() && bt.op_ids[i] == op {
                flat.extend(pack_digest::<C>(&o.sibs[i]));
                i += 1;
            }
            flat.resize(3 * lpd, C::EF::ZERO);
            out.push((op.0, perm_private_data(C::cfg(), flat)));
        }
        out
    };
    // control: everything re-derived (the path leads to another root)
    let control = match catch(|| crate::forge::reexecute_pd::<P>(circuit, &honest, &pins, false, payloads())) {
        Ok(Ok((_, t))) => {
            // the control only means something if the changed value reaches a permutation row
            let reached = t
                .non_primitive_trace::<Poseidon2Trace<C::F>>(&ty)
                .is_some_and(|fp| fp.operations.iter().zip(&hp.operations).any(|(a, b)| a.input_values != b.input_values));
            if std::env::var("VERIF_DEBUG").is_ok() {
                if let Some(fp) = t.non_primitive_trace::<Poseidon2Trace<C::F>>(&ty) {
                    for (i, (a, b)) in fp.operations.iter().zip(&hp.operations).enumerate() {
                        eprintln!("row {i} merkle={} new_start={} inputs_changed={} in_ctl={:?} out_ctl={:?}", b.merkle_path, b.new_start, a.input_values != b.input_values, b.in_ctl, b.out_ctl);
                    }
                }
                eprintln!("changed public #{k} slot {slot}; reached={reached}");
            }
            if reached { Some(accepted(&t)) } else { None }
        }
        _ => None,
    };
    if control == Some(true) {
        let mut r = rep;
        r.verdict = crate::fw::Verdict::Fail {
            sig: format!("C04/mmcs-opening-forged:{}:full-reexecution", variant::<C>(&sh)),
            msg: format!("opened value #{k} ({level}) changed and everything re-derived: the proof is accepted although the recomputed root cannot equal the committed cap"),
        };
        return r;
    }
    // attack: honest Merkle rows, forged leaf hashing
    let (_, mut t) = match catch(|| crate::forge::reexecute_pd::<P>(circuit, &honest, &pins_all, false, payloads())) {
        Ok(Ok(x)) => x,
        _ => return rep.class("outcome:re-execution-failed"),
    };
    let Some(fp) = t.non_primitive_trace::<Poseidon2Trace<C::F>>(&ty).cloned() else {
        return rep.class("outcome:re-execution-produced-no-permutation-trace");
    };
    if fp.operations.len() != hp.operations.len() {
        return rep.class("outcome:re-execution-changed-the-row-count");
    }
    let mut spliced = fp.clone();
    let mut leaf_rows_changed = false;
    for (i, row) in hp.operations.iter().enumerate() {
        if row.merkle_path {
            spliced.operations[i] = row.clone();
        } else if fp.operations[i].input_values != row.input_values {
            leaf_rows_changed = true;
        }
    }
    if !leaf_rows_changed {
        return rep.class("outcome:changed-value-reaches-no-leaf-hash-row");
    }
    t.non_primitive_traces.insert(ty, Box::new(spliced));
    if accepted(&t) {
        let mut r = rep;
        r.verdict = crate::fw::Verdict::Fail {
            sig: format!("C04/mmcs-opening-forged:arity{}:honest-merkle-rows-kept", C::ARITY),
            msg: format!(
                "[{}] opened value #{k} ({level}) changed in the Public table, leaf-hash rows re-derived, Merkle-mode rows kept honest: proof ACCEPTED, i.e. the proof attests an opening the native MMCS rejects (the digest a Merkle row takes as an exposed input is not tied to the slot the leaf hash writes)",
                variant::<C>(&sh)
            ),
        };
        return r;
    }
    rep.class("outcome:forged-opening-rejected")
}

pub fn oracle_forged_opening(c: &Case) -> Report {
    match c.cfg % N_CFG {
        0 => forged_opening_cfg::<KbD4W16, crate::fields::Kb4>(c),
        1 => forged_opening_cfg::<KbD4W32, crate::fields::Kb4>(c),
        2 => forged_opening_cfg::<BbD4W16, crate::fields::Bb4>(c),
        3 => forged_opening_cfg::<BbD4W32, crate::fields::Bb4>(c),
        _ => Report::discard("configuration has no prover table support in the harness"),
    }
}

/// The same, with the leaf widths steered so that the permutation table is exactly full.
pub fn oracle_prove_honest_full(c: &Case) -> Report {
    FULL_TABLE.with(|f| f.set(true));
    let r = oracle_prove_honest(c);
    FULL_TABLE.with(|f| f.set(false));
    r
}

pub fn prove_case_strategy() -> impl Strategy<Value = Case> {
    case_strategy(Just(Fault::None), 4).prop_map(|mut c| {
        c.cfg %= 4;
        c.sweep = false;
        c.max_height = c.max_height.min(32);
        c
    })
}
