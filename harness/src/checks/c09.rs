//! C09 — every witness slot has one creator and balanced multiplicities; no operand floats.
//!
//! Invariant over compiled circuits, recomputed independently from the *committed*
//! preprocessed traces of all tables (decoded by their documented layouts in `pv::prep`).

use std::collections::BTreeMap;

use proptest::prelude::*;
use serde::{Deserialize, Serialize};

use crate::checks::c10::{Case as C10Case, packing};
use crate::dispatch_field;
use crate::e1::{self, Built, GenOpts, Prog};
use crate::fw::{Ctx, Report, Verdict, hash_of};
use crate::pv::{NpoSel, PrepTables, Pv, PvErr};

#[derive(Clone, Debug, Serialize, Deserialize, Hash)]
pub struct Case {
    pub prog: Prog,
    pub public_lanes: u8,
    pub alu_lanes: u8,
    pub horner_k: u8,
}

pub const RULE: &str = "random source programs (all aliasing patterns between constants, public/private inputs, hint \
outputs, ALU outputs, recompose outputs) x packing (public lanes 1-4, ALU lanes 1-4, Horner k 2-4) x 7 field \
configurations; oracle recomputed from the committed preprocessed traces: per slot sum of signed multiplicities = 0, \
at most one creator entry and exactly one if the slot is read, and every operand an ALU relation depends on has a \
non-zero multiplicity whenever its slot is referenced anywhere else; non-trivial = a connect class joining two \
different creator kinds, or a private/hint slot whose first use is an ALU operand; distinct on (program, packing)";

pub fn analyse(t: &PrepTables) -> Result<(), (String, String)> {
    // A. balance and B. creators
    let mut per: BTreeMap<u64, Vec<&crate::pv::BusEntry>> = BTreeMap::new();
    for e in &t.entries {
        per.entry(e.slot).or_default().push(e);
    }
    for (slot, es) in &per {
        let sum: i64 = es.iter().map(|e| e.mult).sum();
        let creators: Vec<_> = es.iter().filter(|e| e.mult > 0).collect();
        let readers = es.iter().filter(|e| e.mult < 0).count();
        let desc = || {
            es.iter()
                .map(|e| format!("{}[{}].{}:{:+}", e.table, e.row, e.pos, e.mult))
                .collect::<Vec<_>>()
                .join(" ")
        };
        if creators.len() > 1 {
            let mut kinds: Vec<String> = creators.iter().map(|e| e.table.clone()).collect();
            kinds.sort();
            return Err((
                format!("C09/multiple-creators:{}", kinds.join("+")),
                format!("slot {slot} has {} creator entries: {}", creators.len(), desc()),
            ));
        }
        if readers > 0 && creators.is_empty() {
            let first = es.iter().find(|e| e.mult < 0).unwrap();
            return Err((
                format!("C09/read-without-creator:{}", first.table),
                format!("slot {slot} is read but never created: {}", desc()),
            ));
        }
        if sum != 0 {
            return Err((
                "C09/unbalanced".to_string(),
                format!("slot {slot}: multiplicities sum to {sum}: {}", desc()),
            ));
        }
    }
    // C. floating operands: an operand position with multiplicity 0 is unconstrained relative
    // to the value other rows see for its slot.  That only matters when some *other* row or
    // table refers to the slot (a creator of a slot nobody else mentions legitimately has
    // multiplicity 0).
    let mut mention_rows: BTreeMap<u64, std::collections::BTreeSet<(u8, usize)>> = BTreeMap::new();
    for (i, op) in t.alu_ops.iter().enumerate() {
        for (pos, slot, _) in &op.operands {
            if *pos == "c" && !matches!(op.kind, "MulAdd" | "HornerAcc") {
                continue;
            }
            mention_rows.entry(*slot).or_default().insert((0, i));
        }
    }
    for e in t.entries.iter().filter(|e| e.table != "alu") {
        let tag = match e.table.as_str() {
            "const" => 1,
            "public" => 2,
            "recompose" => 3,
            _ => 4,
        };
        mention_rows.entry(e.slot).or_default().insert((tag, e.row));
    }
    for (i, op) in t.alu_ops.iter().enumerate() {
        let relevant: &[&str] = match op.kind {
            "Add" | "Mul" => &["a", "b", "out"],
            "MulAdd" | "HornerAcc" => &["a", "b", "c", "out"],
            _ => &["a"], // BoolCheck: the relation is on `a` only
        };
        for (pos, slot, m) in &op.operands {
            if !relevant.contains(pos) || *m != 0 {
                continue;
            }
            let others = mention_rows
                .get(slot)
                .map(|s| s.iter().filter(|r| **r != (0, i)).count())
                .unwrap_or(0);
            if others > 0 {
                return Err((
                    format!("C09/floating-operand:{}.{}", op.kind, pos),
                    format!(
                        "ALU op #{i} ({}) operand {pos} (slot {slot}) has multiplicity 0 but the slot is referenced by {others} other row(s): {:?}",
                        op.kind, op.operands
                    ),
                ));
            }
        }
    }
    Ok(())
}

fn check<C: Pv>(c: &Case) -> Report {
    let (built, linked): (Built<C>, bool) = e1::interpret_linked::<C>(&c.prog, e1::Excl {
        select_ext: true,
        two_creators: true,
        sat_only: true,
    });
    let Built {
        builder,
        mut features,
        excluded,
        connects,
        ..
    } = built;
    if linked {
        features.insert("decompose-links:recompose/coeff".into());
    }
    let circuit = match builder.build() {
        Ok(x) => x,
        Err(e) => return Report::fail("C09/build-error", format!("{e:?}")),
    };
    let horner_ok = e1::horner_shape_ok(&circuit);
    if e1::exclude_known() && !horner_ok {
        return Report::pass().class("excluded_by_known_finding:horner-positional-contract");
    }
    let coeff_ok = e1::coeff_slots_ok(&circuit);
    if e1::exclude_known() && !coeff_ok {
        return Report::pass().class("excluded_by_known_finding:coeff-slot-second-creator");
    }
    let pk = packing(&C10Case {
        prog: Prog {
            field: 0,
            recompose_npo: false,
            stmts: vec![],
        },
        public_lanes: c.public_lanes,
        alu_lanes: c.alu_lanes,
        horner_k: c.horner_k,
        log_min_height: 0,
    });
    let npo = NpoSel {
        recompose: c.prog.recompose_npo,
        debug_lookups: false,
        poseidon2: None,
        poseidon1: None,
    };
    let mixed = connects.iter().any(|(a, b)| a != b);
    let mut rep = Report::pass()
        .class(format!("field:{}", C::NAME))
        .classes(features.iter().map(|f| format!("feat:{f}")))
        .classes(excluded.iter().map(|e| format!("excluded_by_known_finding:{e}")))
        .nontrivial(mixed || features.contains("private") || features.contains("bits") || features.contains("ext-decomp"))
        .key(hash_of(c));
    let t = match C::prep(&circuit, &pk, &npo) {
        Ok(t) => t,
        Err(PvErr::Setup(m)) if m.starts_with("UnclaimedPrivateInput") => {
            return Report::discard("documented: unclaimed private input");
        }
        Err(e) => {
            rep.verdict = Verdict::Fail {
                sig: format!("C09/prep-failed:{}", e.kind()),
                msg: e.msg().to_string(),
            };
            return rep;
        }
    };
    match analyse(&t) {
        Ok(()) => rep.class("outcome:balanced"),
        Err((sig, msg)) => {
            let sig = if !horner_ok {
                "C09/horner-positional-contract".to_string()
            } else if !coeff_ok {
                "C09/coeff-slot-second-creator".to_string()
            } else if features.contains("two-creators") {
                "C09/two-creators".to_string()
            } else if features.contains("npo-duplicate-output") {
                "C09/npo-duplicate-output".to_string()
            } else {
                sig
            };
            if std::env::var("VERIF_DEBUG").is_ok() {
                for op in &circuit.ops {
                    eprintln!("  {}", e1::fmt_op::<C>(op));
                }
                for e in &t.entries {
                    eprintln!("  {e:?}");
                }
            }
            rep.verdict = Verdict::Fail { sig, msg };
            rep.nontrivial = true;
            rep
        }
    }
}

pub fn oracle(c: &Case) -> Report {
    dispatch_field!(c.prog.field as usize, C => check::<C>(c))
}

fn strategy(max_len: usize) -> impl Strategy<Value = Case> {
    (
        e1::prog_strategy(GenOpts {
            violating: false,
            free_connect: true,
            max_len,
            free_horner_weight: 1,
            fields: vec![0, 1, 2, 3, 4, 5, 6],
            ..GenOpts::default()
        }),
        0u8..4,
        0u8..4,
        0u8..3,
    )
        .prop_map(|(prog, public_lanes, alu_lanes, horner_k)| Case {
            prog,
            public_lanes,
            alu_lanes,
            horner_k,
        })
}

pub fn run(ctx: &Ctx) {
    ctx.assume("table layouts as documented in alu_air.rs / public_air.rs / recompose_air.rs (decoded in pv::prep)");
    let n = ctx.tier.pick(120_000, 4_000_000);
    ctx.explore("programs", RULE, n, || strategy(24), oracle);
    ctx.replay_known("programs", |c: &Case| e1::without_exclusions(|| oracle(c)));
    // Library-built circuits with non-primitive tables (Merkle-mode permutation rows, conditional
    // `mmcs_index_sum` reads): the bus entries of those tables are not decoded here; instead the
    // honest execution is proven and verified, which fails exactly when the WitnessChecks bus of
    // the honest traces does not balance (creator multiplicity != number of reads). Half of the
    // cases steer the permutation table to be exactly full (no padding row).
    let n = ctx.tier.pick(300, 20_000);
    ctx.explore("npo-circuits", RULE_NPO, n, crate::checks::c08::prove_case_strategy, |c| npo_oracle(c, false));
    ctx.explore("npo-circuits-full-table", RULE_NPO, n, crate::checks::c08::prove_case_strategy, |c| npo_oracle(c, true));
    // Generated programs rich in extension (de)composition, PROVEN with the recompose tables at
    // 1, 2 or 4 operations per row: what the AIRs put on the bus (as opposed to the per-operation
    // preprocessed data decoded above) balances iff the proof is not rejected with a lookup error.
    let n = ctx.tier.pick(1500, 80_000);
    ctx.explore("programs-proven", RULE_PROVEN, n, || {
        crate::checks::c10::strategy(GenOpts {
            violating: false,
            free_connect: false,
            allow_div: false,
            max_len: 12,
            free_horner_weight: 0,
            fields: vec![1, 3, 4, 6],
            ..GenOpts::default()
        })
        .prop_map(|mut c| {
            c.prog.recompose_npo = true;
            c
        })
    }, proven_oracle);
    // direct permutation programs (sponge / Merkle rows, exposed index sums, exactly full tables)
    ctx.explore("perm-programs", crate::checks::pp::RULE_PROVE, ctx.tier.pick(400, 20_000),
        crate::checks::pp::strategy, |c| crate::checks::pp::oracle_bus(c, "C09/perm-programs"));
    ctx.replay_known("perm-programs", |c: &crate::checks::pp::Case| crate::e1::without_exclusions(|| crate::checks::pp::oracle_bus(c, "C09/perm-programs")));
}

pub const RULE_NPO: &str = "honest MMCS opening circuits (arity-2 and arity-4 degree-4 Poseidon2 configurations, base and extension \
leaves, hiding on/off, caps, mixed heights; optionally with the leaf widths steered so that the permutation table is \
exactly full) built by verify_batch_circuit*, executed, proven with the Poseidon2 and recompose tables registered and \
verified natively. Oracle: the WitnessChecks bus of the honest traces balances, i.e. the proof is not rejected with a \
lookup error (other failures are C10's subject and pass here). Non-trivial = as for C10's mmcs-circuits";

pub const RULE_PROVEN: &str = "satisfied generated programs of the extension-field configurations with the recompose \
tables registered (1, 2 or 4 recompose operations per table row, ALU/public lanes 1-4, Horner pack size 2-6), executed, \
proven and verified natively. Oracle: the proof is not rejected with a lookup error, i.e. the WitnessChecks bus as the \
AIRs evaluate it balances (other failures are C10's subject and pass here). Non-trivial as for C10's sat-programs";

fn proven_oracle(c: &C10Case) -> Report {
    let mut r = crate::checks::c10::oracle(c);
    if let crate::fw::Verdict::Fail { sig, msg } = &r.verdict {
        let lookup = msg.contains("ookup") || msg.contains("multiplicity") || msg.contains("umulative");
        if lookup {
            r.verdict = crate::fw::Verdict::Fail {
                sig: sig.replacen("C10/", "C09/programs-proven/bus-unbalanced:", 1),
                msg: msg.clone(),
            };
        } else {
            r.verdict = crate::fw::Verdict::Pass;
            r.classes.push("outcome:failed-for-another-reason(C10's subject)".into());
        }
    }
    r
}

fn npo_oracle(c: &crate::checks::c08::Case, full: bool) -> Report {
    let mut r = if full {
        crate::checks::c08::oracle_prove_honest_full(c)
    } else {
        crate::checks::c08::oracle_prove_honest(c)
    };
    if let crate::fw::Verdict::Fail { sig, msg } = &r.verdict {
        let lookup = msg.contains("Lookup") || msg.contains("lookup") || msg.contains("multiplicity");
        if lookup {
            r.verdict = crate::fw::Verdict::Fail {
                sig: sig.replacen("C10/mmcs-circuit", "C09/npo-circuit-bus-unbalanced", 1),
                msg: msg.clone(),
            };
        } else {
            r.verdict = crate::fw::Verdict::Pass;
            r.classes.push("outcome:failed-for-another-reason(C10's subject)".into());
        }
    }
    r
}
