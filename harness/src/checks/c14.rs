//! C14 — proof data is packed in allocation order and every input matters.
//!
//! For a proof *shape* (family x field x AIR dimensions x FRI parameters) two independent honest
//! proofs A and B are produced natively (different traces / seeds).  The verification circuit is
//! built from A (`StarkVerifierInputsBuilder::allocate` / `BatchStarkVerifierInputsBuilder::allocate`
//! + `verify_p3_uni_proof_circuit` / `verify_batch_circuit` / `verify_p3_batch_proof_circuit`, MMCS
//! verification enabled) and is fed with the vectors packed from B (`pack_values`,
//! `set_*_fri_mmcs_private_data`).
//!
//! Oracle
//! 1. `public.len() == circuit.public_flat_len`, `private.len() == circuit.private_flat_len`, and
//!    the run with B is accepted (native accepts B).
//! 2. The public-field target structures (`ProofTargets`, `BatchProofTargets`, `CommitmentTargets`,
//!    `OpenedValuesTargets(WithLookups)`, `FriProofTargets`, `HidingFriProofTargets`,
//!    `QueryProofTargets`, `BatchOpeningTargets`, `CommitPhaseProofStepTargets`, `MerkleCapTargets`,
//!    `Witness`, salts) are walked by THIS file in parallel with B's serialised native proof
//!    (`serde_json::to_value`): every allocated target must hold, after the run, the proof element
//!    it is documented to carry.  The walk also yields the map  position of a packed vector ->
//!    proof element  (through the witness index of the target).
//! 3. One position of one packed vector is changed by a non-zero delta; the circuit run must fail
//!    IFF native verification (p3-uni-stark / p3-batch-stark / `verify_all_tables`) rejects the
//!    proof in which the mapped element got the same change.  A third "vector" are the Merkle
//!    sibling digests handed over by `set_*_fri_mmcs_private_data` (changed inside the proof).
//!    For base-typed inputs (lifted representation) an extension-valued delta has no native
//!    counterpart; it is checked one-directionally: if the base part of that delta makes native
//!    reject, the circuit must reject too.
//!
//! Positions that no walked target maps to are reported in class `unmapped-position`.

#![allow(clippy::type_complexity)]

use std::collections::HashMap;
use std::rc::Rc;
use std::sync::atomic::{AtomicU64, Ordering};
use std::time::Instant;

use p3_air::{Air, AirBuilder, BaseAir, WindowAccess};
use p3_circuit::{Circuit, CircuitBuilder, CircuitRunner, NonPrimitiveOpId, WitnessId};
use p3_field::{Field, PrimeCharacteristicRing};
use p3_matrix::dense::RowMajorMatrix;
use p3_recursion::Target;
use p3_recursion::pcs::{
    CommitPhaseProofStepTargets, FriProofTargets, HidingFriProofTargets, InputProofTargets,
    MerkleCapTargets, MmcsProofTargets,
};
use p3_recursion::traits::{RecursiveExtensionMmcs, RecursiveMmcs};
use p3_recursion::types::{
    CommitmentTargets, OpenedValuesTargets, OpenedValuesTargetsWithLookups,
};
use p3_recursion::{Recursive, pcs::Witness};
use p3_uni_stark::StarkGenericConfig;
use proptest::prelude::*;
use rand::rngs::SmallRng;
use rand::{RngExt, SeedableRng};
use serde::{Deserialize, Serialize};
use serde_json::Value;

use crate::fields::Fc;
use crate::fw::{self, Ctx, Report, catch, sig_of_panic};
use crate::jsonmut::{self, Path, PathSeg};

// ------------------------------------------------------------------------------------------
// case types
// ------------------------------------------------------------------------------------------

#[derive(Clone, Debug, Serialize, Deserialize, Hash, PartialEq, Eq)]
pub struct FriShape {
    pub log_blowup: u8,
    pub num_queries: u8,
    pub max_log_arity: u8,
    pub log_final_poly_len: u8,
    pub commit_pow_bits: u8,
    pub query_pow_bits: u8,
    pub cap_height: u8,
}

#[derive(Clone, Debug, Serialize, Deserialize, Hash, PartialEq, Eq)]
pub struct Shape {
    /// see `FAMILIES`
    pub family: u8,
    /// 0 = BabyBear D4, 1 = KoalaBear D4
    pub field: u8,
    /// log2 of the trace height (2..=6 after clamping)
    pub log_rows: u8,
    /// number of repetitions of the AIR's column group (width knob), 1..=5
    pub reps: u8,
    /// constraint degree of the Mul AIR (2..=4 -> 1, 2, 4 quotient chunks)
    pub degree: u8,
    /// batch families: AIR kinds of the tables (see `TKind`), 1..=4 entries
    pub tables: Vec<u8>,
    pub fri: FriShape,
}

#[derive(Clone, Debug, Serialize, Deserialize, Hash, PartialEq, Eq)]
pub struct Pick {
    /// which vector: see `vec_of`
    pub vec: u8,
    /// position, mapped monotonically onto the vector's length
    pub pos: u16,
    /// seed of the non-zero delta
    pub delta: u32,
    /// extension-valued delta also on base-typed inputs
    pub ext: bool,
}

#[derive(Clone, Debug, Serialize, Deserialize, Hash, PartialEq, Eq)]
pub struct Case {
    pub shape: Shape,
    pub seed_a: u64,
    pub seed_b: u64,
    pub picks: Vec<Pick>,
    /// thorough tier: every position of every vector (deltas derived from `seed_b`)
    #[serde(default)]
    pub all: bool,
}

pub const FAMILIES: [&str; 8] = [
    "uni-fib",
    "uni-mul-prep",
    "uni-other",
    "batch-mixed",
    "batch-lookups",
    "batch-zk",
    "batch-zk-hiding-mmcs",
    // uni-STARK over HidingFriPcs: rejected by its own circuit until the transcript repair
    // (FRI random opened values were not observed); generated since then
    "uni-zk",
];

/// Resolved shape (clamps / modular maps applied; everything the families consume).
#[derive(Clone, Debug)]
pub struct RShape {
    pub family: usize,
    pub field: usize,
    pub log_rows: usize,
    pub reps: usize,
    pub degree: usize,
    pub tables: Vec<usize>,
    /// first table kind before reduction (values 4..8 are only reachable from hand-written replays)
    pub raw_table0: usize,
    pub log_blowup: usize,
    pub num_queries: usize,
    pub max_log_arity: usize,
    pub log_final_poly_len: usize,
    pub commit_pow_bits: usize,
    pub query_pow_bits: usize,
    pub cap_height: usize,
}

/// Height of table `t` of a batch (different heights -> FRI roll-ins).
pub fn table_log_rows(log_rows: usize, t: usize) -> usize {
    (log_rows + 1).saturating_sub(t % 3).max(2)
}

pub fn resolve(s: &Shape) -> RShape {
    let family = (s.family as usize) % FAMILIES.len();
    let zk = matches!(family, 5 | 6 | 7);
    let degree = 2 + (s.degree as usize) % 3;
    // quotient chunks = next_pow2(degree-1) (x2 under ZK); the LDE must be at least that large
    // the Mul table's first-row constraint `is_first_row * (a*a + 1 - b)` has degree 3
    let log_chunks = if degree <= 3 { 1 } else { 2 };
    let uses_mul = match family {
        1 | 2 | 7 => true,
        3 | 5 | 6 => true,
        _ => false,
    };
    let min_blowup = if uses_mul { (log_chunks + usize::from(zk)).max(1) } else { 1 };
    let log_blowup = (1 + (s.fri.log_blowup as usize) % 3).max(min_blowup).min(3);
    let degree = if uses_mul && log_chunks + usize::from(zk) > log_blowup { 3 } else { degree };
    let mut tables: Vec<usize> = s.tables.iter().map(|&t| (t as usize) % 4).take(4).collect();
    if tables.is_empty() {
        tables.push(0);
    }
    if matches!(family, 5 | 6) {
        // p3's HidingFriPcs takes a spin lock on its RNG and then enters rayon; with >= 2
        // instances `prove_batch` calls it from a parallel iterator and a worker that steals the
        // second instance's job while holding the lock spins forever (native prover deadlock,
        // upstream, timing dependent).  The repository's ZK tests prove a single instance.
        tables.truncate(1);
    }
    let log_rows = 2 + (s.log_rows as usize) % 5;
    // p3-fri prover precondition: every committed matrix is strictly taller than the final
    // polynomial (log height > log_final_poly_len)
    let min_log_rows = match family {
        3 | 5 | 6 => (0..tables.len()).map(|t| table_log_rows(log_rows, t)).min().unwrap(),
        _ => log_rows,
    };
    let log_final_poly_len = ((s.fri.log_final_poly_len as usize) % 3).min(min_log_rows - 1);
    RShape {
        family,
        field: (s.field as usize) % 2,
        log_rows,
        reps: 1 + (s.reps as usize) % 5,
        degree,
        raw_table0: s.tables.first().map(|&t| (t as usize) % 8).unwrap_or(0),
        tables,
        log_blowup,
        num_queries: 1 + (s.fri.num_queries as usize) % 3,
        max_log_arity: 1 + (s.fri.max_log_arity as usize) % 3,
        log_final_poly_len,
        commit_pow_bits: [0usize, 1, 3][(s.fri.commit_pow_bits as usize) % 3],
        query_pow_bits: [0usize, 1, 3][(s.fri.query_pow_bits as usize) % 3],
        cap_height: (s.fri.cap_height as usize) % 3,
    }
}

// ------------------------------------------------------------------------------------------
// AIRs (seeded, so that two honest instances of one shape share no value by construction)
// ------------------------------------------------------------------------------------------

/// Table kinds: 0 Mul (preprocessed a,b; main c = a^(d-1) b; next-row access on preprocessed),
/// 1 Add (no preprocessed, no next row), 2 Sub (one preprocessed column per group),
/// 3 Fib (public values, next-row access on main).
#[derive(Clone, Copy, Debug, PartialEq, Eq)]
pub enum TKind {
    Mul,
    Add,
    Sub,
    Fib,
}

#[derive(Clone, Copy, Debug)]
pub struct TAir {
    pub kind: TKind,
    pub log_rows: usize,
    pub reps: usize,
    pub degree: u64,
    pub seed: u64,
}

impl TAir {
    pub fn rows(&self) -> usize {
        1 << self.log_rows
    }
    fn prep<V: Field>(&self) -> Option<RowMajorMatrix<V>> {
        let mut rng = SmallRng::seed_from_u64(self.seed ^ 0x5EED_0001);
        let rows = self.rows();
        match self.kind {
            TKind::Mul => {
                let w = 2 * self.reps;
                let off = rng.random::<u32>() as u64;
                let mut v = V::zero_vec(rows * w);
                for r in 0..rows {
                    for j in 0..self.reps {
                        let a = V::from_u64(off) + V::from_usize(r * self.reps + j);
                        let b = if r == 0 {
                            a.square() + V::ONE
                        } else {
                            V::from_u64(rng.random::<u32>() as u64)
                        };
                        v[r * w + 2 * j] = a;
                        v[r * w + 2 * j + 1] = b;
                    }
                }
                Some(RowMajorMatrix::new(v, w))
            }
            TKind::Sub => {
                let w = self.reps;
                let v: Vec<V> = (0..rows * w)
                    .map(|_| V::from_u64(rng.random::<u32>() as u64))
                    .collect();
                Some(RowMajorMatrix::new(v, w))
            }
            _ => None,
        }
    }
    /// (main trace, public values)
    pub fn trace<V: Field>(&self) -> (RowMajorMatrix<V>, Vec<V>) {
        let mut rng = SmallRng::seed_from_u64(self.seed ^ 0x5EED_0002);
        let rows = self.rows();
        let rnd = |rng: &mut SmallRng| V::from_u64(rng.random::<u32>() as u64);
        match self.kind {
            TKind::Mul => {
                let p = self.prep::<V>().unwrap();
                let w = self.reps;
                let mut v = V::zero_vec(rows * w);
                for r in 0..rows {
                    for j in 0..w {
                        let a = p.values[r * 2 * w + 2 * j];
                        let b = p.values[r * 2 * w + 2 * j + 1];
                        v[r * w + j] = a.exp_u64(self.degree - 1) * b;
                    }
                }
                (RowMajorMatrix::new(v, w), vec![])
            }
            TKind::Add => {
                let w = 3 * self.reps;
                let mut v = V::zero_vec(rows * w);
                for r in 0..rows {
                    for j in 0..self.reps {
                        let (a, b) = (rnd(&mut rng), rnd(&mut rng));
                        v[r * w + 3 * j] = a;
                        v[r * w + 3 * j + 1] = b;
                        v[r * w + 3 * j + 2] = a + b;
                    }
                }
                (RowMajorMatrix::new(v, w), vec![])
            }
            TKind::Sub => {
                let p = self.prep::<V>().unwrap();
                let w = 2 * self.reps;
                let mut v = V::zero_vec(rows * w);
                for r in 0..rows {
                    for j in 0..self.reps {
                        let a = rnd(&mut rng);
                        v[r * w + 2 * j] = a;
                        v[r * w + 2 * j + 1] = a - p.values[r * self.reps + j];
                    }
                }
                (RowMajorMatrix::new(v, w), vec![])
            }
            TKind::Fib => {
                // `reps` independent Fibonacci sequences; public values (a, b, x) per sequence
                let w = 2 * self.reps;
                let mut v = V::zero_vec(rows * w);
                let mut pis = vec![];
                for j in 0..self.reps {
                    let (a, b) = (rnd(&mut rng), rnd(&mut rng));
                    v[2 * j] = a;
                    v[2 * j + 1] = b;
                    for r in 1..rows {
                        v[r * w + 2 * j] = v[(r - 1) * w + 2 * j + 1];
                        v[r * w + 2 * j + 1] = v[(r - 1) * w + 2 * j] + v[(r - 1) * w + 2 * j + 1];
                    }
                    pis.extend([a, b, v[(rows - 1) * w + 2 * j + 1]]);
                }
                (RowMajorMatrix::new(v, w), pis)
            }
        }
    }
}

impl<V: Field> BaseAir<V> for TAir {
    fn width(&self) -> usize {
        match self.kind {
            TKind::Mul => self.reps,
            TKind::Add => 3 * self.reps,
            TKind::Sub | TKind::Fib => 2 * self.reps,
        }
    }
    fn preprocessed_width(&self) -> usize {
        match self.kind {
            TKind::Mul => 2 * self.reps,
            TKind::Sub => self.reps,
            _ => 0,
        }
    }
    fn preprocessed_trace(&self) -> Option<RowMajorMatrix<V>> {
        self.prep::<V>()
    }
    fn num_public_values(&self) -> usize {
        if self.kind == TKind::Fib { 3 * self.reps } else { 0 }
    }
    fn main_next_row_columns(&self) -> Vec<usize> {
        match self.kind {
            // single-row AIR: the prover then opens the main trace at zeta only (`trace_next: None`)
            TKind::Add => vec![],
            _ => (0..<Self as BaseAir<V>>::width(self)).collect(),
        }
    }
}

impl<AB: AirBuilder> Air<AB> for TAir
where
    AB::F: Field,
{
    fn eval(&self, builder: &mut AB) {
        match self.kind {
            TKind::Mul => {
                let main = builder.main();
                let local: Vec<AB::Var> = main.current_slice().to_vec();
                let prep = builder.preprocessed().clone();
                let pl: Vec<AB::Var> = prep.current_slice().to_vec();
                let pn: Vec<AB::Var> = prep.next_slice().to_vec();
                for (j, c) in local.iter().enumerate() {
                    let a = pl[2 * j];
                    let b = pl[2 * j + 1];
                    builder.assert_zero(a.into().exp_u64(self.degree - 1) * b - *c);
                    builder.when_first_row().assert_eq(a * a + AB::Expr::ONE, b);
                    builder
                        .when_transition()
                        .assert_eq(a + AB::Expr::from_u8(self.reps as u8), pn[2 * j]);
                }
            }
            TKind::Add => {
                let main = builder.main();
                let l: Vec<AB::Var> = main.current_slice().to_vec();
                for j in 0..self.reps {
                    builder.assert_zero(l[3 * j] + l[3 * j + 1] - l[3 * j + 2]);
                }
            }
            TKind::Sub => {
                let main = builder.main();
                let l: Vec<AB::Var> = main.current_slice().to_vec();
                let prep = builder.preprocessed().clone();
                let pl: Vec<AB::Var> = prep.current_slice().to_vec();
                for j in 0..self.reps {
                    builder.assert_zero(l[2 * j] - pl[j] - l[2 * j + 1]);
                }
            }
            TKind::Fib => {
                let main = builder.main();
                let l: Vec<AB::Var> = main.current_slice().to_vec();
                let n: Vec<AB::Var> = main.next_slice().to_vec();
                let pis: Vec<AB::PublicVar> = builder.public_values().to_vec();
                for j in 0..self.reps {
                    let (a, b, x) = (pis[3 * j], pis[3 * j + 1], pis[3 * j + 2]);
                    builder.when_first_row().assert_eq(l[2 * j], a);
                    builder.when_first_row().assert_eq(l[2 * j + 1], b);
                    builder.when_transition().assert_eq(l[2 * j + 1], n[2 * j]);
                    builder
                        .when_transition()
                        .assert_eq(l[2 * j] + l[2 * j + 1], n[2 * j + 1]);
                    builder.when_last_row().assert_eq(l[2 * j + 1], x);
                }
            }
        }
    }
}

// ------------------------------------------------------------------------------------------
// slots: (allocated target, proof element it is documented to carry)
// ------------------------------------------------------------------------------------------

#[derive(Clone, Debug)]
pub struct Slot {
    pub target: Option<Target>,
    /// JSON path of the element inside the bundle
    pub path: Path,
    /// element is a challenge-field element (D coefficients); otherwise one base-field value
    /// carried in lifted representation
    pub ext: bool,
    /// target-structure field (histogram label)
    pub field: String,
}

fn k(s: &str) -> PathSeg {
    PathSeg::Key(s.to_string())
}
fn i(n: usize) -> PathSeg {
    PathSeg::Idx(n)
}
fn join(base: &Path, more: &[PathSeg]) -> Path {
    let mut p = base.clone();
    p.extend(more.iter().cloned());
    p
}

/// A serialised field element (p3 fields serialise their internal representation, so values
/// always go through serde): a number is a base-field value (lifted), anything else a
/// challenge-field element.
pub fn read_elem<C: Fc>(v: &Value) -> Option<C::EF> {
    match v {
        Value::Number(_) => C::BF::deserialize(v).ok().map(C::EF::from),
        Value::Null => None,
        _ => C::EF::deserialize(v).ok(),
    }
}

/// `leaf += delta` (delta given by canonical coefficients); `None` if the delta does not fit
/// the leaf's type.
fn add_elem<C: Fc>(leaf: &mut Value, delta: &[u64]) -> Option<()> {
    match leaf {
        Value::Number(_) => {
            if delta[1..].iter().any(|&x| x != 0) {
                return None;
            }
            let x = C::BF::deserialize(&*leaf).ok()? + C::BF::from_u64(delta[0]);
            *leaf = serde_json::to_value(x).ok()?;
        }
        _ => {
            let x = C::EF::deserialize(&*leaf).ok()? + C::ef(delta);
            *leaf = serde_json::to_value(x).ok()?;
        }
    }
    Some(())
}

fn arr_len(v: &Value, p: &Path) -> usize {
    match jsonmut::get(v, p) {
        Some(Value::Array(a)) => a.len(),
        _ => 0,
    }
}
fn is_null(v: &Value, p: &Path) -> bool {
    matches!(jsonmut::get(v, p), None | Some(Value::Null))
}

/// Collects slots; every structural disagreement between the target structures and the native
/// proof (lengths, options) is recorded and reported as a violation of oracle (2).
pub struct Walk<'a> {
    pub json: &'a Value,
    pub slots: Vec<Slot>,
    pub problems: Vec<String>,
}

impl<'a> Walk<'a> {
    pub fn new(json: &'a Value) -> Self {
        Self { json, slots: vec![], problems: vec![] }
    }
    fn push(&mut self, t: Target, path: Path, ext: bool, field: &str) {
        self.slots.push(Slot { target: Some(t), path, ext, field: field.to_string() });
    }
    /// `targets[j]` <-> `base[j]`
    fn vec(&mut self, targets: &[Target], base: &Path, ext: bool, field: &str) {
        let n = arr_len(self.json, base);
        if n != targets.len() {
            self.problems.push(format!(
                "{field}: {} targets allocated but the proof has {n} elements at {}",
                targets.len(),
                jsonmut::path_string(base)
            ));
        }
        for (j, t) in targets.iter().enumerate().take(n) {
            self.push(*t, join(base, &[i(j)]), ext, field);
        }
    }
    /// optional vector: `None` target <-> JSON null
    fn opt_vec(&mut self, targets: Option<&Vec<Target>>, base: &Path, ext: bool, field: &str) {
        match (targets, is_null(self.json, base)) {
            (Some(t), false) => self.vec(t, base, ext, field),
            (None, true) => {}
            (Some(t), true) if t.is_empty() => {}
            (a, b) => self.problems.push(format!(
                "{field}: targets present = {}, proof element present = {}",
                a.is_some(),
                !b
            )),
        }
    }
    pub fn cap<F, const DE: usize>(&mut self, cap: &MerkleCapTargets<F, DE>, base: &Path, field: &str) {
        let b = join(base, &[k("cap")]);
        let n = arr_len(self.json, &b);
        if n != cap.cap_targets.len() {
            self.problems.push(format!("{field}: {} cap entries allocated, proof has {n}", cap.cap_targets.len()));
        }
        for (r, entry) in cap.cap_targets.iter().enumerate().take(n) {
            self.vec(entry, &join(&b, &[i(r)]), false, field);
        }
    }
    pub fn opt_cap<F, const DE: usize>(
        &mut self,
        cap: Option<&MerkleCapTargets<F, DE>>,
        base: &Path,
        field: &str,
    ) {
        match (cap, is_null(self.json, base)) {
            (Some(c), false) => self.cap(c, base, field),
            (None, true) => {}
            (a, b) => self.problems.push(format!(
                "{field}: commitment targets present = {}, commitment present = {}",
                a.is_some(),
                !b
            )),
        }
    }
    pub fn commitments<EF: Field, F, const DE: usize>(
        &mut self,
        c: &CommitmentTargets<EF, MerkleCapTargets<F, DE>>,
        base: &Path,
        trace_key: &str,
    ) where
        MerkleCapTargets<F, DE>: Recursive<EF>,
    {
        self.cap(&c.trace_targets, &join(base, &[k(trace_key)]), "commitments.trace");
        if trace_key == "main" {
            self.opt_cap(c.permutation_targets.as_ref(), &join(base, &[k("permutation")]), "commitments.permutation");
        }
        self.cap(&c.quotient_chunks_targets, &join(base, &[k("quotient_chunks")]), "commitments.quotient_chunks");
        self.opt_cap(c.random_commit.as_ref(), &join(base, &[k("random")]), "commitments.random");
    }
    /// uni-STARK opened values
    pub fn opened<SC: StarkGenericConfig>(&mut self, o: &OpenedValuesTargets<SC>, base: &Path) {
        self.vec(&o.trace_local_targets, &join(base, &[k("trace_local")]), true, "opened.trace_local");
        let tn = join(base, &[k("trace_next")]);
        if is_null(self.json, &tn) {
            if !o.trace_next_targets.is_empty() {
                self.problems.push("opened.trace_next: targets allocated but the proof has none".into());
            }
        } else {
            self.vec(&o.trace_next_targets, &tn, true, "opened.trace_next");
        }
        self.opt_vec(o.preprocessed_local_targets.as_ref(), &join(base, &[k("preprocessed_local")]), true, "opened.preprocessed_local");
        self.opt_vec(o.preprocessed_next_targets.as_ref(), &join(base, &[k("preprocessed_next")]), true, "opened.preprocessed_next");
        let qc = join(base, &[k("quotient_chunks")]);
        let n = arr_len(self.json, &qc);
        if n != o.quotient_chunks_targets.len() {
            self.problems.push(format!("opened.quotient_chunks: {} chunks allocated, proof has {n}", o.quotient_chunks_targets.len()));
        }
        for (c, ch) in o.quotient_chunks_targets.iter().enumerate().take(n) {
            self.vec(ch, &join(&qc, &[i(c)]), true, "opened.quotient_chunks");
        }
        self.opt_vec(o.random_targets.as_ref(), &join(base, &[k("random")]), true, "opened.random");
    }
    /// batch-STARK: the documented layout of `flattened_opened_values_targets` — per field, the
    /// instances' values concatenated in instance order; quotient chunks instance-major.
    pub fn opened_flattened<SC: StarkGenericConfig>(
        &mut self,
        f: &OpenedValuesTargetsWithLookups<SC>,
        instances: &Path,
    ) {
        let n_inst = arr_len(self.json, instances);
        let o = &f.opened_values_no_lookups;
        let empty: Vec<Target> = vec![];
        let fields: [(&str, &[Target], bool); 7] = [
            ("trace_local", &o.trace_local_targets, true),
            ("trace_next", &o.trace_next_targets, true),
            ("preprocessed_local", o.preprocessed_local_targets.as_ref().unwrap_or(&empty), true),
            ("preprocessed_next", o.preprocessed_next_targets.as_ref().unwrap_or(&empty), true),
            ("random", o.random_targets.as_ref().unwrap_or(&empty), true),
            ("permutation_local", &f.permutation_local_targets, false),
            ("permutation_next", &f.permutation_next_targets, false),
        ];
        for (name, targets, in_base) in fields {
            let mut off = 0usize;
            for inst in 0..n_inst {
                let p = if in_base {
                    join(instances, &[i(inst), k("base_opened_values"), k(name)])
                } else {
                    join(instances, &[i(inst), k(name)])
                };
                let n = arr_len(self.json, &p);
                if off + n > targets.len() {
                    self.problems.push(format!("opened.{name}: flattened targets exhausted at instance {inst}"));
                    break;
                }
                self.vec(&targets[off..off + n], &p, true, &format!("opened.{name}"));
                off += n;
            }
            if off != targets.len() {
                self.problems.push(format!("opened.{name}: {} flattened targets, proof instances hold {off}", targets.len()));
            }
        }
        let mut c_off = 0usize;
        for inst in 0..n_inst {
            let p = join(instances, &[i(inst), k("base_opened_values"), k("quotient_chunks")]);
            let n = arr_len(self.json, &p);
            for c in 0..n {
                match o.quotient_chunks_targets.get(c_off) {
                    Some(t) => self.vec(t, &join(&p, &[i(c)]), true, "opened.quotient_chunks"),
                    None => self.problems.push("opened.quotient_chunks: flattened chunk targets exhausted".into()),
                }
                c_off += 1;
            }
        }
        if c_off != o.quotient_chunks_targets.len() {
            self.problems.push(format!("opened.quotient_chunks: {} flattened chunks, proof holds {c_off}", o.quotient_chunks_targets.len()));
        }
    }
    pub fn lookup_terminals(&mut self, ts: &[Option<Target>], base: &Path) {
        let n = arr_len(self.json, base);
        if n != ts.len() {
            self.problems.push(format!("lookup_terminals: {} allocated, proof has {n}", ts.len()));
        }
        for (t, tt) in ts.iter().enumerate().take(n) {
            let p = join(base, &[i(t)]);
            match (tt, is_null(self.json, &p)) {
                (Some(x), false) => self.push(*x, p, true, "lookup_terminals"),
                (None, true) => {}
                _ => self.problems.push(format!("lookup_terminals[{t}]: presence differs between targets and proof")),
            }
        }
    }
    fn salts(&mut self, salts: &[Vec<Target>], opening_proof: &Path, field: &str) {
        if salts.is_empty() {
            return;
        }
        // hiding MMCS proof = (salts, siblings)
        let sp = join(opening_proof, &[i(0)]);
        let n = arr_len(self.json, &sp);
        if n != salts.len() {
            self.problems.push(format!("{field}: {} salt vectors allocated, proof has {n}", salts.len()));
        }
        for (m, s) in salts.iter().enumerate().take(n) {
            self.vec(s, &join(&sp, &[i(m)]), false, field);
        }
    }
    pub fn fri<F, EF, RecMmcs, Inner>(
        &mut self,
        fri: &FriProofTargets<F, EF, RecMmcs, InputProofTargets<F, EF, Inner>, Witness<F>>,
        base: &Path,
        d: usize,
    ) where
        F: Field,
        EF: p3_field::ExtensionField<F>,
        RecMmcs: RecursiveExtensionMmcs<F, EF>,
        RecMmcs::Commitment: CapLike,
        RecMmcs::Proof: MmcsProofTargets,
        Inner: RecursiveMmcs<F, EF>,
        Inner::Proof: MmcsProofTargets,
    {
        let cp = join(base, &[k("commit_phase_commits")]);
        let n = arr_len(self.json, &cp);
        if n != fri.commit_phase_commits.len() {
            self.problems.push(format!("fri.commit_phase_commits: {} allocated, proof has {n}", fri.commit_phase_commits.len()));
        }
        for (p, c) in fri.commit_phase_commits.iter().enumerate().take(n) {
            c.walk_cap(self, &join(&cp, &[i(p)]), "fri.commit_phase_commits");
        }
        let pw: Vec<Target> = fri.commit_pow_witnesses.iter().map(|w| w.witness).collect();
        self.vec(&pw, &join(base, &[k("commit_pow_witnesses")]), false, "fri.commit_pow_witnesses");
        let qp = join(base, &[k("query_proofs")]);
        let nq = arr_len(self.json, &qp);
        if nq != fri.query_proofs.len() {
            self.problems.push(format!("fri.query_proofs: {} allocated, proof has {nq}", fri.query_proofs.len()));
        }
        for (q, qt) in fri.query_proofs.iter().enumerate().take(nq) {
            let ip = join(&qp, &[i(q), k("input_proof")]);
            let nb = arr_len(self.json, &ip);
            if nb != qt.input_proof.len() {
                self.problems.push(format!("fri.input_proof: {} batches allocated, proof has {nb}", qt.input_proof.len()));
            }
            for (b, bt) in qt.input_proof.iter().enumerate().take(nb) {
                let ov = join(&ip, &[i(b), k("opened_values")]);
                let nm = arr_len(self.json, &ov);
                if nm != bt.opened_values.len() {
                    self.problems.push(format!("fri.input_proof.opened_values: {} matrices allocated, proof has {nm}", bt.opened_values.len()));
                }
                for (m, mt) in bt.opened_values.iter().enumerate().take(nm) {
                    self.vec(mt, &join(&ov, &[i(m)]), false, "fri.input_proof.opened_values");
                }
                self.salts(bt.opening_proof.salt_targets(), &join(&ip, &[i(b), k("opening_proof")]), "fri.input_proof.salts");
            }
            let co = join(&qp, &[i(q), k("commit_phase_openings")]);
            let np = arr_len(self.json, &co);
            if np != qt.commit_phase_openings.len() {
                self.problems.push(format!("fri.commit_phase_openings: {} allocated, proof has {np}", qt.commit_phase_openings.len()));
            }
            for (p, st) in qt.commit_phase_openings.iter().enumerate().take(np) {
                let st: &CommitPhaseProofStepTargets<F, EF, RecMmcs> = st;
                let sv = join(&co, &[i(p), k("sibling_values")]);
                let ns = arr_len(self.json, &sv);
                if ns * d != st.sibling_coefficients.len() {
                    self.problems.push(format!(
                        "fri.sibling_coefficients: {} allocated, proof has {ns} siblings x {d}",
                        st.sibling_coefficients.len()
                    ));
                }
                for (j, t) in st.sibling_coefficients.iter().enumerate().take(ns * d) {
                    // documented layout: [sib0_c0 .. sib0_c{D-1}, sib1_c0, ..]
                    let mut path = join(&sv, &[i(j / d)]);
                    // descend into a one-field wrapper object if the extension serialises as one
                    if let Some(Value::Object(o)) = jsonmut::get(self.json, &path) {
                        if o.contains_key("value") {
                            path.push(k("value"));
                        } else if let Some(key) = o.keys().next() {
                            path.push(k(key));
                        }
                    }
                    path.push(i(j % d));
                    self.push(*t, path, false, "fri.sibling_coefficients");
                }
                self.salts(st.opening_proof.salt_targets(), &join(&co, &[i(p), k("opening_proof")]), "fri.commit_phase.salts");
            }
        }
        self.vec(&fri.final_poly, &join(base, &[k("final_poly")]), true, "fri.final_poly");
        self.push(fri.pow_witness.witness, join(base, &[k("query_pow_witness")]), false, "fri.query_pow_witness");
    }
    pub fn hiding_fri<F, EF, RecMmcs, Inner>(
        &mut self,
        h: &HidingFriProofTargets<F, EF, RecMmcs, InputProofTargets<F, EF, Inner>, Witness<F>>,
        base: &Path,
        d: usize,
    ) where
        F: Field,
        EF: p3_field::ExtensionField<F>,
        RecMmcs: RecursiveExtensionMmcs<F, EF>,
        RecMmcs::Commitment: CapLike,
        RecMmcs::Proof: MmcsProofTargets,
        Inner: RecursiveMmcs<F, EF>,
        Inner::Proof: MmcsProofTargets,
    {
        // HidingFriPcs proof = (random opened values: rounds -> matrices -> points -> values, inner)
        let ro = join(base, &[i(0)]);
        let nr = arr_len(self.json, &ro);
        let rounds = &h.random_opened_values.rounds;
        if nr != rounds.len() {
            self.problems.push(format!("hiding.random_opened_values: {} rounds allocated, proof has {nr}", rounds.len()));
        }
        for (r, mats) in rounds.iter().enumerate().take(nr) {
            let nm = arr_len(self.json, &join(&ro, &[i(r)]));
            if nm != mats.len() {
                self.problems.push(format!("hiding.random_opened_values: round {r}: {} matrices allocated, proof has {nm}", mats.len()));
            }
            for (m, pts) in mats.iter().enumerate().take(nm) {
                let np = arr_len(self.json, &join(&ro, &[i(r), i(m)]));
                if np != pts.len() {
                    self.problems.push(format!("hiding.random_opened_values: round {r} matrix {m}: {} points allocated, proof has {np}", pts.len()));
                }
                for (p, vals) in pts.iter().enumerate().take(np) {
                    self.vec(vals, &join(&ro, &[i(r), i(m), i(p)]), true, "hiding.random_opened_values");
                }
            }
        }
        self.fri(&h.inner_proof, &join(base, &[i(1)]), d);
    }
}

/// `RecMmcs::Commitment` is an associated type; this lets the generic FRI walker reach the cap.
pub trait CapLike {
    fn walk_cap(&self, w: &mut Walk<'_>, base: &Path, field: &str);
}
impl<F, const DE: usize> CapLike for MerkleCapTargets<F, DE> {
    fn walk_cap(&self, w: &mut Walk<'_>, base: &Path, field: &str) {
        w.cap(self, base, field);
    }
}

// ------------------------------------------------------------------------------------------
// prepared shape: circuit from A, everything needed to feed B and to ask the native verifier
// ------------------------------------------------------------------------------------------

pub struct Prepared<C: Fc> {
    pub circuit: Circuit<C::EF>,
    pub slots: Vec<Slot>,
    pub walk_problems: Vec<String>,
    /// elements carried by the LAST public positions (documented order only; no target to walk)
    pub tail: Vec<(Path, String)>,
    pub json_a: Value,
    pub json_b: Value,
    /// typed `pack_values` on the bundle
    pub pack: Box<dyn Fn(&Value) -> Result<(Vec<C::EF>, Vec<C::EF>), String>>,
    /// `set_*_fri_mmcs_private_data` from the bundle's opening proof
    pub set_mmcs: Box<dyn Fn(&mut CircuitRunner<'_, C::EF>, &Value) -> Result<(), String>>,
    /// native verifier on the bundle
    pub native: Box<dyn Fn(&Value) -> Result<(), String>>,
    pub classes: Vec<String>,
}

#[derive(Clone, Debug, PartialEq, Eq)]
enum CV {
    Accept,
    Reject(String),
}

fn first_word(s: &str) -> String {
    s.split(|c: char| !c.is_alphanumeric())
        .find(|w| !w.is_empty())
        .unwrap_or("Err")
        .chars()
        .take(40)
        .collect()
}

static T_PREP: AtomicU64 = AtomicU64::new(0);
static T_NATIVE: AtomicU64 = AtomicU64::new(0);
static T_RUN: AtomicU64 = AtomicU64::new(0);
static N_RUN: AtomicU64 = AtomicU64::new(0);
static N_SHAPES: AtomicU64 = AtomicU64::new(0);

fn timed<R>(acc: &AtomicU64, f: impl FnOnce() -> R) -> R {
    let t = Instant::now();
    let r = f();
    acc.fetch_add(t.elapsed().as_micros() as u64, Ordering::Relaxed);
    r
}

impl<C: Fc> Prepared<C> {
    /// Run the circuit; `full` uses `CircuitRunner::run` (trace generation included), otherwise
    /// witness generation only (`execute_all`) followed by a full run when that succeeds.
    fn run(
        &self,
        pubs: &[C::EF],
        privs: &[C::EF],
        bundle: &Value,
        want_witness: bool,
    ) -> (CV, Option<Vec<Option<C::EF>>>) {
        N_RUN.fetch_add(1, Ordering::Relaxed);
        let res = catch(|| -> (CV, Option<Vec<Option<C::EF>>>) {
            let fresh = || -> Result<CircuitRunner<'_, C::EF>, CV> {
                let mut runner = self.circuit.runner();
                if let Err(e) = runner.set_public_inputs(pubs) {
                    return Err(CV::Reject(format!("set_public:{}", first_word(&format!("{e:?}")))));
                }
                if let Err(e) = runner.set_private_inputs(privs) {
                    return Err(CV::Reject(format!("set_private:{}", first_word(&format!("{e:?}")))));
                }
                if let Err(e) = (self.set_mmcs)(&mut runner, bundle) {
                    return Err(CV::Reject(format!("mmcs_private_data:{}", e.replace(' ', "-"))));
                }
                Ok(runner)
            };
            let mut runner = match fresh() {
                Ok(r) => r,
                Err(cv) => return (cv, None),
            };
            // witness generation only: almost every perturbed run ends here
            if let Err(e) = runner.execute_all() {
                let w = want_witness.then(|| runner.witness().to_vec());
                return (CV::Reject(format!("run:{}", first_word(&format!("{e:?}")))), w);
            }
            let w = want_witness.then(|| runner.witness().to_vec());
            // witness generation succeeded: the observable of the property is the full run
            let runner = match fresh() {
                Ok(r) => r,
                Err(cv) => return (cv, w),
            };
            match runner.run() {
                Ok(_) => (CV::Accept, w),
                Err(e) => (CV::Reject(format!("run:{}", first_word(&format!("{e:?}")))), w),
            }
        });
        match res {
            Ok(x) => x,
            Err(p) => (CV::Reject(format!("panic:{}", sig_of_panic(&p))), None),
        }
    }
}

fn vec_of(p: &Pick, has_mmcs: bool) -> usize {
    // weights: public 4, private 5, mmcs siblings 1
    match p.vec % 10 {
        0..=3 => 0,
        4..=8 => 1,
        _ => {
            if has_mmcs {
                2
            } else {
                1
            }
        }
    }
}

const VEC_NAME: [&str; 3] = ["public", "private", "mmcs-siblings"];

/// Non-zero delta with `d` coefficients; `ext == false` -> only coefficient 0 is non-zero.
fn delta_coeffs(seed: u64, d: usize, p: u64, ext: bool) -> Vec<u64> {
    let mut rng = SmallRng::seed_from_u64(seed);
    let mut c = vec![0u64; d];
    // small deltas (+1) are as interesting as random ones
    c[0] = if seed % 3 == 0 { 1 } else { 1 + rng.random::<u64>() % (p - 1) };
    if ext {
        for x in c.iter_mut().skip(1) {
            *x = rng.random::<u64>() % p;
        }
        if c[1..].iter().all(|&x| x == 0) {
            c[d - 1] = 1;
        }
        if seed % 5 == 0 {
            c[0] = 0; // pure extension part
        }
    }
    c
}

fn add_at<C: Fc>(json: &Value, path: &Path, delta: &[u64]) -> Option<Value> {
    let mut v = json.clone();
    add_elem::<C>(jsonmut::get_mut(&mut v, path)?, delta)?;
    Some(v)
}

/// All Merkle sibling digest words of the opening proof(s), in `set_*_fri_mmcs_private_data`
/// order (query -> input batches -> commit phases).
fn mmcs_leaves(json: &Value, hiding_mmcs: bool) -> Vec<Path> {
    jsonmut::leaves(json)
        .into_iter()
        .filter(|p| {
            // hiding MMCS proof = (salts, siblings): the salts are circuit private inputs
            !hiding_mmcs
                || p.iter()
                    .position(|s| *s == k("opening_proof") )
                    .and_then(|_| p.iter().rposition(|s| *s == k("opening_proof")))
                    .map(|at| p.get(at + 1) == Some(&i(1)))
                    .unwrap_or(false)
        })
        .filter(|p| {
            let keys: Vec<&str> = p
                .iter()
                .filter_map(|s| if let PathSeg::Key(k) = s { Some(k.as_str()) } else { None })
                .collect();
            keys.contains(&"query_proofs") && keys.last() == Some(&"opening_proof")
        })
        .filter(|p| matches!(jsonmut::get(json, p), Some(Value::Number(_))))
        .collect()
}

pub fn evaluate<C: Fc>(prep: &Prepared<C>, c: &Case, hiding_mmcs: bool) -> Report {
    let mut classes: Vec<String> = prep.classes.clone();
    let p = C::p();
    let d = C::D;
    let fail = |sig: String, msg: String, classes: &Vec<String>| Report::fail(sig, msg).classes(classes.clone());

    if !prep.walk_problems.is_empty() {
        return fail(
            "C14/target-structure-shape-mismatch".into(),
            format!("target structures built from proof A do not mirror proof B of the same shape: {:?}", prep.walk_problems),
            &classes,
        );
    }

    // ---- (0) A on its own circuit ---------------------------------------------------------------
    let (pubs_a, privs_a) = match (prep.pack)(&prep.json_a) {
        Ok(x) => x,
        Err(e) => return fail("C14/harness:pack-A".into(), e, &classes),
    };
    // ---- (1) lengths -----------------------------------------------------------------------------
    let (pubs, privs) = match (prep.pack)(&prep.json_b) {
        Ok(x) => x,
        Err(e) => return fail("C14/harness:pack-B".into(), e, &classes),
    };
    for (name, got, want) in [
        ("public(A)", pubs_a.len(), prep.circuit.public_flat_len),
        ("private(A)", privs_a.len(), prep.circuit.private_flat_len),
        ("public(B)", pubs.len(), prep.circuit.public_flat_len),
        ("private(B)", privs.len(), prep.circuit.private_flat_len),
    ] {
        if got != want {
            return fail(
                format!("C14/length-mismatch:{}", &name[..name.len() - 3]),
                format!("packed {name} vector has {got} elements, the circuit expects {want}"),
                &classes,
            );
        }
    }
    let (cv_b, wit) = timed(&T_RUN, || prep.run(&pubs, &privs, &prep.json_b, true));
    // ---- (2) every allocated target holds its proof element ----------------------------------------
    // (evaluated also when the run was rejected, as far as witnesses were assigned: it names the
    // misplaced element, which is the more useful report)
    let wit = wit.unwrap_or_default();
    let mut pos_of_w: HashMap<WitnessId, (usize, usize)> = HashMap::new();
    for (pi, w) in prep.circuit.public_rows.iter().enumerate() {
        pos_of_w.insert(*w, (0, pi));
    }
    for (pi, w) in prep.circuit.private_input_rows.iter().enumerate() {
        if pos_of_w.insert(*w, (1, pi)).is_some() {
            return fail("C14/input-row-shared".into(), format!("witness {w:?} is both a public and a private input row"), &classes);
        }
    }
    let mut slot_at: [Vec<Option<usize>>; 2] = [vec![None; pubs.len()], vec![None; privs.len()]];
    let mut all_slots: Vec<Slot> = prep.slots.clone();
    for (path, field) in &prep.tail {
        all_slots.push(Slot { target: None, path: path.clone(), ext: false, field: field.clone() });
    }
    let n_walked = prep.slots.len();
    for (si, s) in all_slots.iter().enumerate() {
        let Some(target) = s.target else {
            // documented tail order
            let pi = pubs.len() + (si - n_walked) - prep.tail.len();
            if pi >= pubs.len() || slot_at[0][pi].is_some() {
                return fail(
                    "C14/tail-position-already-taken".into(),
                    format!("public position {pi} should carry {} by the documented order but a walked target maps to it", jsonmut::path_string(&s.path)),
                    &classes,
                );
            }
            let want = jsonmut::get(&prep.json_b, &s.path).and_then(read_elem::<C>);
            if want != Some(pubs[pi]) {
                return fail(
                    format!("C14/target-holds-wrong-element:{}", s.field),
                    format!("public position {pi} holds {:?}, the documented order puts {} there", C::coeffs(&pubs[pi]), jsonmut::path_string(&s.path)),
                    &classes,
                );
            }
            slot_at[0][pi] = Some(si);
            continue;
        };
        let Some(w) = prep.circuit.expr_to_widx.get(&target) else {
            return fail(
                format!("C14/target-without-witness:{}", s.field),
                format!("target {:?} ({}) has no witness index", target, jsonmut::path_string(&s.path)),
                &classes,
            );
        };
        let Some(want_ef) = jsonmut::get(&prep.json_b, &s.path).and_then(read_elem::<C>) else {
            return fail("C14/harness:path".into(), format!("no element at {}", jsonmut::path_string(&s.path)), &classes);
        };
        if let Some(Some(got)) = wit.get(w.0 as usize) {
            if *got != want_ef {
                // which element does it hold instead?
                let holder = all_slots
                    .iter()
                    .find(|o| jsonmut::get(&prep.json_b, &o.path).and_then(read_elem::<C>) == Some(*got))
                    .map(|o| jsonmut::path_string(&o.path))
                    .unwrap_or_else(|| "no walked element".into());
                return fail(
                    format!("C14/target-holds-wrong-element:{}", s.field),
                    format!(
                        "after running with B's packed values, the target allocated for {} holds {:?} but B's element is {:?} (that value is B's {holder}); run verdict {cv_b:?}",
                        jsonmut::path_string(&s.path),
                        C::coeffs(got),
                        C::coeffs(&want_ef)
                    ),
                    &classes,
                );
            }
        }
        match pos_of_w.get(w) {
            Some(&(v, pi)) => {
                if let Some(other) = slot_at[v][pi] {
                    return fail(
                        format!("C14/two-targets-one-input:{}", s.field),
                        format!(
                            "{} and {} are carried by the same {} input #{pi}",
                            jsonmut::path_string(&all_slots[other].path),
                            jsonmut::path_string(&s.path),
                            VEC_NAME[v]
                        ),
                        &classes,
                    );
                }
                slot_at[v][pi] = Some(si);
            }
            None => {
                return fail(
                    format!("C14/target-is-not-an-input:{}", s.field),
                    format!("the target allocated for {} is neither a public nor a private input row", jsonmut::path_string(&s.path)),
                    &classes,
                );
            }
        }
    }
    let (cv_a, _) = timed(&T_RUN, || prep.run(&pubs_a, &privs_a, &prep.json_a, false));
    if cv_a != CV::Accept {
        return fail(
            "C14/honest-A-rejected-by-own-circuit".into(),
            format!("native accepts proof A; the circuit built from A fed with A's packed values: {cv_a:?}"),
            &classes,
        );
    }
    if cv_b != CV::Accept {
        return fail(
            "C14/honest-B-rejected".into(),
            format!("native accepts proof B (same shape as A); the circuit built from A fed with B's packed values: {cv_b:?}"),
            &classes,
        );
    }
    classes.push("honest:A-and-B-accepted".into());
    classes.push(format!("targets-walked:{}", bucket(prep.slots.len())));
    let unmapped: [usize; 2] = [
        slot_at[0].iter().filter(|s| s.is_none()).count(),
        slot_at[1].iter().filter(|s| s.is_none()).count(),
    ];
    classes.push(format!("unmapped-positions-in-shape:public={},private={}", unmapped[0], unmapped[1]));

    // ---- (3) single-position perturbations -------------------------------------------------------
    let mmcs = mmcs_leaves(&prep.json_b, hiding_mmcs);
    let lens = [pubs.len(), privs.len(), mmcs.len()];
    let mut todo: Vec<(usize, usize, u64, bool)> = vec![];
    if c.all {
        for v in 0..3 {
            for pi in 0..lens[v] {
                let seed = c.seed_b ^ ((v as u64) << 40) ^ (pi as u64).wrapping_mul(0x9E37_79B9);
                todo.push((v, pi, seed, false));
                if v < 2 && pi % 4 == 0 {
                    todo.push((v, pi, seed.rotate_left(7), true));
                }
            }
        }
    } else {
        for pk in &c.picks {
            let v = vec_of(pk, !mmcs.is_empty());
            if lens[v] == 0 {
                continue;
            }
            todo.push((v, fw::pick(pk.pos, lens[v]), pk.delta as u64, pk.ext));
        }
    }
    let mut nontrivial = false;
    let mut failure: Option<(String, String)> = None;
    for (v, pi, dseed, ext) in todo {
        let tag = VEC_NAME[v];
        // ----- Merkle sibling digests: changed inside the proof on both sides -----
        if v == 2 {
            let delta = delta_coeffs(dseed, 1, p, false);
            let Some(jb) = add_at::<C>(&prep.json_b, &mmcs[pi], &delta) else { continue };
            let nat = timed(&T_NATIVE, || (prep.native)(&jb));
            let (cv, _) = timed(&T_RUN, || prep.run(&pubs, &privs, &jb, false));
            let field = "mmcs.sibling_digest";
            record(&mut classes, &mut nontrivial, &mut failure, tag, field, &jsonmut::path_string(&mmcs[pi]), &delta, false, &nat, &cv);
            continue;
        }
        let Some(si) = slot_at[v][pi] else {
            let delta = delta_coeffs(dseed, d, p, ext);
            let (mut pu, mut pr) = (pubs.clone(), privs.clone());
            if v == 0 { pu[pi] += C::ef(&delta) } else { pr[pi] += C::ef(&delta) }
            let (cv, _) = timed(&T_RUN, || prep.run(&pu, &pr, &prep.json_b, false));
            classes.push(format!("unmapped-position:{tag}:circuit-{}", if cv == CV::Accept { "accepts" } else { "rejects" }));
            continue;
        };
        let s = &all_slots[si];
        let delta = delta_coeffs(dseed, d, p, ext || s.ext);
        if !s.ext && delta[0] == 0 {
            // a lifted base-field input receives a value outside the base field while its base
            // part is unchanged: there is no native proof to compare with -> evidence only
            let (mut pu, mut pr) = (pubs.clone(), privs.clone());
            if v == 0 { pu[pi] += C::ef(&delta) } else { pr[pi] += C::ef(&delta) }
            let (cv, _) = timed(&T_RUN, || prep.run(&pu, &pr, &prep.json_b, false));
            classes.push(format!(
                "pure-extension-delta-on-lifted-base-input(no native counterpart):{}:circuit-{}",
                s.field,
                if cv == CV::Accept { "accepts" } else { "rejects" }
            ));
            continue;
        }
        let native_delta: Vec<u64> = if s.ext { delta.clone() } else { vec![delta[0]] };
        let one_directional = !s.ext && delta[1..].iter().any(|&x| x != 0);
        let Some(jb) = add_at::<C>(&prep.json_b, &s.path, &native_delta) else {
            failure.get_or_insert(("C14/harness:apply".into(), format!("cannot apply delta at {}", jsonmut::path_string(&s.path))));
            continue;
        };
        let nat = timed(&T_NATIVE, || (prep.native)(&jb));
        let (mut pu, mut pr) = (pubs.clone(), privs.clone());
        if v == 0 { pu[pi] += C::ef(&delta) } else { pr[pi] += C::ef(&delta) }
        let (cv, _) = timed(&T_RUN, || prep.run(&pu, &pr, &prep.json_b, false));
        record(&mut classes, &mut nontrivial, &mut failure, tag, &s.field, &format!("{} (position {pi})", jsonmut::path_string(&s.path)), &delta, one_directional, &nat, &cv);
    }
    let mut rep = Report::pass().classes(classes).nontrivial(nontrivial);
    if let Some((sig, msg)) = failure {
        rep.verdict = fw::Verdict::Fail { sig, msg };
        rep.nontrivial = true;
    }
    rep
}

fn bucket(n: usize) -> &'static str {
    match n {
        0..=199 => "<200",
        200..=499 => "200-499",
        500..=999 => "500-999",
        1000..=1999 => "1000-1999",
        _ => ">=2000",
    }
}

#[allow(clippy::too_many_arguments)]
fn record(
    classes: &mut Vec<String>,
    nontrivial: &mut bool,
    failure: &mut Option<(String, String)>,
    tag: &str,
    field: &str,
    what: &str,
    delta: &[u64],
    one_directional: bool,
    nat: &Result<(), String>,
    cv: &CV,
) {
    let kind = if one_directional { "ext-delta-on-lifted-base" } else { "delta" };
    match (nat, cv) {
        (Err(e), _) if e.starts_with("panic") => {
            classes.push(format!("native-panicked(no verdict):{field}"));
        }
        (Err(e), CV::Reject(r)) => {
            *nontrivial = true;
            classes.push(format!("{tag}:{field}:native-reject"));
            classes.push(format!("native-reject:{}", first_word(e)));
            classes.push(format!("circuit-reject:{}", first_word(r)));
            if one_directional {
                classes.push(format!("{kind}:{field}:rejected"));
            }
        }
        (Ok(()), CV::Accept) => {
            classes.push(format!("{tag}:{field}:native-accept"));
        }
        (Ok(()), CV::Reject(_)) if one_directional => {
            // no native counterpart for the extension part: nothing is required
            classes.push(format!("{kind}:{field}:native-accepts-base-part,circuit-rejects"));
        }
        (Err(e), CV::Accept) => {
            *nontrivial = true;
            failure.get_or_insert((
                format!("C14/input-unconstrained:{tag}:{field}{}", if one_directional { ":ext-delta" } else { "" }),
                format!(
                    "{tag} input carrying {what} changed by {delta:?}: native verification of the correspondingly changed proof rejects ({e}) but the circuit run is accepted"
                ),
            ));
        }
        (Ok(()), CV::Reject(r)) => {
            failure.get_or_insert((
                format!("C14/circuit-rejects-native-accepts:{tag}:{field}"),
                format!("{tag} input carrying {what} changed by {delta:?}: native verification still accepts but the circuit run fails ({r})"),
            ));
        }
    }
}

// ------------------------------------------------------------------------------------------
// families (expanded once per field module; all names resolve at the expansion site)
// ------------------------------------------------------------------------------------------

#[derive(Serialize, Deserialize)]
#[serde(bound(serialize = "P: Serialize, V: Serialize, Cm: Serialize", deserialize = "P: Deserialize<'de>, V: Deserialize<'de>, Cm: Deserialize<'de>"))]
pub struct UniBundle<P, V, Cm> {
    pub proof: P,
    pub pis: Vec<V>,
    pub prep: Option<Cm>,
}

#[derive(Serialize, Deserialize)]
#[serde(bound(serialize = "P: Serialize, V: Serialize, Cm: Serialize", deserialize = "P: Deserialize<'de>, V: Deserialize<'de>, Cm: Deserialize<'de>"))]
pub struct BatchBundle<P, V, Cm> {
    pub proof: P,
    pub pis: Vec<Vec<V>>,
    pub prep: Option<Cm>,
}

pub type PrepErr = (String, String);

fn perr(sig: &str, msg: impl Into<String>) -> PrepErr {
    (sig.to_string(), msg.into())
}

const KINDS: [TKind; 4] = [TKind::Mul, TKind::Add, TKind::Sub, TKind::Fib];

fn shape_classes(r: &RShape, field: &str) -> Vec<String> {
    vec![
        format!("family:{}", FAMILIES[r.family]),
        format!("field:{field}"),
        format!("family-x-field:{}:{field}", FAMILIES[r.family]),
        format!("log_rows:{}", r.log_rows),
        format!("reps:{}", r.reps),
        format!("log_blowup:{}", r.log_blowup),
        format!("num_queries:{}", r.num_queries),
        format!("max_log_arity:{}", r.max_log_arity),
        format!("log_final_poly_len:{}", r.log_final_poly_len),
        format!("commit_pow_bits:{}", r.commit_pow_bits),
        format!("query_pow_bits:{}", r.query_pow_bits),
        format!("cap_height:{}", r.cap_height),
    ]
}

/// Shape evidence read off the honest proof (quotient chunks, FRI phases, arities, presence of
/// optional parts).
fn proof_classes(json: &Value, proof: &Path) -> Vec<String> {
    let mut out = vec![];
    let mut fri = join(proof, &[k("opening_proof")]);
    if jsonmut::get(json, &join(&fri, &[k("query_proofs")])).is_none() {
        fri = join(&fri, &[i(1)]);
    }
    out.push(format!("fri-phases:{}", arr_len(json, &join(&fri, &[k("commit_phase_commits")]))));
    out.push(format!("final_poly_len:{}", arr_len(json, &join(&fri, &[k("final_poly")]))));
    let co = join(&fri, &[k("query_proofs"), i(0), k("commit_phase_openings")]);
    for ph in 0..arr_len(json, &co) {
        if let Some(a) = jsonmut::get(json, &join(&co, &[i(ph), k("log_arity")])).and_then(|v| v.as_u64()) {
            out.push(format!("phase-log-arity:{a}"));
        }
    }
    out.push(format!("input-batches:{}", arr_len(json, &join(&fri, &[k("query_proofs"), i(0), k("input_proof")]))));
    let ov = join(proof, &[k("opened_values")]);
    let inst = join(&ov, &[k("instances")]);
    let per: Vec<Path> = if jsonmut::get(json, &inst).is_some() {
        out.push(format!("tables:{}", arr_len(json, &inst)));
        (0..arr_len(json, &inst)).map(|t| join(&inst, &[i(t), k("base_opened_values")])).collect()
    } else {
        vec![ov]
    };
    for p in per {
        out.push(format!("quotient-chunks:{}", arr_len(json, &join(&p, &[k("quotient_chunks")]))));
        out.push(format!("trace_next:{}", if is_null(json, &join(&p, &[k("trace_next")])) { "absent" } else { "present" }));
        out.push(format!("preprocessed:{}", if is_null(json, &join(&p, &[k("preprocessed_local")])) { "absent" } else { "present" }));
        out.push(format!("zk-random:{}", if is_null(json, &join(&p, &[k("random")])) { "absent" } else { "present" }));
    }
    out
}

macro_rules! uni_family {
    ($name:ident, $Cfg:ty, $Inner:ty, $InP:ty, $mk:expr, $walk:ident, $setm:expr) => {
        pub fn $name(r: &RShape, seed_a: u64, seed_b: u64) -> Result<Prepared<C>, PrepErr> {
            type Pf = p3_uni_stark::Proof<$Cfg>;
            type B = UniBundle<Pf, F, Com>;
            type Vk = p3_uni_stark::PreprocessedVerifierKey<$Cfg>;
            let mk: fn(&RShape, u64) -> $Cfg = $mk;
            let setm: fn(
                &mut CircuitRunner<'_, Challenge>,
                &[NonPrimitiveOpId],
                &<<$Cfg as StarkGenericConfig>::Pcs as Pcs<Challenge, Challenger>>::Proof,
            ) -> Result<(), &'static str> = $setm;
            let kind = match r.family {
                0 => TKind::Fib,
                1 => TKind::Mul,
                // the uni-STARK verifier circuit requires `trace_next` (single-row AIRs are only
                // supported by the batch verifier), so the Add table is not used here
                // (index 5 = Add is reachable from hand-written replays only: observation replay)
                _ => [TKind::Mul, TKind::Sub, TKind::Sub, TKind::Fib, TKind::Mul, TKind::Add, TKind::Sub, TKind::Fib][r.raw_table0],
            };
            let air_a = TAir { kind, log_rows: r.log_rows, reps: r.reps, degree: r.degree as u64, seed: seed_a };
            let air_b = TAir { seed: seed_b, ..air_a };
            let prove_one = |air: &TAir, seed: u64| -> Result<(Rc<$Cfg>, B, Option<Vk>), PrepErr> {
                let config = Rc::new(mk(r, seed));
                let (trace, pis) = air.trace::<F>();
                let res = catch(|| {
                    let (pd, vk) = setup_preprocessed(&*config, air, r.log_rows).unzip();
                    let proof = prove_with_preprocessed(&*config, air, trace, &pis, pd.as_ref());
                    let ok = verify_with_preprocessed(&*config, air, &proof, &pis, vk.as_ref());
                    (proof, vk, ok)
                });
                let (proof, vk, ok) = res.map_err(|p| perr("C14/harness:native-prover-panic", p))?;
                ok.map_err(|e| perr("C14/harness:native-rejects-honest", format!("{e:?}")))?;
                let prep = vk.as_ref().map(|v| v.commitment.clone());
                Ok((config, UniBundle { proof, pis, prep }, vk))
            };
            let (cfg_a, ba, _vk_a) = prove_one(&air_a, seed_a)?;
            let (cfg_b, bb, vk_b) = prove_one(&air_b, seed_b)?;

            let params = FriVerifierParams::with_mmcs(r.log_blowup, r.log_final_poly_len, r.commit_pow_bits, r.query_pow_bits, P2CFG);
            let built = catch(|| -> Result<_, PrepErr> {
                let mut cb = new_builder();
                let vi = StarkVerifierInputsBuilder::<$Cfg, CapT, $Inner>::allocate(&mut cb, &ba.proof, ba.prep.as_ref(), ba.pis.len());
                let op_ids = verify_p3_uni_proof_circuit::<TAir, $Cfg, CapT, $InP, $Inner, _, WIDTH, RATE>(
                    &*cfg_a, &air_a, &mut cb, &vi.proof_targets, &vi.air_public_targets, &vi.preprocessed_commit, &params, P2CFG,
                )
                .map_err(|e| perr("C14/honest-A:verifier-circuit-construction-failed", format!("{e:?}")))?;
                let circuit = cb.build().map_err(|e| perr("C14/honest-A:circuit-build-failed", format!("{e:?}")))?;
                Ok((vi, op_ids, circuit))
            });
            let (vi, op_ids, circuit) = match built {
                Ok(x) => x?,
                Err(p) => return Err(perr("C14/honest-A:verifier-circuit-construction-panicked", p)),
            };
            let json_a = serde_json::to_value(&ba).expect("bundle serialises");
            let json_b = serde_json::to_value(&bb).expect("bundle serialises");
            let mut w = Walk::new(&json_b);
            w.vec(&vi.air_public_targets, &vec![k("pis")], false, "air_public_values");
            w.commitments(&vi.proof_targets.commitments_targets, &vec![k("proof"), k("commitments")], "trace");
            w.opened(&vi.proof_targets.opened_values_targets, &vec![k("proof"), k("opened_values")]);
            w.$walk(&vi.proof_targets.opening_proof, &vec![k("proof"), k("opening_proof")], D);
            w.opt_cap(vi.preprocessed_commit.as_ref(), &vec![k("prep")], "preprocessed_commit");
            let (slots, walk_problems) = (w.slots, w.problems);
            let mut classes = shape_classes(r, <C as Fc>::NAME);
            classes.push(format!("air:{kind:?}"));
            classes.extend(proof_classes(&json_b, &vec![k("proof")]));
            let vi = Rc::new(vi);
            let pack = {
                let vi = vi.clone();
                Box::new(move |v: &Value| -> Result<(Vec<Challenge>, Vec<Challenge>), String> {
                    let b = B::deserialize(v).map_err(|e| format!("deserialise: {e}"))?;
                    Ok(vi.pack_values(&b.pis, &b.proof, &b.prep))
                })
            };
            let set_mmcs = Box::new(move |runner: &mut CircuitRunner<'_, Challenge>, v: &Value| -> Result<(), String> {
                let pf = Pf::deserialize(v.get("proof").ok_or("no proof")?).map_err(|e| format!("deserialise: {e}"))?;
                setm(runner, &op_ids, &pf.opening_proof).map_err(|e| e.to_string())
            });
            let native = Box::new(move |v: &Value| -> Result<(), String> {
                let b = B::deserialize(v).map_err(|e| format!("deserialise: {e}"))?;
                let vk = match (&vk_b, &b.prep) {
                    (Some(vk), Some(c)) => Some(Vk { width: vk.width, degree_bits: vk.degree_bits, commitment: c.clone() }),
                    _ => None,
                };
                match catch(|| verify_with_preprocessed(&*cfg_b, &air_b, &b.proof, &b.pis, vk.as_ref())) {
                    Ok(Ok(())) => Ok(()),
                    Ok(Err(e)) => Err(format!("{e:?}")),
                    Err(p) => Err(format!("panic:{p}")),
                }
            });
            Ok(Prepared { circuit, slots, walk_problems, tail: vec![], json_a, json_b, pack, set_mmcs, native, classes })
        }
    };
}

macro_rules! batch_family {
    ($name:ident, $Cfg:ty, $Inner:ty, $InP:ty, $mk:expr, $walk:ident, $setm:expr) => {
        pub fn $name(r: &RShape, seed_a: u64, seed_b: u64) -> Result<Prepared<C>, PrepErr> {
            type Pf = BatchProof<$Cfg>;
            type B = BatchBundle<Pf, F, Com>;
            let mk: fn(&RShape, u64) -> $Cfg = $mk;
            let setm: fn(
                &mut CircuitRunner<'_, Challenge>,
                &[NonPrimitiveOpId],
                &<<$Cfg as StarkGenericConfig>::Pcs as Pcs<Challenge, Challenger>>::Proof,
            ) -> Result<(), &'static str> = $setm;
            let airs_of = |seed: u64| -> Vec<TAir> {
                r.tables
                    .iter()
                    .enumerate()
                    .map(|(t, &kd)| TAir {
                        kind: KINDS[kd],
                        log_rows: table_log_rows(r.log_rows, t),
                        reps: 1 + (r.reps + t) % 3,
                        degree: r.degree as u64,
                        seed: seed.wrapping_add(0x1234_5678 * (t as u64 + 1)),
                    })
                    .collect()
            };
            let prove_one = |airs: &[TAir], seed: u64| -> Result<(Rc<$Cfg>, B, CommonData<$Cfg>), PrepErr> {
                let config = Rc::new(mk(r, seed));
                let traces: Vec<(RowMajorMatrix<F>, Vec<F>)> = airs.iter().map(|a| a.trace::<F>()).collect();
                let pis: Vec<Vec<F>> = traces.iter().map(|t| t.1.clone()).collect();
                let res = catch(|| {
                    let instances: Vec<StarkInstance<'_, $Cfg, TAir>> = airs
                        .iter()
                        .zip(&traces)
                        .map(|(a, (t, p))| StarkInstance { air: a, trace: t, public_values: p.clone() })
                        .collect();
                    let pd = ProverData::from_instances(&*config, &instances);
                    let proof = prove_batch(&*config, &instances, &pd);
                    let ok = verify_batch(&*config, airs, &proof, &pis, &pd.common);
                    (proof, pd.common, ok)
                });
                let (proof, common, ok) = res.map_err(|p| perr("C14/harness:native-prover-panic", p))?;
                ok.map_err(|e| perr("C14/harness:native-rejects-honest", format!("{e:?}")))?;
                let prep = common.preprocessed.as_ref().map(|g| g.commitment.clone());
                Ok((config, BatchBundle { proof, pis, prep }, common))
            };
            let airs_a = airs_of(seed_a);
            let airs_b = airs_of(seed_b);
            let (cfg_a, ba, common_a) = prove_one(&airs_a, seed_a)?;
            let (cfg_b, bb, common_b) = prove_one(&airs_b, seed_b)?;

            let params = FriVerifierParams::with_mmcs(r.log_blowup, r.log_final_poly_len, r.commit_pow_bits, r.query_pow_bits, P2CFG);
            let built = catch(|| -> Result<_, PrepErr> {
                let mut cb = new_builder();
                let counts: Vec<usize> = ba.pis.iter().map(|p| p.len()).collect();
                let vi = BatchStarkVerifierInputsBuilder::<$Cfg, CapT, $Inner>::allocate(&mut cb, &ba.proof, &common_a, &counts);
                let op_ids = verify_batch_circuit::<TAir, $Cfg, CapT, $InP, $Inner, LogUpGadget, _, WIDTH, RATE>(
                    &*cfg_a, &airs_a, &mut cb, &vi.proof_targets, &vi.air_public_targets, &params, &vi.common_data, &LogUpGadget::new(), P2CFG,
                )
                .map_err(|e| perr("C14/honest-A:verifier-circuit-construction-failed", format!("{e:?}")))?;
                let circuit = cb.build().map_err(|e| perr("C14/honest-A:circuit-build-failed", format!("{e:?}")))?;
                Ok((vi, op_ids, circuit))
            });
            let (vi, op_ids, circuit) = match built {
                Ok(x) => x?,
                Err(p) => return Err(perr("C14/honest-A:verifier-circuit-construction-panicked", p)),
            };
            let json_a = serde_json::to_value(&ba).expect("bundle serialises");
            let json_b = serde_json::to_value(&bb).expect("bundle serialises");
            let mut w = Walk::new(&json_b);
            for (t, ts) in vi.air_public_targets.iter().enumerate() {
                w.vec(ts, &vec![k("pis"), i(t)], false, "air_public_values");
            }
            let pt = &vi.proof_targets;
            w.commitments(&pt.commitments_targets, &vec![k("proof"), k("commitments")], "main");
            w.opened_flattened(&pt.flattened_opened_values_targets, &vec![k("proof"), k("opened_values"), k("instances")]);
            w.$walk(&pt.opening_proof, &vec![k("proof"), k("opening_proof")], D);
            w.lookup_terminals(&pt.lookup_terminals, &vec![k("proof"), k("lookup_terminals")]);
            let tail = prep_tail(&json_b, &vec![k("prep")]);
            let (slots, walk_problems) = (w.slots, w.problems);
            let mut classes = shape_classes(r, <C as Fc>::NAME);
            for a in &airs_a {
                classes.push(format!("air:{:?}", a.kind));
            }
            classes.extend(proof_classes(&json_b, &vec![k("proof")]));
            let common_b = Rc::new(common_b);
            let with_prep = |common: &CommonData<$Cfg>, prep: &Option<Com>| -> CommonData<$Cfg> {
                CommonData::new(
                    common.preprocessed.as_ref().map(|g| GlobalPreprocessed {
                        commitment: prep.clone().unwrap_or_else(|| g.commitment.clone()),
                        instances: g.instances.clone(),
                        matrix_to_instance: g.matrix_to_instance.clone(),
                    }),
                    common.lookups.clone(),
                )
            };
            let vi = Rc::new(vi);
            let pack = {
                let vi = vi.clone();
                let common_b = common_b.clone();
                Box::new(move |v: &Value| -> Result<(Vec<Challenge>, Vec<Challenge>), String> {
                    let b = B::deserialize(v).map_err(|e| format!("deserialise: {e}"))?;
                    Ok(vi.pack_values(&b.pis, &b.proof, &with_prep(&common_b, &b.prep)))
                })
            };
            let set_mmcs = Box::new(move |runner: &mut CircuitRunner<'_, Challenge>, v: &Value| -> Result<(), String> {
                let pf = Pf::deserialize(v.get("proof").ok_or("no proof")?).map_err(|e| format!("deserialise: {e}"))?;
                setm(runner, &op_ids, &pf.opening_proof).map_err(|e| e.to_string())
            });
            let native = Box::new(move |v: &Value| -> Result<(), String> {
                let b = B::deserialize(v).map_err(|e| format!("deserialise: {e}"))?;
                let common = with_prep(&common_b, &b.prep);
                match catch(|| verify_batch(&*cfg_b, &airs_b, &b.proof, &b.pis, &common)) {
                    Ok(Ok(())) => Ok(()),
                    Ok(Err(e)) => Err(format!("{e:?}")),
                    Err(p) => Err(format!("panic:{p}")),
                }
            });
            Ok(Prepared { circuit, slots, walk_problems, tail, json_a, json_b, pack, set_mmcs, native, classes })
        }
    };
}

/// `CommonDataTargets::preprocessed` is crate-private, so the commitment targets of the batch
/// verifier's common data cannot be walked.  The builders document the packing order
/// "AIR public values, proof values, common data": the global preprocessed commitment occupies
/// the LAST public positions, cap entry by cap entry.
fn prep_tail(json: &Value, prep: &Path) -> Vec<(Path, String)> {
    let cap = join(prep, &[k("cap")]);
    let mut out = vec![];
    for r in 0..arr_len(json, &cap) {
        for wd in 0..arr_len(json, &join(&cap, &[i(r)])) {
            out.push((join(&cap, &[i(r), i(wd)]), "common.preprocessed_commitment(documented tail order)".to_string()));
        }
    }
    out
}

macro_rules! field_mod {
    ($m:ident, $params:ident, $Fc:ty, $P2Air:ty, $p2cfg:expr, $perm_fn:path) => {
        pub mod $m {
            use p3_batch_stark::common::GlobalPreprocessed;
            use p3_batch_stark::{BatchProof, CommonData, ProverData, StarkInstance, prove_batch, verify_batch};
            use p3_circuit::ops::{generate_poseidon2_trace, generate_recompose_trace};
            use p3_circuit_prover::common::get_airs_and_degrees_with_prep;
            use p3_circuit_prover::{BatchStarkProof, BatchStarkProver, CircuitProverData, ConstraintProfile, TablePacking};
            use p3_commit::Pcs;
            use p3_fri::HidingFriPcs;
            use p3_lookup::logup::LogUpGadget;
            use p3_merkle_tree::MerkleTreeHidingMmcs;
            use p3_recursion::pcs::{
                RecExtensionValMmcs, RecValHidingMmcs, RecValMmcs, set_fri_mmcs_private_data,
                set_hiding_salted_fri_mmcs_private_data,
            };
            use p3_recursion::verifier::verify_p3_batch_proof_circuit;
            use p3_recursion::{
                BatchStarkVerifierInputsBuilder, FriVerifierParams, Poseidon2Config, StarkVerifierInputsBuilder,
                verify_batch_circuit, verify_p3_uni_proof_circuit,
            };
            use p3_test_utils::$params::*;
            use p3_uni_stark::{prove_with_preprocessed, setup_preprocessed, verify_with_preprocessed};

            use super::*;

            pub type C = $Fc;
            const P2CFG: Poseidon2Config = $p2cfg;
            const SALT: usize = 4;
            type RecVal = RecValMmcs<F, DIGEST_ELEMS, MyHash, MyCompress>;
            type RecExt = RecExtensionValMmcs<F, Challenge, DIGEST_ELEMS, RecVal>;
            type InProof = InputProofTargets<F, Challenge, RecVal>;
            type InnerFri = FriProofTargets<F, Challenge, RecExt, InProof, Witness<F>>;
            type CapT = MerkleCapTargets<F, DIGEST_ELEMS>;
            type Com = p3_symmetric::MerkleCap<F, [F; DIGEST_ELEMS]>;
            // ZK: HidingFriPcs over the plain MMCS
            type PcsZk = HidingFriPcs<F, Dft, MyMmcs, ChallengeMmcs, SmallRng>;
            type ConfigZk = StarkConfig<PcsZk, Challenge, Challenger>;
            type InnerFriZk = HidingFriProofTargets<F, Challenge, RecExt, InProof, Witness<F>>;
            // ZK: HidingFriPcs over the hiding (salted) MMCS
            type HVal = MerkleTreeHidingMmcs<<F as Field>::Packing, <F as Field>::Packing, MyHash, MyCompress, SmallRng, 2, DIGEST_ELEMS, SALT>;
            type HChal = ExtensionMmcs<F, Challenge, HVal>;
            type PcsZkH = HidingFriPcs<F, Dft, HVal, HChal, SmallRng>;
            type ConfigZkH = StarkConfig<PcsZkH, Challenge, Challenger>;
            type RecHVal = RecValHidingMmcs<F, DIGEST_ELEMS, SALT, MyHash, MyCompress, SmallRng>;
            type InProofH = InputProofTargets<F, Challenge, RecHVal>;
            type InnerFriZkH = HidingFriProofTargets<F, Challenge, RecExtensionValMmcs<F, Challenge, DIGEST_ELEMS, RecHVal>, InProofH, Witness<F>>;

            fn perm() -> Perm {
                $perm_fn()
            }
            fn new_builder() -> CircuitBuilder<Challenge> {
                let mut b = CircuitBuilder::<Challenge>::new();
                b.enable_poseidon2_perm::<$P2Air, _>(generate_poseidon2_trace::<Challenge, $P2Air>, perm());
                b.enable_recompose::<F>(generate_recompose_trace::<F, Challenge>);
                b
            }
            fn fri_params<M>(r: &RShape, mmcs: M) -> FriParameters<M> {
                FriParameters {
                    log_blowup: r.log_blowup,
                    log_final_poly_len: r.log_final_poly_len,
                    max_log_arity: r.max_log_arity,
                    num_queries: r.num_queries,
                    commit_proof_of_work_bits: r.commit_pow_bits,
                    query_proof_of_work_bits: r.query_pow_bits,
                    mmcs,
                }
            }
            fn cfg_plain(r: &RShape, _seed: u64) -> MyConfig {
                let perm = perm();
                let val_mmcs = MyMmcs::new(MyHash::new(perm.clone()), MyCompress::new(perm.clone()), r.cap_height);
                let challenge_mmcs = ChallengeMmcs::new(val_mmcs.clone());
                let pcs = MyPcs::new(Dft::default(), val_mmcs, fri_params(r, challenge_mmcs));
                MyConfig::new(pcs, Challenger::new(perm))
            }
            fn cfg_zk(r: &RShape, seed: u64) -> ConfigZk {
                let perm = perm();
                let val_mmcs = MyMmcs::new(MyHash::new(perm.clone()), MyCompress::new(perm.clone()), r.cap_height);
                let challenge_mmcs = ChallengeMmcs::new(val_mmcs.clone());
                let pcs = PcsZk::new(Dft::default(), val_mmcs, fri_params(r, challenge_mmcs), 2, SmallRng::seed_from_u64(seed ^ 0xA5A5));
                ConfigZk::new(pcs, Challenger::new(perm))
            }
            fn cfg_zkh(r: &RShape, seed: u64) -> ConfigZkH {
                let perm = perm();
                let val_mmcs = HVal::new(MyHash::new(perm.clone()), MyCompress::new(perm.clone()), r.cap_height, SmallRng::seed_from_u64(seed ^ 0x5A5A));
                let challenge_mmcs = HChal::new(val_mmcs.clone());
                let pcs = PcsZkH::new(Dft::default(), val_mmcs, fri_params(r, challenge_mmcs), 2, SmallRng::seed_from_u64(seed ^ 0xA5A5));
                ConfigZkH::new(pcs, Challenger::new(perm))
            }

            uni_family!(uni_plain, MyConfig, InnerFri, InProof, cfg_plain, fri, |runner, ids, op| {
                set_fri_mmcs_private_data::<F, Challenge, ChallengeMmcs, MyMmcs, MyHash, MyCompress, DIGEST_ELEMS>(runner, ids, op, P2CFG)
            });
            uni_family!(uni_zk, ConfigZk, InnerFriZk, InProof, cfg_zk, hiding_fri, |runner, ids, op| {
                set_fri_mmcs_private_data::<F, Challenge, ChallengeMmcs, MyMmcs, MyHash, MyCompress, DIGEST_ELEMS>(runner, ids, &op.1, P2CFG)
            });
            batch_family!(batch_plain, MyConfig, InnerFri, InProof, cfg_plain, fri, |runner, ids, op| {
                set_fri_mmcs_private_data::<F, Challenge, ChallengeMmcs, MyMmcs, MyHash, MyCompress, DIGEST_ELEMS>(runner, ids, op, P2CFG)
            });
            batch_family!(batch_zk, ConfigZk, InnerFriZk, InProof, cfg_zk, hiding_fri, |runner, ids, op| {
                set_fri_mmcs_private_data::<F, Challenge, ChallengeMmcs, MyMmcs, MyHash, MyCompress, DIGEST_ELEMS>(runner, ids, &op.1, P2CFG)
            });
            batch_family!(batch_zkh, ConfigZkH, InnerFriZkH, InProofH, cfg_zkh, hiding_fri, |runner, ids, op| {
                set_hiding_salted_fri_mmcs_private_data::<F, Challenge, HChal, HVal, DIGEST_ELEMS>(runner, ids, op, P2CFG)
            });

            /// Circuit-prover tables (Const / Public / ALU with LogUp lookups and a global
            /// preprocessed commitment) proven by `BatchStarkProver`, verified in-circuit through
            /// `verify_p3_batch_proof_circuit` (the flow of recursion/tests/test_lookups.rs).
            pub fn batch_lookups(r: &RShape, seed_a: u64, seed_b: u64) -> Result<Prepared<C>, PrepErr> {
                type Bsp = BatchStarkProof<MyConfig>;
                let n_ops = 3 + (1usize << r.log_rows) / 2 + r.reps;
                let packing = TablePacking::new(1 + r.reps % 4, 1 + (r.reps + r.degree) % 4)
                    .with_min_trace_height(1 << (r.log_final_poly_len + 1));
                let prove_one = |seed: u64| -> Result<(Rc<BatchStarkProver<MyConfig>>, Bsp), PrepErr> {
                    let mut rng = SmallRng::seed_from_u64(seed ^ 0x10_0C);
                    let res = catch(|| -> Result<_, String> {
                        let mut b = CircuitBuilder::<F>::new();
                        let x = b.public_input();
                        let a = b.public_input();
                        let c = b.public_input();
                        let expected = b.public_input();
                        let mut y = b.mul(a, x);
                        y = b.add(c, y);
                        for _ in 0..n_ops {
                            y = b.mul(a, y);
                            y = b.add(c, y);
                        }
                        b.connect(y, expected);
                        let circuit = b.build().map_err(|e| format!("{e:?}"))?;
                        let (airs_degrees, prim, nonprim) = get_airs_and_degrees_with_prep::<MyConfig, F, 1>(
                            &circuit, &packing, &[], &[], ConstraintProfile::Standard,
                        )
                        .map_err(|e| format!("{e:?}"))?;
                        let (airs, degrees): (Vec<_>, Vec<usize>) = airs_degrees.into_iter().unzip();
                        let (xv, av, cv): (F, F, F) = (
                            F::from_u64(rng.random::<u32>() as u64),
                            F::from_u64(rng.random::<u32>() as u64),
                            F::from_u64(rng.random::<u32>() as u64),
                        );
                        let mut yv = av * xv + cv;
                        for _ in 0..n_ops {
                            yv = av * yv + cv;
                        }
                        let mut runner = circuit.runner();
                        runner.set_public_inputs(&[xv, av, cv, yv]).map_err(|e| format!("{e:?}"))?;
                        let traces = runner.run().map_err(|e| format!("{e:?}"))?;
                        let config = cfg_plain(r, seed);
                        let pd = ProverData::from_airs_and_degrees(&config, &airs, &degrees);
                        let cpd = CircuitProverData::new(pd, prim, nonprim);
                        let prover = BatchStarkProver::new(config).with_table_packing(packing.clone());
                        let proof = prover.prove_all_tables(&traces, &cpd).map_err(|e| format!("{e:?}"))?;
                        prover.verify_all_tables::<F>(&proof).map_err(|e| format!("native rejects honest: {e:?}"))?;
                        Ok((Rc::new(prover), proof))
                    });
                    match res {
                        Ok(Ok(x)) => Ok(x),
                        Ok(Err(e)) => Err(perr("C14/harness:native-prover", e)),
                        Err(p) => Err(perr("C14/harness:native-prover-panic", p)),
                    }
                };
                let (_prover_a, pa) = prove_one(seed_a)?;
                let (prover_b, pb) = prove_one(seed_b)?;
                let n_tables = pa.proof.opened_values.instances.len();
                let params = FriVerifierParams::with_mmcs(r.log_blowup, r.log_final_poly_len, r.commit_pow_bits, r.query_pow_bits, P2CFG);
                let cfg_a = cfg_plain(r, seed_a);
                let built = catch(|| -> Result<_, PrepErr> {
                    let mut cb = new_builder();
                    let (vi, op_ids) = verify_p3_batch_proof_circuit::<MyConfig, CapT, InProof, InnerFri, LogUpGadget, _, WIDTH, RATE, 1>(
                        &cfg_a, &mut cb, &pa, &params, &pa.stark_common, &LogUpGadget::new(), P2CFG, &[],
                    )
                    .map_err(|e| perr("C14/honest-A:verifier-circuit-construction-failed", format!("{e:?}")))?;
                    let circuit = cb.build().map_err(|e| perr("C14/honest-A:circuit-build-failed", format!("{e:?}")))?;
                    Ok((vi, op_ids, circuit))
                });
                let (vi, op_ids, circuit) = match built {
                    Ok(x) => x?,
                    Err(p) => return Err(perr("C14/honest-A:verifier-circuit-construction-panicked", p)),
                };
                let json_a = serde_json::json!({ "bsp": serde_json::to_value(&pa).expect("serialises") });
                let json_b = serde_json::json!({ "bsp": serde_json::to_value(&pb).expect("serialises") });
                let proof_path: Path = vec![k("bsp"), k("proof")];
                let mut w = Walk::new(&json_b);
                let pt = &vi.proof_targets;
                w.commitments(&pt.commitments_targets, &join(&proof_path, &[k("commitments")]), "main");
                w.opened_flattened(&pt.flattened_opened_values_targets, &join(&proof_path, &[k("opened_values"), k("instances")]));
                w.fri(&pt.opening_proof, &join(&proof_path, &[k("opening_proof")]), D);
                w.lookup_terminals(&pt.lookup_terminals, &join(&proof_path, &[k("lookup_terminals")]));
                // the serialised common data: find the commitment cap
                let prep_path = jsonmut::leaves(&json_b)
                    .into_iter()
                    .find(|p| {
                        let s = jsonmut::class_of(p);
                        s.starts_with("bsp.stark_common") && s.contains("commitment.cap")
                    })
                    .map(|p| p[..p.iter().position(|s| *s == k("cap")).unwrap()].to_vec());
                let tail = prep_path.as_ref().map(|p| prep_tail(&json_b, p)).unwrap_or_default();
                let (slots, walk_problems) = (w.slots, w.problems);
                let mut classes = shape_classes(r, <C as Fc>::NAME);
                classes.push(format!("circuit-tables:public_lanes={}", packing.public_lanes()));
                classes.push(format!("circuit-tables:alu_lanes={}", packing.alu_lanes()));
                classes.push(format!("circuit-tables:ops={}", if n_ops < 12 { "<12" } else if n_ops < 24 { "12-23" } else { ">=24" }));
                classes.extend(proof_classes(&json_b, &proof_path));
                let pis: Vec<Vec<F>> = vec![vec![]; n_tables];
                let vi = Rc::new(vi);
                let pack = {
                    let vi = vi.clone();
                    Box::new(move |v: &Value| -> Result<(Vec<Challenge>, Vec<Challenge>), String> {
                        let b = Bsp::deserialize(v.get("bsp").ok_or("no bsp")?).map_err(|e| format!("deserialise: {e}"))?;
                        Ok(vi.pack_values(&pis, &b.proof, &b.stark_common))
                    })
                };
                let set_mmcs = Box::new(move |runner: &mut CircuitRunner<'_, Challenge>, v: &Value| -> Result<(), String> {
                    let b = Bsp::deserialize(v.get("bsp").ok_or("no bsp")?).map_err(|e| format!("deserialise: {e}"))?;
                    set_fri_mmcs_private_data::<F, Challenge, ChallengeMmcs, MyMmcs, MyHash, MyCompress, DIGEST_ELEMS>(
                        runner, &op_ids, &b.proof.opening_proof, P2CFG,
                    )
                    .map_err(|e| e.to_string())
                });
                let native = Box::new(move |v: &Value| -> Result<(), String> {
                    let b = Bsp::deserialize(v.get("bsp").ok_or("no bsp")?).map_err(|e| format!("deserialise: {e}"))?;
                    match catch(|| prover_b.verify_all_tables::<F>(&b)) {
                        Ok(Ok(())) => Ok(()),
                        Ok(Err(e)) => Err(format!("{e:?}")),
                        Err(p) => Err(format!("panic:{p}")),
                    }
                });
                Ok(Prepared { circuit, slots, walk_problems, tail, json_a, json_b, pack, set_mmcs, native, classes })
            }

            pub fn prepare(r: &RShape, seed_a: u64, seed_b: u64) -> Result<Prepared<C>, PrepErr> {
                match r.family {
                    0 | 1 | 2 => uni_plain(r, seed_a, seed_b),
                    7 => uni_zk(r, seed_a, seed_b),
                    3 => batch_plain(r, seed_a, seed_b),
                    4 => batch_lookups(r, seed_a, seed_b),
                    5 => batch_zk(r, seed_a, seed_b),
                    _ => batch_zkh(r, seed_a, seed_b),
                }
            }
        }
    };
}

field_mod!(bb, baby_bear_params, crate::fields::Bb4, p3_poseidon2_circuit_air::BabyBearD4Width16, Poseidon2Config::BABY_BEAR_D4_W16, p3_baby_bear::default_babybear_poseidon2_16);
field_mod!(kb, koala_bear_params, crate::fields::Kb4, p3_poseidon2_circuit_air::KoalaBearD4Width16, Poseidon2Config::KOALA_BEAR_D4_W16, p3_koala_bear::default_koalabear_poseidon2_16);

// ------------------------------------------------------------------------------------------
// oracle, strategy, driver
// ------------------------------------------------------------------------------------------

pub const RULE: &str = "proof shape = family {uni Fibonacci-with-public-values, uni Mul-with-preprocessed (degree 2-4 -> 1/2/4 \
quotient chunks), uni ZK (HidingFriPcs), batch of 1-4 mixed tables (Mul/Add/Sub/Fib, different heights and widths), batch of \
circuit-prover tables with LogUp lookups, batch ZK, batch ZK with hiding (salted) MMCS} x {BabyBear D4, KoalaBear D4} x trace \
height 2^2..2^6 x width knob 1-5 x FRI {log_blowup 1-3, queries 1-3, max_log_arity 1-3, log_final_poly_len 0-2, commit/query PoW \
bits in {0,1,3}, cap height 0-2}; two independent honest proofs A (circuit) and B (values); picks = (vector in {public, private, \
mmcs sibling digests}, position, non-zero delta, base/extension delta); oracle: lengths == flat lens, every walked target holds \
B's documented element, perturbed run fails IFF native rejects the same change; non-trivial = case with >= 1 position whose native \
verdict flips to reject; distinct on the whole case";

pub fn oracle(c: &Case) -> Report {
    let r = resolve(&c.shape);
    N_SHAPES.fetch_add(1, Ordering::Relaxed);
    macro_rules! go {
        ($m:ident) => {{
            match timed(&T_PREP, || $m::prepare(&r, c.seed_a, c.seed_b)) {
                Ok(prep) => evaluate::<$m::C>(&prep, c, r.family == 6),
                Err((sig, msg)) => {
                    let mut cl = shape_classes(&r, <$m::C as Fc>::NAME);
                    cl.push(format!("prepare-failed:{sig}"));
                    Report::fail(sig, format!("{msg}; resolved shape {r:?}")).classes(cl)
                }
            }
        }};
    }
    if r.field == 0 { go!(bb) } else { go!(kb) }
}

/// Digest of the verifier circuit built for a proof shape (operation list in order, witness
/// count, public rows); used by C18 to compare independent compilations of one verifier circuit.
pub fn verifier_circuit_digest(shape: &Shape, seed_a: u64, seed_b: u64) -> Result<(u64, usize, Vec<String>), String> {
    use std::hash::{Hash, Hasher};
    let r = resolve(shape);
    macro_rules! go {
        ($m:ident) => {{
            match $m::prepare(&r, seed_a, seed_b) {
                Ok(prep) => {
                    let mut hs = std::collections::hash_map::DefaultHasher::new();
                    for op in &prep.circuit.ops {
                        crate::e1::fmt_op::<$m::C>(op).hash(&mut hs);
                    }
                    prep.circuit.witness_count.hash(&mut hs);
                    prep.circuit.public_rows.iter().for_each(|w| w.0.hash(&mut hs));
                    prep.circuit.private_input_rows.iter().for_each(|w| w.0.hash(&mut hs));
                    Ok((hs.finish(), prep.circuit.ops.len(), shape_classes(&r, <$m::C as Fc>::NAME)))
                }
                Err((sig, msg)) => Err(format!("{sig}: {msg}")),
            }
        }};
    }
    if r.field == 0 { go!(bb) } else { go!(kb) }
}

pub fn shape_strategy() -> impl Strategy<Value = Shape> {
    (
        (0u8..8, 0u8..2, 0u8..5, 0u8..5, 0u8..3),
        prop::collection::vec(0u8..4, 1..=4),
        (0u8..3, 0u8..3, 0u8..3, 0u8..3, 0u8..3, 0u8..3, prop_oneof![3 => Just(0u8), 1 => 1u8..3]),
    )
        .prop_map(|((family, field, log_rows, reps, degree), tables, f)| Shape {
            family,
            field,
            log_rows,
            reps,
            degree,
            tables,
            fri: FriShape {
                log_blowup: f.0,
                num_queries: f.1,
                max_log_arity: f.2,
                log_final_poly_len: f.3,
                commit_pow_bits: f.4,
                query_pow_bits: f.5,
                cap_height: f.6,
            },
        })
}

/// Shapes for the swept sub-check of the quick tier: the hiding-MMCS family and Merkle caps above
/// the root are as likely as everything else together (a cap that spans a whole folded codeword
/// leaves openings without a Merkle path; salts and opened rows must still be bound).
fn swept_strategy() -> impl Strategy<Value = Case> {
    (shape_strategy(), any::<bool>(), 0u8..3, 0u8..3, any::<u64>(), any::<u64>()).prop_map(|(mut shape, hiding, cap, blow, seed_a, seed_b)| {
        if hiding {
            shape.family = 6;
        }
        shape.fri.cap_height = cap;
        if cap > 0 {
            shape.fri.log_blowup = blow;
        }
        Case { shape, seed_a, seed_b, picks: vec![], all: true }
    })
}

fn pick_strategy() -> impl Strategy<Value = Pick> {
    (0u8..10, any::<u16>(), any::<u32>(), prop::bool::weighted(0.2)).prop_map(|(vec, pos, delta, ext)| Pick { vec, pos, delta, ext })
}

pub fn strategy(n_picks: usize, all: bool) -> impl Strategy<Value = Case> {
    (
        shape_strategy(),
        any::<u64>(),
        any::<u64>(),
        prop::collection::vec(pick_strategy(), if all { 0..=0 } else { n_picks..=n_picks }),
    )
        .prop_map(move |(shape, seed_a, seed_b, picks)| Case {
            shape,
            seed_a,
            // independent by construction
            seed_b: if seed_b == seed_a { seed_b ^ 1 } else { seed_b },
            picks,
            all,
        })
}

pub fn run(ctx: &Ctx) {
    ctx.assume("field configurations: BabyBear and KoalaBear with the quartic challenge field and Poseidon2 width 16 (p3-test-utils parameter sets); arity-2 MMCS");
    ctx.assume("the native prover's proof-of-work grind is a parallel search: with PoW bits > 0 the witness values (not the verdicts) may differ between replays of one case");
    ctx.assume("batch families: the global preprocessed commitment's targets are crate-private (CommonDataTargets::preprocessed); they are mapped by the documented packing order (last public positions)");
    ctx.shrink_iters.store(40, Ordering::Relaxed);
    let thorough = ctx.tier == fw::Tier::Thorough;
    let cases = ctx.tier.pick(400, 6000);
    if thorough {
        ctx.explore("positions", RULE, cases, || strategy(0, true), oracle);
    } else {
        ctx.explore("positions", RULE, cases, || strategy(400, false), oracle);
    }
    if !thorough {
        // a small number of shapes with EVERY position perturbed (the thorough tier does that
        // for all its shapes)
        ctx.explore("positions-swept", RULE, 48, swept_strategy, oracle);
    }
    ctx.replay_known("positions", oracle);
    let us = |a: &AtomicU64| a.load(Ordering::Relaxed) as f64 / 1e6;
    ctx.note(format!(
        "cpu seconds (summed over threads): prove A+B and build circuit {:.1} ({} shapes incl. shrinking), native verify {:.1}, circuit runs {:.1} ({} runs)",
        us(&T_PREP),
        N_SHAPES.load(Ordering::Relaxed),
        us(&T_NATIVE),
        us(&T_RUN),
        N_RUN.load(Ordering::Relaxed)
    ));
}
