//! C16 — proof metadata cannot weaken verification; serialisation preserves the verdict.
//!
//! A `BatchStarkProof` of a generated circuit (of an honest trace, or of a forged trace the
//! verifier rejects) is serialised to JSON, 1-2 self-declared metadata leaves (everything
//! outside the inner `proof`) are altered to other well-formed values, and the result is
//! verified natively.  In parallel every proof goes through postcard and JSON round trips.

use proptest::prelude::*;
use serde::{Deserialize, Serialize};
use serde_json::Value;

use crate::checks::c04::Fault;
use crate::checks::c10::{Case as C10Case, packing};
use crate::dispatch_field;
use crate::e1::{self, Built, GenOpts, Prog};
use crate::forge;
use crate::fw::{Ctx, Report, Verdict, catch, hash_of, pick};
use crate::jsonmut::{self, Path, PathSeg};
use crate::pv::{NpoSel, Pv, PvErr};

#[derive(Clone, Debug, Serialize, Deserialize, Hash, PartialEq, Eq)]
pub enum Edit {
    /// replace a scalar metadata leaf (selected among all metadata leaves)
    Leaf { sel: u16, how: LeafEdit },
    /// restructure the `non_primitives` list
    Tables { how: ListEdit, i: u16, j: u16 },
}

#[derive(Clone, Debug, Serialize, Deserialize, Hash, PartialEq, Eq)]
pub enum LeafEdit {
    Inc,
    Dec,
    Set(u32),
    Double,
    Half,
    /// flip a bool / swap null<->number / rename a table
    Toggle,
}

#[derive(Clone, Debug, Serialize, Deserialize, Hash, PartialEq, Eq)]
pub enum ListEdit {
    Drop,
    Duplicate,
    Swap,
}

#[derive(Clone, Debug, Serialize, Deserialize, Hash)]
pub struct Case {
    pub prog: Prog,
    pub public_lanes: u8,
    pub alu_lanes: u8,
    pub horner_k: u8,
    /// make the proven trace invalid first (one relevant ALU cell changed)
    pub invalid: Option<(u16, u8)>,
    pub edits: Vec<Edit>,
}

pub const RULE: &str = "BatchStarkProofs of random circuits (5 field configurations, lanes, Horner k, recompose tables), \
of the honest trace or of a trace with one relevant ALU cell changed (natively rejected) x 1-2 alterations of \
self-declared metadata (every scalar leaf outside the inner proof: ext_degree, w_binomial, alu_quintic_trinomial, \
alu_variant, rows, table_packing.*, non_primitives[*].*, stark_common.*; drop/duplicate/swap of table entries) to \
other well-formed values, plus postcard and JSON round trips of every proof. Oracle: invalid-trace proof stays \
rejected; changed field parameters are rejected; no panic; verify(deser(ser(p))) == verify(p). Non-trivial = \
(invalid-trace proof, edit) or an edit that changes a leaf; distinct on (leaf class, edit kind, invalid?, verdict)";

fn metadata_leaves(v: &Value) -> Vec<Path> {
    jsonmut::leaves(v)
        .into_iter()
        .filter(|p| !matches!(p.first(), Some(PathSeg::Key(k)) if k == "proof"))
        .collect()
}

const TABLE_NAMES: [&str; 4] = ["recompose", "recompose/coeff", "poseidon2_perm", "unknown/table"];

fn apply_leaf(v: &mut Value, how: &LeafEdit) -> bool {
    let old = v.clone();
    match (&*v, how) {
        (Value::Number(n), _) => {
            let x = n.as_u64().unwrap_or(0);
            let y = match how {
                LeafEdit::Inc => x.wrapping_add(1),
                LeafEdit::Dec => x.wrapping_sub(1),
                LeafEdit::Set(k) => *k as u64,
                LeafEdit::Double => x.wrapping_mul(2),
                LeafEdit::Half => x / 2,
                LeafEdit::Toggle => {
                    *v = Value::Null;
                    return true;
                }
            };
            *v = Value::from(y);
        }
        (Value::Bool(b), _) => *v = Value::Bool(!*b),
        (Value::Null, LeafEdit::Set(k)) => *v = Value::from(*k as u64),
        (Value::Null, _) => *v = Value::from(11u64),
        (Value::String(s), how) => {
            let k = match how {
                LeafEdit::Set(k) => *k as usize,
                LeafEdit::Inc => 1,
                LeafEdit::Dec => 2,
                _ => 3,
            };
            let cur = TABLE_NAMES.iter().position(|n| n == s).unwrap_or(0);
            *v = Value::String(TABLE_NAMES[(cur + 1 + k) % TABLE_NAMES.len()].to_string());
        }
        _ => {}
    }
    *v != old
}

fn check<C: Pv>(c: &Case) -> Report {
    let built: Built<C> = e1::interpret::<C>(&c.prog, e1::Excl::ALL_SAT);
    let Built {
        builder,
        publics,
        privates,
        ..
    } = built;
    let circuit = match builder.build() {
        Ok(x) => x,
        Err(e) => return Report::fail("C16/build-error", format!("{e:?}")),
    };
    if !e1::horner_shape_ok(&circuit) {
        return Report::pass().class("excluded_by_known_finding:horner-positional-contract");
    }
    let mut runner = circuit.runner();
    if runner
        .set_public_inputs(&publics)
        .and_then(|_| runner.set_private_inputs(&privates))
        .is_err()
    {
        return Report::discard("inputs rejected");
    }
    let Ok(honest) = runner.run() else {
        return Report::discard("honest run failed");
    };
    let pk = packing(&C10Case {
        prog: Prog {
            field: 0,
            recompose_npo: false,
            stmts: vec![],
        },
        public_lanes: c.public_lanes,
        alu_lanes: c.alu_lanes,
        horner_k: c.horner_k,
        log_min_height: 0,
    });
    let npo = NpoSel {
        recompose: c.prog.recompose_npo,
        debug_lookups: false,
        poseidon2: None,
        poseidon1: None,
    };
    let setup = match C::setup(&circuit, &pk, &npo) {
        Ok(s) => s,
        Err(PvErr::Setup(m)) if m.starts_with("UnclaimedPrivateInput") => {
            return Report::discard("documented: unclaimed private input");
        }
        Err(e) => return Report::discard(format!("setup failed: {}", e.kind())),
    };
    // ---- the proof to start from
    let mut traces = honest;
    let mut invalid = false;
    if let Some((row, col)) = &c.invalid {
        let rows = traces.alu_trace.values.len();
        if rows > 0 {
            let r = pick(*row, rows);
            // a relevant cell: a / b / out of the row (c only for MulAdd / Horner)
            let k = [0usize, 1, 3][(*col % 3) as usize];
            let pack_k = 2 + (c.horner_k % 3) as usize;
            if !forge::uncommitted_alu_cells(&circuit, pack_k).contains(&(r, k))
                && !(traces.alu_trace.op_kind[r] == p3_circuit::AluOpKind::BoolCheck && k == 1)
            {
                use p3_field::PrimeCharacteristicRing;
                traces.alu_trace.values[r][k] += C::EF::ONE;
                invalid = forge::trace_validity::<C>(&circuit, &traces).len() > 0;
            }
        }
    }
    let _ = Fault::PublicCell {
        row: 0,
        delta: e1::Val::zero(),
    };
    let proof = match C::prove(&setup, &traces) {
        Ok(p) => p,
        Err(_) => return Report::discard("prover refused the trace"),
    };
    let verdict0 = C::verify(&setup, &proof);
    if invalid && verdict0.is_ok() {
        if std::env::var("VERIF_DUMP_VR").is_ok() {
            eprintln!("INVALID-ACCEPTED {} :: {:?}", serde_json::to_string(c).unwrap(), forge::trace_validity::<C>(&circuit, &traces).iter().map(|i| i.class.clone()).collect::<Vec<_>>());
        }
        return Report::discard("invalid trace accepted natively (C04's business)");
    }
    if !invalid && verdict0.is_err() {
        return Report::discard("honest proof rejected natively (C10's business)");
    }
    let mut rep = Report::pass()
        .class(format!("field:{}", C::NAME))
        .class(if invalid { "base:invalid-trace-proof" } else { "base:honest-proof" });

    // ---- round trips of the untouched proof
    let ok0 = verdict0.is_ok();
    let bytes = C::proof_to_postcard(&proof);
    match C::proof_from_postcard(&bytes) {
        Ok(p2) => {
            let v = C::verify(&setup, &p2);
            if v.is_ok() != ok0 || matches!(v, Err(PvErr::VerifyPanic(_))) {
                return fail(rep, "C16/serde-changes-verdict:postcard", format!("direct {:?} vs round-tripped {:?}", ok0, v.err().map(|e| e.kind())));
            }
            if C::proof_to_postcard(&p2) != bytes {
                return fail(rep, "C16/serde-not-idempotent:postcard", "re-serialised bytes differ".into());
            }
        }
        Err(e) => return fail(rep, "C16/serde-roundtrip-failed:postcard", e),
    }
    let json0 = C::proof_to_json(&proof);
    match C::proof_from_json(json0.clone()) {
        Ok(p2) => {
            let v = C::verify(&setup, &p2);
            if v.is_ok() != ok0 {
                return fail(rep, "C16/serde-changes-verdict:json", format!("direct {ok0} vs round-tripped {:?}", v.err().map(|e| e.kind())));
            }
        }
        Err(e) => return fail(rep, "C16/serde-roundtrip-failed:json", e),
    }

    // ---- metadata edits
    let mut json = json0.clone();
    let mut classes: Vec<String> = vec![];
    let mut field_param_changed = false;
    for e in &c.edits {
        match e {
            Edit::Leaf { sel, how } => {
                let ls = metadata_leaves(&json);
                if ls.is_empty() {
                    continue;
                }
                let path = ls[pick(*sel, ls.len())].clone();
                let cls = jsonmut::class_of(&path);
                if let Some(v) = jsonmut::get_mut(&mut json, &path) {
                    if apply_leaf(v, how) {
                        if cls == "ext_degree" || cls == "w_binomial" || cls == "alu_quintic_trinomial" {
                            field_param_changed = true;
                        }
                        classes.push(format!("{cls}:{}", match how {
                            LeafEdit::Set(_) => "set".to_string(),
                            h => format!("{h:?}").to_lowercase(),
                        }));
                    }
                }
            }
            Edit::Tables { how, i, j } => {
                let Some(Value::Array(a)) = json.get_mut("non_primitives") else {
                    continue;
                };
                if a.is_empty() {
                    continue;
                }
                let (i, j) = (pick(*i, a.len()), pick(*j, a.len()));
                match how {
                    ListEdit::Drop => {
                        a.remove(i);
                    }
                    ListEdit::Duplicate => {
                        let x = a[i].clone();
                        a.insert(j, x);
                    }
                    ListEdit::Swap => {
                        if i == j {
                            continue;
                        }
                        a.swap(i, j);
                    }
                }
                classes.push(format!("non_primitives:{how:?}").to_lowercase());
            }
        }
    }
    if json == json0 {
        return rep.class("edit:none-effective");
    }
    rep = rep.classes(classes.iter().map(|c| format!("edit:{c}")));
    let edited = match C::proof_from_json(json) {
        Ok(p) => p,
        Err(e) => {
            if e.starts_with("panic") {
                return fail(rep, "C16/deserialise-panic", e);
            }
            return rep.class("outcome:edit-not-well-formed(deserialisation error)");
        }
    };
    let v1 = C::verify(&setup, &edited);
    rep = rep
        .nontrivial(true)
        .key(hash_of(&(C::NAME, &classes, invalid, v1.is_ok())));
    if let Err(PvErr::VerifyPanic(m)) = &v1 {
        return fail(
            rep,
            &format!("C16/verify-panic:{}", classes.first().cloned().unwrap_or_default()),
            format!("verify_all_tables panicked on edited metadata {classes:?}: {}", m.chars().take(300).collect::<String>()),
        );
    }
    if invalid && v1.is_ok() {
        return fail(
            rep,
            &format!("C16/invalid-proof-accepted-after-edit:{}", classes.join("+")),
            format!("a proof of an invalid trace verifies after metadata edits {classes:?}"),
        );
    }
    if field_param_changed && v1.is_ok() {
        return fail(
            rep,
            &format!("C16/field-parameter-mismatch-accepted:{}", classes.join("+")),
            format!("metadata contradicting the verifier's field was accepted: {classes:?}"),
        );
    }
    // round trip of the edited proof
    let ok1 = v1.is_ok();
    let b1 = C::proof_to_postcard(&edited);
    match catch(|| C::proof_from_postcard(&b1)) {
        Ok(Ok(p2)) => {
            let v2 = C::verify(&setup, &p2);
            if v2.is_ok() != ok1 {
                return fail(rep, "C16/serde-changes-verdict:postcard(edited)", format!("direct {ok1} vs round-tripped {:?}", v2.err().map(|e| e.kind())));
            }
        }
        Ok(Err(_)) => {
            if ok1 {
                return fail(rep, "C16/serde-roundtrip-failed:postcard(edited, accepted proof)", "an accepted proof does not survive postcard".into());
            }
        }
        Err(p) => return fail(rep, "C16/deserialise-panic", p),
    }
    rep.class(if ok1 { "outcome:edited-accepted" } else { "outcome:edited-rejected" })
}

// ---------------------------------------------------------------------------------------------
// Metadata that is not serialised: the lookup contexts an in-memory proof carries
// ---------------------------------------------------------------------------------------------

/// `stark_common.lookups` travels with an in-memory `BatchStarkProof` but is not serialised.
/// A prover can (a) prove an invalid trace against weakened lookup contexts (they are public
/// fields of `CircuitProverData`, and `prove` copies them into the proof) or (b) edit the
/// contexts of a finished proof.  Either way the proof of an invalid trace must stay rejected,
/// and the verdict must not depend on whether the proof went through serialisation.
#[derive(Clone, Debug, Serialize, Deserialize, Hash)]
pub struct MemCase {
    pub prog: Prog,
    pub public_lanes: u8,
    pub alu_lanes: u8,
    pub horner_k: u8,
    /// which cell makes the trace invalid: (public table?, row, column selector)
    pub invalid: (bool, u16, u8),
    /// tables whose lookup contexts are emptied (bit i = table i; 0 is mapped to "all")
    pub strip_mask: u8,
    /// false: weaken the prover's common data before proving; true: edit the finished proof
    pub proof_side: bool,
}

pub const RULE_MEM: &str = "BatchStarkProofs of random circuits whose trace has one relevant cell changed (Public or ALU table; natively rejected) x the lookup contexts of a subset of tables emptied, either in the prover's common data before proving (the proof is then made for the weakened constraint system and carries the weakened contexts) or in the finished in-memory proof. Oracle: the in-memory proof is rejected, and verify(deser(ser(p))) == verify(p) (postcard and JSON). Non-trivial = every case whose trace is invalid by the validity oracle; distinct on (field, side, stripped-table set, which table was invalidated)";

fn check_mem<C: Pv>(c: &MemCase) -> Report {
    use p3_field::PrimeCharacteristicRing;
    let built: Built<C> = e1::interpret::<C>(&c.prog, e1::Excl::ALL_SAT);
    let Built { builder, publics, privates, .. } = built;
    let circuit = match builder.build() {
        Ok(x) => x,
        Err(e) => return Report::fail("C16/build-error", format!("{e:?}")),
    };
    if !e1::horner_shape_ok(&circuit) {
        return Report::pass().class("excluded_by_known_finding:horner-positional-contract");
    }
    let mut runner = circuit.runner();
    if runner
        .set_public_inputs(&publics)
        .and_then(|_| runner.set_private_inputs(&privates))
        .is_err()
    {
        return Report::discard("inputs rejected");
    }
    let Ok(mut traces) = runner.run() else {
        return Report::discard("honest run failed");
    };
    let pk = packing(&C10Case {
        prog: Prog { field: 0, recompose_npo: false, stmts: vec![] },
        public_lanes: c.public_lanes,
        alu_lanes: c.alu_lanes,
        horner_k: c.horner_k,
        log_min_height: 0,
    });
    let npo = NpoSel { recompose: c.prog.recompose_npo, debug_lookups: false, poseidon2: None, poseidon1: None };
    let mut setup = match C::setup(&circuit, &pk, &npo) {
        Ok(s) => s,
        Err(PvErr::Setup(m)) if m.starts_with("UnclaimedPrivateInput") => {
            return Report::discard("documented: unclaimed private input");
        }
        Err(e) => return Report::discard(format!("setup failed: {}", e.kind())),
    };
    // ---- make the trace invalid
    let (in_public, row, col) = c.invalid;
    let mut which = "none";
    if in_public && !traces.public_trace.values.is_empty() {
        let r = pick(row, traces.public_trace.values.len());
        traces.public_trace.values[r] += C::EF::ONE;
        which = "public";
    } else if !traces.alu_trace.values.is_empty() {
        let rows = traces.alu_trace.values.len();
        let r = pick(row, rows);
        let k = [0usize, 1, 3][(col % 3) as usize];
        let pack_k = 2 + (c.horner_k % 3) as usize;
        if !forge::uncommitted_alu_cells(&circuit, pack_k).contains(&(r, k))
            && !(traces.alu_trace.op_kind[r] == p3_circuit::AluOpKind::BoolCheck && k == 1)
        {
            traces.alu_trace.values[r][k] += C::EF::ONE;
            which = "alu";
        }
    }
    if which == "none" || forge::trace_validity::<C>(&circuit, &traces).is_empty() {
        return Report::discard("no invalidating cell in this trace");
    }
    // ---- weaken the lookup contexts
    let n_tables = setup.cpd.prover_data.common.lookups.len();
    let mask = if c.strip_mask == 0 { u8::MAX } else { c.strip_mask };
    let stripped: Vec<usize> = (0..n_tables).filter(|i| mask >> (i % 8) & 1 == 1).collect();
    // control: with the honest contexts the invalid trace must already be rejected (an invalid
    // trace the verifier accepts anyway is C04's subject, not a metadata effect)
    let baseline = match C::prove(&setup, &traces) {
        Ok(p) => p,
        Err(_) => return Report::discard("prover refused the trace"),
    };
    if C::verify(&setup, &baseline).is_ok() {
        return Report::discard("invalid trace accepted natively with honest metadata (C04's business)");
    }
    let mut proof = if c.proof_side {
        baseline
    } else {
        for &i in &stripped {
            setup.cpd.prover_data.common.lookups[i] = Default::default();
        }
        match C::prove(&setup, &traces) {
            Ok(p) => p,
            Err(_) => return Report::discard("prover refused the trace (weakened contexts)"),
        }
    };
    if c.proof_side {
        for &i in &stripped {
            if i < proof.stark_common.lookups.len() {
                proof.stark_common.lookups[i] = Default::default();
            }
        }
    }
    let side = if c.proof_side { "proof-side" } else { "prover-side" };
    let rep = Report::pass()
        .class(format!("field:{}", C::NAME))
        .class(format!("side:{side}"))
        .class(format!("invalid:{which}"))
        .class(if stripped.len() == n_tables { "stripped:all-tables" } else { "stripped:some-tables" })
        .nontrivial(true)
        .key(hash_of(&(C::NAME, side, &stripped, which)));
    let v_mem = C::verify(&setup, &proof);
    if let Err(PvErr::VerifyPanic(m)) = &v_mem {
        return fail(rep, &format!("C16/verify-panic:in-memory-lookups:{side}"), m.chars().take(300).collect());
    }
    if v_mem.is_ok() {
        return fail(
            rep,
            &format!("C16/invalid-proof-accepted:in-memory-lookups:{side}:{which}"),
            format!("a proof of an invalid trace ({which} table cell changed) is accepted in memory when the lookup contexts of tables {stripped:?} are emptied ({side})"),
        );
    }
    let bytes = C::proof_to_postcard(&proof);
    match C::proof_from_postcard(&bytes) {
        Ok(p2) => {
            let v = C::verify(&setup, &p2);
            if v.is_ok() != v_mem.is_ok() {
                return fail(rep, "C16/serde-changes-verdict:postcard(in-memory-lookups)", format!("in memory {:?} vs round-tripped {:?}", v_mem.is_ok(), v.is_ok()));
            }
        }
        Err(e) => return fail(rep, "C16/serde-roundtrip-failed:postcard", e),
    }
    match C::proof_from_json(C::proof_to_json(&proof)) {
        Ok(p2) => {
            let v = C::verify(&setup, &p2);
            if v.is_ok() != v_mem.is_ok() {
                return fail(rep, "C16/serde-changes-verdict:json(in-memory-lookups)", format!("in memory {:?} vs round-tripped {:?}", v_mem.is_ok(), v.is_ok()));
            }
        }
        Err(e) => return fail(rep, "C16/serde-roundtrip-failed:json", e),
    }
    rep.class("outcome:rejected-in-memory-and-after-roundtrip")
}

pub fn oracle_mem(c: &MemCase) -> Report {
    dispatch_field!(c.prog.field as usize, C => check_mem::<C>(c))
}

fn mem_strategy() -> impl Strategy<Value = MemCase> {
    (
        e1::prog_strategy(GenOpts {
            violating: false,
            free_connect: false,
            max_len: 10,
            free_horner_weight: 1,
            fields: vec![0, 1, 3, 4, 6],
            ..GenOpts::default()
        }),
        0u8..4,
        0u8..4,
        0u8..3,
        (any::<bool>(), any::<u16>(), 0u8..3),
        prop_oneof![2 => Just(0u8), 1 => any::<u8>()],
        any::<bool>(),
    )
        .prop_map(|(prog, public_lanes, alu_lanes, horner_k, invalid, strip_mask, proof_side)| MemCase {
            prog,
            public_lanes,
            alu_lanes,
            horner_k,
            invalid,
            strip_mask,
            proof_side,
        })
}

// ---------------------------------------------------------------------------------------------
// VerifierManifest::matches — the caller-side statement of "the expected table set"
// ---------------------------------------------------------------------------------------------

#[derive(Clone, Debug, Serialize, Deserialize, Hash, PartialEq, Eq)]
pub struct NpoMeta {
    /// index into MAN_TABLES
    pub table: u8,
    pub optimized: bool,
    pub pv_len: u8,
}

/// The manifest's view: 0 base, 1 binomial W, 2 binomial W+1, 3 quintic trinomial.
#[derive(Clone, Debug, Serialize, Deserialize, Hash, PartialEq, Eq)]
pub struct ManMeta {
    pub ext_degree: u8,
    pub reduction: u8,
    pub alu_optimized: bool,
    pub npo: Vec<NpoMeta>,
}

#[derive(Clone, Debug, Serialize, Deserialize, Hash, PartialEq, Eq)]
pub enum MEdit {
    ExtDegree(u8),
    /// proof.w_binomial: 0 None, 1 Some(W), 2 Some(W+1)
    W(u8),
    Quintic,
    AluVariant,
    Drop(u16),
    /// append a copy of entry i
    DupAppend(u16),
    Append(NpoMeta),
    Insert(u16, NpoMeta),
    Table(u16, u8),
    Variant(u16),
    PvLen(u16, u8),
    Swap(u16, u16),
}

#[derive(Clone, Debug, Serialize, Deserialize, Hash)]
pub struct ManCase {
    pub prog: Prog,
    pub manifest: ManMeta,
    /// applied to the proof's metadata, which starts out equal to the manifest
    pub edits: Vec<MEdit>,
}

const MAN_TABLES: [&str; 5] = ["recompose", "recompose/coeff", "poseidon2_perm/koala_bear_d4_w16", "poseidon1_perm/baby_bear_d4_w16", "unknown/table"];

pub const RULE_MAN: &str = "VerifierManifest::matches(proof) on a real BatchStarkProof whose self-declared metadata is overwritten: the manifest is generated (ext_degree, reduction base/binomial W/binomial W+1/quintic, ALU variant, 0-3 expected tables with op type, AIR variant, public-value length), the proof's metadata starts equal to it and receives 0-3 edits (ext_degree, w_binomial, quintic flag, ALU variant; drop/append/insert/duplicate/swap of table entries; op type, variant, public-value length of one entry). Oracle: a field-by-field reference comparison (lists compared by length and element-wise) -- Ok iff equal; no panic. Non-trivial = at least one effective edit; distinct on (edit kinds, expected verdict, list lengths)";

#[derive(Clone, Debug, PartialEq, Eq)]
struct ProofMeta {
    ext_degree: u8,
    w: u8,
    quintic: bool,
    alu_optimized: bool,
    npo: Vec<NpoMeta>,
}

fn proof_meta_of(c: &ManCase) -> (ProofMeta, Vec<&'static str>) {
    let (w, quintic) = match c.manifest.reduction % 4 {
        0 => (0, false),
        1 => (1, false),
        2 => (2, false),
        _ => (0, true),
    };
    let mut m = ProofMeta {
        ext_degree: c.manifest.ext_degree,
        w,
        quintic,
        alu_optimized: c.manifest.alu_optimized,
        npo: c.manifest.npo.clone(),
    };
    let mut kinds = vec![];
    for e in &c.edits {
        let before = m.clone();
        let kind = match e {
            MEdit::ExtDegree(d) => {
                m.ext_degree = *d;
                "ext_degree"
            }
            MEdit::W(w) => {
                m.w = *w % 3;
                "w_binomial"
            }
            MEdit::Quintic => {
                m.quintic = !m.quintic;
                "quintic"
            }
            MEdit::AluVariant => {
                m.alu_optimized = !m.alu_optimized;
                "alu_variant"
            }
            MEdit::Drop(i) => {
                if !m.npo.is_empty() {
                    let i = pick(*i, m.npo.len());
                    m.npo.remove(i);
                }
                "drop"
            }
            MEdit::DupAppend(i) => {
                if !m.npo.is_empty() {
                    let i = pick(*i, m.npo.len());
                    let x = m.npo[i].clone();
                    m.npo.push(x);
                }
                "dup-append"
            }
            MEdit::Append(x) => {
                m.npo.push(x.clone());
                "append"
            }
            MEdit::Insert(i, x) => {
                let i = pick(*i, m.npo.len() + 1);
                m.npo.insert(i, x.clone());
                "insert"
            }
            MEdit::Table(i, t) => {
                if !m.npo.is_empty() {
                    let i = pick(*i, m.npo.len());
                    m.npo[i].table = *t;
                }
                "op_type"
            }
            MEdit::Variant(i) => {
                if !m.npo.is_empty() {
                    let i = pick(*i, m.npo.len());
                    m.npo[i].optimized = !m.npo[i].optimized;
                }
                "air_variant"
            }
            MEdit::PvLen(i, l) => {
                if !m.npo.is_empty() {
                    let i = pick(*i, m.npo.len());
                    m.npo[i].pv_len = *l;
                }
                "pv_len"
            }
            MEdit::Swap(i, j) => {
                if m.npo.len() >= 2 {
                    let (i, j) = (pick(*i, m.npo.len()), pick(*j, m.npo.len()));
                    m.npo.swap(i, j);
                }
                "swap"
            }
        };
        if m != before {
            kinds.push(kind);
        }
    }
    (m, kinds)
}

fn man_table(t: u8) -> &'static str {
    MAN_TABLES[t as usize % MAN_TABLES.len()]
}

/// Reference comparison, written from the documentation of `VerifierManifest`.
fn model_matches(man: &ManMeta, p: &ProofMeta) -> bool {
    let (w, quintic) = match man.reduction % 4 {
        0 => (0, false),
        1 => (1, false),
        2 => (2, false),
        _ => (0, true),
    };
    man.ext_degree == p.ext_degree
        && w == p.w
        && quintic == p.quintic
        && man.alu_optimized == p.alu_optimized
        && man.npo.len() == p.npo.len()
        && man.npo.iter().zip(&p.npo).all(|(a, b)| {
            man_table(a.table) == man_table(b.table) && a.optimized == b.optimized && a.pv_len == b.pv_len
        })
}

fn honest_proof_bytes<C: Pv>(prog: &Prog) -> Option<Vec<u8>> {
    static CACHE: std::sync::Mutex<Vec<(String, Vec<u8>)>> = std::sync::Mutex::new(Vec::new());
    if let Some((_, b)) = CACHE.lock().unwrap().iter().find(|(n, _)| n == C::NAME) {
        return Some(b.clone());
    }
    let built: Built<C> = e1::interpret::<C>(prog, e1::Excl::ALL_SAT);
    let Built { builder, publics, privates, .. } = built;
    let circuit = builder.build().ok()?;
    if !e1::horner_shape_ok(&circuit) {
        return None;
    }
    let mut runner = circuit.runner();
    runner.set_public_inputs(&publics).and_then(|_| runner.set_private_inputs(&privates)).ok()?;
    let traces = runner.run().ok()?;
    let pk = packing(&C10Case {
        prog: Prog { field: 0, recompose_npo: false, stmts: vec![] },
        public_lanes: 0,
        alu_lanes: 0,
        horner_k: 0,
        log_min_height: 0,
    });
    let npo = NpoSel { recompose: prog.recompose_npo, debug_lookups: false, poseidon2: None, poseidon1: None };
    let setup = C::setup(&circuit, &pk, &npo).ok()?;
    let proof = C::prove(&setup, &traces).ok()?;
    let bytes = C::proof_to_postcard(&proof);
    let mut c = CACHE.lock().unwrap();
    if !c.iter().any(|(n, _)| n == C::NAME) {
        c.push((C::NAME.to_string(), bytes.clone()));
    }
    Some(bytes)
}

fn check_man<C: Pv>(c: &ManCase) -> Report {
    use p3_batch_stark::Val;
    use p3_circuit::ops::NpoTypeId;
    use p3_circuit_prover::air::AluExtMulKind;
    use p3_circuit_prover::batch_stark_prover::{AirVariant, NonPrimitiveTableEntry};
    use p3_circuit_prover::manifest::{ExpectedNpoEntry, VerifierManifest};
    use p3_field::PrimeCharacteristicRing;
    let Some(bytes) = honest_proof_bytes::<C>(&c.prog) else {
        return Report::discard("no honest proof for this field yet");
    };
    let Ok(mut proof) = C::proof_from_postcard(&bytes) else {
        return Report::fail("C16/serde-roundtrip-failed:postcard", "cached honest proof does not deserialise".to_string());
    };
    let w0: Val<C::SC> = proof.w_binomial.unwrap_or(<Val<C::SC>>::TWO);
    let w_of = |k: u8| if k == 1 { w0 } else { w0 + <Val<C::SC>>::ONE };
    let variant = |o: bool| if o { AirVariant::Optimized } else { AirVariant::Baseline };
    let (pm, kinds) = proof_meta_of(c);
    // the real manifest
    let manifest = VerifierManifest::<Val<C::SC>> {
        ext_degree: c.manifest.ext_degree as usize,
        reduction: match c.manifest.reduction % 4 {
            0 => AluExtMulKind::Base,
            1 => AluExtMulKind::Binomial { w: w_of(1) },
            2 => AluExtMulKind::Binomial { w: w_of(2) },
            _ => AluExtMulKind::QuinticTrinomial,
        },
        alu_variant: variant(c.manifest.alu_optimized),
        expected_npo: c
            .manifest
            .npo
            .iter()
            .map(|e| ExpectedNpoEntry {
                op_type: NpoTypeId::new(man_table(e.table)),
                air_variant: variant(e.optimized),
                public_values_len: e.pv_len as usize,
            })
            .collect(),
    };
    // the proof's self-declared metadata
    proof.ext_degree = pm.ext_degree as usize;
    proof.w_binomial = match pm.w {
        0 => None,
        k => Some(w_of(k)),
    };
    proof.alu_quintic_trinomial = pm.quintic;
    proof.alu_variant = variant(pm.alu_optimized);
    proof.non_primitives = pm
        .npo
        .iter()
        .map(|e| NonPrimitiveTableEntry::<C::SC> {
            op_type: NpoTypeId::new(man_table(e.table)),
            rows: 1,
            lanes: 1,
            public_values: vec![<Val<C::SC>>::ONE; e.pv_len as usize],
            air_variant: variant(e.optimized),
        })
        .collect();
    let expect_ok = model_matches(&c.manifest, &pm);
    let mut ks = kinds.clone();
    ks.sort();
    ks.dedup();
    let mut rep = Report::pass()
        .class(format!("field:{}", C::NAME))
        .class(if expect_ok { "expected:match" } else { "expected:mismatch" })
        .class(format!("lens:{}vs{}", c.manifest.npo.len().min(3), pm.npo.len().min(4)))
        .nontrivial(!kinds.is_empty())
        .key(hash_of(&(&ks, expect_ok, c.manifest.npo.len(), pm.npo.len())));
    for k in &ks {
        rep = rep.class(format!("edit:{k}"));
    }
    let got = match catch(|| manifest.matches::<C::SC>(&proof).map_err(|e| format!("{e:?}"))) {
        Ok(r) => r,
        Err(m) => return fail(rep, "C16/manifest-matches-panic", m.chars().take(300).collect()),
    };
    match (expect_ok, got) {
        (true, Ok(())) => rep.class("outcome:accepted-as-expected"),
        (false, Err(_)) => rep.class("outcome:rejected-as-expected"),
        (false, Ok(())) => {
            let what = ks.join("+");
            fail(
                rep,
                &format!("C16/manifest-accepts-contradicting-metadata:{what}"),
                format!("manifest {:?} accepts proof metadata {pm:?}", c.manifest),
            )
        }
        (true, Err(e)) => fail(rep, "C16/manifest-rejects-matching-metadata", format!("manifest {:?} rejects equal proof metadata {pm:?}: {e}", c.manifest)),
    }
}

pub fn oracle_man(c: &ManCase) -> Report {
    dispatch_field!(c.prog.field as usize, C => check_man::<C>(c))
}

fn man_strategy() -> impl Strategy<Value = ManCase> {
    fn npo() -> impl Strategy<Value = NpoMeta> {
        (0u8..5, any::<bool>(), 0u8..3).prop_map(|(table, optimized, pv_len)| NpoMeta { table, optimized, pv_len })
    }
    let edit = prop_oneof![
        1 => prop_oneof![Just(1u8), Just(4), Just(5), Just(2)].prop_map(MEdit::ExtDegree),
        1 => (0u8..3).prop_map(MEdit::W),
        1 => Just(MEdit::Quintic),
        1 => Just(MEdit::AluVariant),
        2 => any::<u16>().prop_map(MEdit::Drop),
        2 => any::<u16>().prop_map(MEdit::DupAppend),
        2 => npo().prop_map(MEdit::Append),
        1 => (any::<u16>(), npo()).prop_map(|(i, x)| MEdit::Insert(i, x)),
        1 => (any::<u16>(), 0u8..5).prop_map(|(i, t)| MEdit::Table(i, t)),
        1 => any::<u16>().prop_map(MEdit::Variant),
        1 => (any::<u16>(), 0u8..3).prop_map(|(i, l)| MEdit::PvLen(i, l)),
        1 => (any::<u16>(), any::<u16>()).prop_map(|(i, j)| MEdit::Swap(i, j)),
    ];
    (
        e1::prog_strategy(GenOpts {
            violating: false,
            free_connect: false,
            max_len: 4,
            free_horner_weight: 0,
            fields: vec![0, 1, 3, 4, 6],
            ..GenOpts::default()
        }),
        (prop_oneof![Just(1u8), Just(4), Just(5), Just(2)], 0u8..4, any::<bool>(), proptest::collection::vec(npo(), 0..4)),
        proptest::collection::vec(edit, 0..4),
    )
        .prop_map(|(prog, (ext_degree, reduction, alu_optimized, npo), edits)| ManCase {
            prog,
            manifest: ManMeta { ext_degree, reduction, alu_optimized, npo },
            edits,
        })
}

fn fail(mut rep: Report, sig: &str, msg: String) -> Report {
    rep.verdict = Verdict::Fail {
        sig: sig.to_string(),
        msg,
    };
    rep.nontrivial = true;
    rep
}

pub fn oracle(c: &Case) -> Report {
    dispatch_field!(c.prog.field as usize, C => check::<C>(c))
}

fn strategy() -> impl Strategy<Value = Case> {
    let leaf = prop_oneof![
        Just(LeafEdit::Inc),
        Just(LeafEdit::Dec),
        (0u32..9).prop_map(LeafEdit::Set),
        Just(LeafEdit::Double),
        Just(LeafEdit::Half),
        Just(LeafEdit::Toggle),
    ];
    let edit = prop_oneof![
        8 => (any::<u16>(), leaf).prop_map(|(sel, how)| Edit::Leaf { sel, how }),
        1 => (prop_oneof![Just(ListEdit::Drop), Just(ListEdit::Duplicate), Just(ListEdit::Swap)], any::<u16>(), any::<u16>())
            .prop_map(|(how, i, j)| Edit::Tables { how, i, j }),
    ];
    (
        e1::prog_strategy(GenOpts {
            violating: false,
            free_connect: false,
            max_len: 10,
            free_horner_weight: 1,
            fields: vec![0, 1, 3, 4, 6],
            ..GenOpts::default()
        }),
        0u8..4,
        0u8..4,
        0u8..3,
        proptest::option::weighted(0.6, (any::<u16>(), 0u8..3)),
        proptest::collection::vec(edit, 1..3),
    )
        .prop_map(|(prog, public_lanes, alu_lanes, horner_k, invalid, edits)| Case {
            prog,
            public_lanes,
            alu_lanes,
            horner_k,
            invalid,
            edits,
        })
}

pub fn run(ctx: &Ctx) {
    ctx.assume("verify_all_tables takes the preprocessed commitment from the proof; binding a proof to a particular circuit is the caller's comparison of that commitment (not claimed here)");
    ctx.shrink_iters.store(120, std::sync::atomic::Ordering::Relaxed);
    let n = ctx.tier.pick(4000, 200_000);
    ctx.explore("metadata", RULE, n, strategy, oracle);
    ctx.replay_known("metadata", |c: &Case| e1::without_exclusions(|| oracle(c)));
    let n = ctx.tier.pick(1500, 60_000);
    ctx.explore("in-memory-lookups", RULE_MEM, n, mem_strategy, oracle_mem);
    let n = ctx.tier.pick(20_000, 2_000_000);
    ctx.explore("manifest-matches", RULE_MAN, n, man_strategy, oracle_man);
}
