use crate::fw::Ctx;

pub mod c01;
pub mod c02;
pub mod c03;
pub mod c04;
pub mod c05;
pub mod c06;
pub mod c07;
pub mod c08;
pub mod c09;
pub mod c10;
pub mod c11;
pub mod c11_perm;
pub mod c12;
pub mod c13;
pub mod c14;
pub mod c15;
pub mod c16;
pub mod c17;
pub mod c17x;
pub mod c18;
pub mod c19;
pub mod c20;
pub mod pp;

pub struct Check {
    pub id: &'static str,
    pub level: &'static str,
    pub run: fn(&Ctx),
}

pub fn lookup(id: &str) -> Option<Check> {
    let all = [
        Check {
            id: "C01",
            level: "exploration",
            run: c01::run,
        },
        Check {
            id: "C02",
            level: "exploration",
            run: c02::run,
        },
        Check {
            id: "C03",
            level: "exploration",
            run: c03::run,
        },
        Check {
            id: "C04",
            level: "fault_enumeration",
            run: c04::run,
        },
        Check {
            id: "C05",
            level: "exploration",
            run: c05::run,
        },
        Check {
            id: "C06",
            level: "fault_enumeration",
            run: c06::run,
        },
        Check {
            id: "C07",
            level: "exploration",
            run: c07::run,
        },
        Check {
            id: "C08",
            level: "exploration",
            run: c08::run,
        },
        Check {
            id: "C09",
            level: "exploration",
            run: c09::run,
        },
        Check {
            id: "C10",
            level: "exploration",
            run: c10::run,
        },
        Check {
            id: "C11",
            level: "exploration",
            run: c11::run,
        },
        Check {
            id: "C12",
            level: "fault_enumeration",
            run: c12::run,
        },
        Check {
            id: "C13",
            level: "exploration",
            run: c13::run,
        },
        Check {
            id: "C14",
            level: "exploration",
            run: c14::run,
        },
        Check {
            id: "C15",
            level: "fault_enumeration",
            run: c15::run,
        },
        Check {
            id: "C16",
            level: "fault_enumeration",
            run: c16::run,
        },
        Check {
            id: "C17",
            level: "exploration",
            run: c17::run,
        },
        Check {
            id: "C18",
            level: "exploration",
            run: c18::run,
        },
        Check {
            id: "C19",
            level: "exploration",
            run: c19::run,
        },
        Check {
            id: "C20",
            level: "exploration",
            run: c20::run,
        },
    ];
    all.into_iter().find(|c| c.id == id)
}
