//! C19 — the runner fails safely on missing, extra or conflicting inputs, identically in
//! debug and optimized builds.
//!
//! Differential across build profiles: the same generated (program, input plan) case is
//! executed by this binary (release, `debug-assertions = false`) and by the `dbg` profile
//! binary (debug assertions on) running as a child process; verdict classes must agree, and
//! success is only allowed when every declared input was provided consistently — then the
//! traces must equal the reference evaluation.

use std::cell::RefCell;
use std::io::{BufRead, BufReader, Write};
use std::process::{Child, ChildStdin, ChildStdout, Command, Stdio};

use p3_circuit::WitnessId;
use proptest::prelude::*;
use serde::{Deserialize, Serialize};

use crate::dispatch_field;
use crate::e1::{self, Built, GenOpts, Prog, Val};
use crate::fields::Fc;
use crate::fw::{Ctx, Report, hash_of};

#[derive(Clone, Debug, Serialize, Deserialize, Hash, PartialEq, Eq)]
pub enum Provide {
    /// call the setter once with the right values
    Once,
    /// do not call the setter at all
    Skip,
    /// call with `n` values missing at the end
    Short(u8),
    /// call with `n` extra values
    Long(u8),
    /// call twice; the second call changes value number `pos` by `delta` (zero delta = same)
    Twice { pos: u16, delta: Val },
    /// call once, with value number `pos` changed by `delta` != 0: complete and self-consistent,
    /// but possibly in conflict with what the circuit determines for that input
    Changed { pos: u16, delta: Val },
}

#[derive(Clone, Debug, Serialize, Deserialize, Hash)]
pub struct Case {
    pub prog: Prog,
    pub public: Provide,
    pub private: Provide,
}

/// What one profile observed.
#[derive(Clone, Debug, Serialize, Deserialize, PartialEq, Eq)]
pub struct Outcome {
    /// "ok", "err:<variant>" or "panic:<msg>"
    pub class: String,
    /// where the error surfaced: "set_public", "set_private", "run", or ""
    pub stage: String,
    /// hash of the full witness table when the run succeeded
    pub witness: Option<u64>,
    /// did the successful run's values equal the reference evaluation of the program?
    pub matches_reference: Option<bool>,
    /// after a successful run: does every input slot hold the value the caller supplied?
    #[serde(default)]
    pub inputs_kept: Option<bool>,
}

pub const RULE: &str = "random satisfying programs rich in hint / recompose-NPO consumers and connect-shared slots \
(5 fields) x an input plan per input kind (public, private): provide once, skip, too short, too long, set twice with \
equal or conflicting values, provide once with one value changed (conflicting with the circuit where the circuit \
determines it); the case runs in the release-profile binary and in the debug-assertion-profile binary \
(child process). Oracle: verdict class (Ok/Err) equal in both profiles; Ok only if every declared input was provided \
consistently, and then the witness equals the reference evaluation in both and every input slot holds the value \
the caller supplied; no panic or abort in either profile. \
Non-trivial = a plan that withholds, truncates, extends or conflicts an input of a program that declares it; \
distinct on (program hash, plan)";

fn apply<C: Fc>(
    plan: &Provide,
    vals: &[C::EF],
    set: &mut dyn FnMut(&[C::EF]) -> Result<(), p3_circuit::CircuitError>,
) -> Result<(), p3_circuit::CircuitError> {
    match plan {
        Provide::Once => set(vals),
        Provide::Skip => Ok(()),
        Provide::Short(n) => {
            let k = vals.len().saturating_sub(1 + *n as usize % 3);
            set(&vals[..k.min(vals.len())])
        }
        Provide::Long(n) => {
            let mut v = vals.to_vec();
            for _ in 0..(1 + *n as usize % 3) {
                v.push(C::EF::default());
            }
            set(&v)
        }
        Provide::Changed { .. } => set(&supplied::<C>(plan, vals).unwrap()),
        Provide::Twice { pos, delta } => {
            set(vals)?;
            let mut v = vals.to_vec();
            if !v.is_empty() {
                let k = crate::fw::pick(*pos, v.len());
                v[k] += delta.resolve::<C>();
            }
            set(&v)
        }
    }
}

/// The vector the caller ends up supplying, when the plan supplies a complete one.
fn supplied<C: Fc>(plan: &Provide, vals: &[C::EF]) -> Option<Vec<C::EF>> {
    match plan {
        Provide::Once => Some(vals.to_vec()),
        Provide::Twice { delta, .. } if delta.resolve::<C>() == C::EF::default() => Some(vals.to_vec()),
        Provide::Changed { pos, delta } => {
            let mut v = vals.to_vec();
            if !v.is_empty() {
                let k = crate::fw::pick(*pos, v.len());
                let mut d = delta.resolve::<C>();
                if d == C::EF::default() {
                    d = <C::EF as p3_field::PrimeCharacteristicRing>::ONE;
                }
                v[k] += d;
            }
            Some(v)
        }
        _ => None,
    }
}

/// Does the plan provide the inputs consistently (given how many are declared)?
fn consistent<C: Fc>(plan: &Provide, n: usize) -> bool {
    match plan {
        Provide::Once => true,
        Provide::Skip => n == 0,
        Provide::Short(_) => false,
        Provide::Long(_) => false,
        Provide::Twice { delta, .. } => n == 0 || delta.resolve::<C>() == C::EF::default(),
        Provide::Changed { .. } => true,
    }
}

fn observe<C: Fc>(c: &Case) -> (Outcome, usize, usize) {
    // the builder stage is not the runner's: a failure there is reported as such
    let built: Built<C> = match crate::fw::catch(|| {
        e1::interpret_linked::<C>(&c.prog, e1::Excl {
            select_ext: true,
            two_creators: false,
            sat_only: true,
        })
        .0
    }) {
        Ok(b) => b,
        Err(p) => {
            return (
                Outcome {
                    class: format!("build-panic:{}", crate::fw::sig_of_panic(&p)),
                    stage: "build".into(),
                    witness: None,
                    matches_reference: None,
                    inputs_kept: None,
                },
                usize::MAX,
                usize::MAX,
            );
        }
    };
    let Built {
        builder,
        nodes,
        publics,
        privates,
        ..
    } = built;
    let (np, nq) = (publics.len(), privates.len());
    let circuit = match builder.build() {
        Ok(x) => x,
        Err(e) => {
            return (
                Outcome {
                    class: format!("build-err:{e:?}").chars().take(60).collect(),
                    stage: "build".into(),
                    witness: None,
                    matches_reference: None,
                    inputs_kept: None,
                },
                np,
                nq,
            );
        }
    };
    let mut runner = circuit.runner();
    let err = |e: &p3_circuit::CircuitError| crate::checks::c02::err_name(e);
    let mk = |class: String, stage: &str| Outcome {
        class,
        stage: stage.to_string(),
        witness: None,
        matches_reference: None,
                    inputs_kept: None,
    };
    if let Err(e) = apply::<C>(&c.public, &publics, &mut |v| runner.set_public_inputs(v)) {
        return (mk(format!("err:{}", err(&e)), "set_public"), np, nq);
    }
    if let Err(e) = apply::<C>(&c.private, &privates, &mut |v| runner.set_private_inputs(v)) {
        return (mk(format!("err:{}", err(&e)), "set_private"), np, nq);
    }
    match runner.run() {
        Err(e) => (mk(format!("err:{}", err(&e)), "run"), np, nq),
        Ok(traces) => {
            let w: Vec<Vec<u64>> = (0..circuit.witness_count)
                .map(|i| C::coeffs(traces.witness_trace.get_value(WitnessId(i)).unwrap()))
                .collect();
            let ok_ref = nodes.iter().all(|n| {
                n.undefined
                    || circuit
                        .expr_to_widx
                        .get(&n.expr)
                        .and_then(|s| traces.witness_trace.get_value(*s))
                        .is_some_and(|v| *v == n.val)
            });
            let kept = |rows: &[WitnessId], sup: Option<Vec<C::EF>>| -> bool {
                match sup {
                    None => true,
                    Some(v) => rows.iter().zip(&v).all(|(s, x)| traces.witness_trace.get_value(*s) == Some(x)),
                }
            };
            let inputs_kept = kept(&circuit.public_rows, supplied::<C>(&c.public, &publics))
                && kept(&circuit.private_input_rows, supplied::<C>(&c.private, &privates));
            (
                Outcome {
                    class: "ok".into(),
                    stage: String::new(),
                    witness: Some(hash_of(&w)),
                    inputs_kept: Some(inputs_kept),
                    matches_reference: Some(ok_ref),
                },
                np,
                nq,
            )
        }
    }
}

pub fn observe_any(c: &Case) -> (Outcome, usize, usize) {
    match crate::fw::catch(|| dispatch_field!(c.prog.field as usize, C => observe::<C>(c))) {
        Ok(o) => o,
        Err(p) => (
            Outcome {
                class: format!("panic:{}", crate::fw::sig_of_panic(&p)),
                stage: "panic".into(),
                witness: None,
                matches_reference: None,
                    inputs_kept: None,
            },
            usize::MAX,
            usize::MAX,
        ),
    }
}

/// Child mode of the debug-assertion binary: one JSON case per line in, one outcome per line out.
pub fn child_main() -> i32 {
    let stdin = std::io::stdin();
    let mut out = std::io::stdout();
    for line in stdin.lock().lines() {
        let Ok(line) = line else { break };
        let Ok(c) = serde_json::from_str::<Case>(&line) else {
            let _ = writeln!(out, "{{\"class\":\"bad-case\",\"stage\":\"\",\"witness\":null,\"matches_reference\":null}}");
            continue;
        };
        let (o, _, _) = observe_any(&c);
        let _ = writeln!(out, "{}", serde_json::to_string(&o).unwrap());
        let _ = out.flush();
    }
    0
}

struct Peer {
    child: Child,
    stdin: ChildStdin,
    stdout: BufReader<ChildStdout>,
}

thread_local! {
    static PEER: RefCell<Option<Peer>> = const { RefCell::new(None) };
}

pub fn dbg_binary() -> std::path::PathBuf {
    if let Ok(p) = std::env::var("VERIF_DBG_BIN") {
        return p.into();
    }
    let exe = std::env::current_exe().unwrap();
    exe.parent().unwrap().parent().unwrap().join("dbg").join("verif")
}

fn ask_peer(c: &Case) -> Result<Outcome, String> {
    PEER.with(|cell| {
        let mut slot = cell.borrow_mut();
        if slot.is_none() {
            let mut child = Command::new(dbg_binary())
                .arg("__c19-child")
                .stdin(Stdio::piped())
                .stdout(Stdio::piped())
                .stderr(Stdio::null())
                .spawn()
                .map_err(|e| format!("cannot start the debug-profile binary {:?}: {e}", dbg_binary()))?;
            let stdin = child.stdin.take().unwrap();
            let stdout = BufReader::new(child.stdout.take().unwrap());
            *slot = Some(Peer {
                child,
                stdin,
                stdout,
            });
        }
        let peer = slot.as_mut().unwrap();
        let line = serde_json::to_string(c).unwrap();
        if writeln!(peer.stdin, "{line}").and_then(|_| peer.stdin.flush()).is_err() {
            let _ = peer.child.kill();
            *slot = None;
            return Ok(Outcome {
                class: "abort".into(),
                stage: "child-died".into(),
                witness: None,
                matches_reference: None,
                    inputs_kept: None,
            });
        }
        let mut resp = String::new();
        match peer.stdout.read_line(&mut resp) {
            Ok(n) if n > 0 => serde_json::from_str(&resp).map_err(|e| format!("bad child output: {e}")),
            _ => {
                // the debug-profile process died while executing this case
                let _ = peer.child.kill();
                *slot = None;
                Ok(Outcome {
                    class: "abort".into(),
                    stage: "child-died".into(),
                    witness: None,
                    matches_reference: None,
                    inputs_kept: None,
                })
            }
        }
    })
}

pub fn oracle(c: &Case) -> Report {
    let (rel, np, nq) = observe_any(c);
    let dbg = match ask_peer(c) {
        Ok(o) => o,
        Err(e) => {
            // harness problem (binary missing): not a verdict
            return Report::discard(e);
        }
    };
    let consistent_inputs = dispatch_field!(c.prog.field as usize, C => consistent::<C>(&c.public, np) && consistent::<C>(&c.private, nq));
    let withholds = !consistent_inputs;
    let plan = format!("pub:{}|priv:{}", plan_name(&c.public), plan_name(&c.private));
    let mut rep = Report::pass()
        .class(format!("plan:{plan}"))
        .class(format!("release:{}", short(&rel.class)))
        .class(format!("debug:{}", short(&dbg.class)))
        .nontrivial(withholds && (np > 0 || nq > 0))
        .key(hash_of(c));
    let ok = |o: &Outcome| o.class == "ok";
    if rel.stage == "build" || dbg.stage == "build" {
        // e.g. a debug-only assertion in the builder: outside the runner property (counted)
        return Report::discard(format!(
            "builder-stage failure (release: {}, debug: {})",
            short(&rel.class).split(':').next().unwrap_or(""),
            short(&dbg.class).split(':').next().unwrap_or("")
        ));
    }
    for (name, o) in [("release", &rel), ("debug", &dbg)] {
        if o.class.starts_with("panic") || o.class == "abort" {
            return fail(rep, &format!("C19/{}:{name}:{plan}", short(&o.class)), format!("{name} profile: {:?}", o));
        }
    }
    if ok(&rel) != ok(&dbg) {
        return fail(
            rep,
            &format!("C19/profile-divergence:release={}:debug={}:{plan}", short(&rel.class), short(&dbg.class)),
            format!("release {:?} vs debug {:?}", rel, dbg),
        );
    }
    let changed = matches!(c.public, Provide::Changed { .. }) && np > 0 || matches!(c.private, Provide::Changed { .. }) && nq > 0;
    if changed {
        rep.nontrivial = true;
    }
    if ok(&rel) {
        if rel.inputs_kept == Some(false) || dbg.inputs_kept == Some(false) {
            return fail(
                rep,
                &format!("C19/success-with-a-supplied-input-overwritten:{plan}"),
                format!("run() = Ok but an input slot does not hold the value the caller supplied: release {:?} debug {:?}", rel, dbg),
            );
        }
        if changed {
            // complete, self-consistent inputs that may conflict with the circuit: success is
            // legitimate when the changed input is unconstrained; values then differ from the
            // reference of the original inputs (value correctness is C02's subject)
            if rel.witness != dbg.witness {
                return fail(rep, "C19/profile-divergence:witness-values", "both profiles succeed with different witness tables".into());
            }
            return rep.class("outcome:ok-changed-input-kept");
        }
        if withholds {
            // A withheld input whose slot the circuit itself defines (connect to a constant or
            // to a computed value) is fully determined: success is then derived from complete
            // information, and the witness equals the reference evaluation.  Anything else is
            // success from unset or conflicting values.
            if rel.matches_reference == Some(true) && dbg.matches_reference == Some(true) && rel.witness == dbg.witness {
                return rep.class("outcome:ok-withheld-input-determined-by-circuit");
            }
            return fail(
                rep,
                &format!("C19/success-from-unset-or-conflicting-inputs:{plan}"),
                format!("run() = Ok with values that differ from the reference although the plan {plan} does not provide all {np} public / {nq} private inputs consistently: release {:?} debug {:?}", rel, dbg),
            );
        }
        if rel.matches_reference == Some(false) || dbg.matches_reference == Some(false) {
            return fail(rep, "C19/ok-but-wrong-values", format!("release {:?} debug {:?}", rel, dbg));
        }
        if rel.witness != dbg.witness {
            return fail(rep, "C19/profile-divergence:witness-values", "both profiles succeed with different witness tables".into());
        }
        rep = rep.class("outcome:ok-consistent");
    } else {
        if rel.class != dbg.class {
            rep = rep.class(format!("note:error-variant-differs({} vs {})", short(&rel.class), short(&dbg.class)));
        }
        rep = rep.class(if withholds { "outcome:err-as-required" } else { "outcome:err-on-consistent-inputs(program's own)" });
    }
    rep
}

fn short(s: &str) -> String {
    s.chars().take(40).collect()
}

fn plan_name(p: &Provide) -> &'static str {
    match p {
        Provide::Once => "once",
        Provide::Skip => "skip",
        Provide::Short(_) => "short",
        Provide::Long(_) => "long",
        Provide::Twice { delta, .. } if delta.is_zero_sym() => "twice-same",
        Provide::Twice { .. } => "twice-different",
        Provide::Changed { .. } => "changed",
    }
}

fn fail(mut rep: Report, sig: &str, msg: String) -> Report {
    rep.verdict = crate::fw::Verdict::Fail {
        sig: sig.to_string(),
        msg,
    };
    rep.nontrivial = true;
    rep
}

fn provide() -> impl Strategy<Value = Provide> {
    prop_oneof![
        3 => Just(Provide::Once),
        3 => Just(Provide::Skip),
        1 => (0u8..3).prop_map(Provide::Short),
        1 => (0u8..3).prop_map(Provide::Long),
        1 => any::<u16>().prop_map(|pos| Provide::Twice { pos, delta: Val::zero() }),
        2 => (any::<u16>(), e1::nonzero_val_strategy()).prop_map(|(pos, delta)| Provide::Twice { pos, delta }),
        3 => (any::<u16>(), e1::nonzero_val_strategy()).prop_map(|(pos, delta)| Provide::Changed { pos, delta }),
    ]
}

fn strategy() -> impl Strategy<Value = Case> {
    (
        e1::prog_strategy(GenOpts {
            violating: false,
            free_connect: true,
            max_len: 20,
            free_horner_weight: 1,
            ..GenOpts::default()
        }),
        provide(),
        provide(),
    )
        .prop_map(|(prog, public, private)| Case {
            prog,
            public,
            private,
        })
}

pub fn run(ctx: &Ctx) {
    ctx.assume("the debug-assertion profile binary (cargo profile `dbg`) is built by ./check next to the release binary");
    ctx.assume("undefined behaviour is observed through behaviour (verdict / values / abort), not proven absent");
    if !dbg_binary().exists() {
        eprintln!("INCONCLUSIVE: debug-profile binary {:?} is missing (build with --profile dbg)", dbg_binary());
        std::process::exit(2);
    }
    ctx.shrink_iters.store(400, std::sync::atomic::Ordering::Relaxed);
    let n = ctx.tier.pick(150_000, 5_000_000);
    ctx.explore("plans", RULE, n, strategy, oracle);
    ctx.replay_known("plans", oracle);
    // non-primitive private data: attached to the right row, to a row that takes none, twice, ...
    ctx.explore("perm-private-data", crate::checks::pp::RULE_PRIVATE, ctx.tier.pick(20_000, 1_000_000),
        crate::checks::pp::private_data_strategy, |c| crate::checks::pp::oracle_private_data(c, "C19/perm-private-data"));
}
