//! C13 — translated AIR constraints evaluate like the native constraint folder.
//!
//! Sub-checks
//! * `dag`        random symbolic DAGs built directly from the `p3_air` symbolic types, compiled
//!                with the repo's `SymbolicCompiler`, run, and compared node by node with a
//!                reference evaluation of the DAG description (plus a recursive evaluator over
//!                the p3 tree when the number of root-to-leaf paths is affordable);
//! * `deep-chain` the same oracle on programmatically expanded chains of up to 10^4 operations
//!                (the compiler is iterative; the check runs on the 2 MiB worker stacks);
//! * `program-air` a generated-program AIR whose `eval` interprets an instruction list for any
//!                builder, pushed through `RecursiveAir::eval_folded_circuit` and compared with
//!                `p3_lookup::folder::VerifierConstraintFolderWithLookups`;
//! * `repo-airs`  the repo's ALU / Public / Const / Recompose AIRs through the same differential.

use std::collections::BTreeSet;
use std::sync::Arc;

use hashbrown::HashMap;
use p3_air::{
    BaseEntry, BaseLeaf, ExtEntry, ExtLeaf, SymbolicExpr, SymbolicExpression,
    SymbolicExpressionExt, SymbolicVariable, SymbolicVariableExt,
};
use p3_circuit::symbolic::{ColumnsTargets, RowSelectorsTargets, SymbolicCompiler};
use p3_circuit::{CircuitBuilder, ExprId};
use p3_field::{ExtensionField, Field, PrimeCharacteristicRing};
use proptest::prelude::*;
use rand::rngs::SmallRng;
use rand::{RngExt, SeedableRng};
use serde::{Deserialize, Serialize};

use crate::dispatch_field;
use crate::fields::Fc;
use crate::fw::{Ctx, Report, hash_of, pick};

// =================================================================================================
// shared small pieces
// =================================================================================================

/// A symbolic base-field constant (resolved per field).
#[derive(Clone, Debug, Serialize, Deserialize, PartialEq, Eq, Hash)]
pub enum K {
    Z,
    One,
    Two,
    NegOne,
    Small(u8),
    R(u64),
}

impl K {
    pub fn to<F: PrimeCharacteristicRing>(&self) -> F {
        match self {
            K::Z => F::ZERO,
            K::One => F::ONE,
            K::Two => F::TWO,
            K::NegOne => F::NEG_ONE,
            K::Small(k) => F::from_u8(*k),
            K::R(r) => F::from_u64(*r),
        }
    }
}

fn k_strategy() -> impl Strategy<Value = K> {
    prop_oneof![
        1 => Just(K::Z),
        2 => Just(K::One),
        1 => Just(K::Two),
        2 => Just(K::NegOne),
        2 => any::<u8>().prop_map(K::Small),
        6 => any::<u64>().prop_map(K::R),
    ]
}

/// An extension-field constant: up to 5 coefficients (missing = 0, extra ignored).
fn ke_strategy() -> impl Strategy<Value = Vec<K>> {
    prop_oneof![
        1 => k_strategy().prop_map(|k| vec![k]),
        3 => prop::collection::vec(k_strategy(), 2..=5),
    ]
}

fn bucket(n: usize) -> &'static str {
    match n {
        0 => "0",
        1 => "1",
        2..=3 => "2-3",
        4..=6 => "4-6",
        7..=12 => "7-12",
        13..=30 => "13-30",
        31..=100 => "31-100",
        101..=1000 => "101-1000",
        _ => ">1000",
    }
}

/// Random extension element from an rng: mostly uniform, sometimes 0 / 1 / a base element.
fn rand_ef<BF: PrimeCharacteristicRing, EF: p3_field::BasedVectorSpace<BF> + PrimeCharacteristicRing>(
    rng: &mut SmallRng,
) -> EF {
    match rng.random_range(0u32..32) {
        0 => EF::ZERO,
        1 => EF::ONE,
        2 | 3 => {
            let c = BF::from_u64(rng.random());
            EF::from_basis_coefficients_fn(|i| if i == 0 { c.clone() } else { BF::ZERO })
        }
        _ => EF::from_basis_coefficients_fn(|_| BF::from_u64(rng.random())),
    }
}

// =================================================================================================
// structural analysis of p3 symbolic trees (of the *input*, never used as an oracle)
// =================================================================================================

#[derive(Default, Debug)]
pub struct Shape {
    /// distinct nodes (by address)
    pub nodes: usize,
    /// nodes reached through >= 2 edges
    pub shared: usize,
    /// shared nodes that are operations (not leaves)
    pub shared_ops: usize,
    /// extension leaves `Base(e)` whose `e` is an operation (a real base sub-tree)
    pub ext_base_subtrees: usize,
    /// longest root-to-leaf path (a single leaf has depth 1)
    pub depth: usize,
    pub leaf_kinds: BTreeSet<&'static str>,
    pub op_kinds: BTreeSet<&'static str>,
    visits: HashMap<usize, u32>,
    depth_of: HashMap<usize, usize>,
}

fn base_leaf_kind<F>(l: &BaseLeaf<F>) -> &'static str {
    match l {
        BaseLeaf::Variable(v) => match v.entry {
            BaseEntry::Main { offset: 0 } => "main0",
            BaseEntry::Main { .. } => "main1",
            BaseEntry::Preprocessed { offset: 0 } => "prep0",
            BaseEntry::Preprocessed { .. } => "prep1",
            BaseEntry::Public => "public",
            BaseEntry::Periodic => "periodic",
        },
        BaseLeaf::IsFirstRow => "is_first",
        BaseLeaf::IsLastRow => "is_last",
        BaseLeaf::IsTransition => "is_transition",
        BaseLeaf::Constant(_) => "const",
    }
}

fn children<A>(e: &SymbolicExpr<A>) -> (Option<&Arc<SymbolicExpr<A>>>, Option<&Arc<SymbolicExpr<A>>>, &'static str) {
    match e {
        SymbolicExpr::Leaf(_) => (None, None, "leaf"),
        SymbolicExpr::Neg { x, .. } => (Some(x), None, "neg"),
        SymbolicExpr::Add { x, y, .. } => (Some(x), Some(y), "add"),
        SymbolicExpr::Sub { x, y, .. } => (Some(x), Some(y), "sub"),
        SymbolicExpr::Mul { x, y, .. } => (Some(x), Some(y), "mul"),
    }
}

impl Shape {
    /// Iterative post-order walk of a base tree rooted at `root`; returns its depth.
    pub fn walk_base<F>(&mut self, root: &SymbolicExpression<F>) -> usize {
        enum W<'a, F> {
            Enter(&'a SymbolicExpression<F>),
            Exit(&'a SymbolicExpression<F>),
        }
        let mut st = vec![W::Enter(root)];
        while let Some(w) = st.pop() {
            match w {
                W::Enter(n) => {
                    let key = n as *const _ as usize;
                    let c = self.visits.entry(key).or_insert(0);
                    *c += 1;
                    let (x, y, kind) = children(n);
                    if *c == 2 {
                        self.shared += 1;
                        if kind != "leaf" {
                            self.shared_ops += 1;
                        }
                    }
                    if *c > 1 {
                        continue;
                    }
                    self.nodes += 1;
                    if let SymbolicExpr::Leaf(l) = n {
                        self.leaf_kinds.insert(base_leaf_kind(l));
                        self.depth_of.insert(key, 1);
                        continue;
                    }
                    self.op_kinds.insert(match kind {
                        "neg" => "b:neg",
                        "add" => "b:add",
                        "sub" => "b:sub",
                        _ => "b:mul",
                    });
                    st.push(W::Exit(n));
                    if let Some(y) = y {
                        st.push(W::Enter(y));
                    }
                    if let Some(x) = x {
                        st.push(W::Enter(x));
                    }
                }
                W::Exit(n) => {
                    let (x, y, _) = children(n);
                    let d = |a: Option<&Arc<SymbolicExpression<F>>>| {
                        a.map(|a| self.depth_of[&(Arc::as_ptr(a) as usize)]).unwrap_or(0)
                    };
                    let dd = 1 + d(x).max(d(y));
                    self.depth_of.insert(n as *const _ as usize, dd);
                }
            }
        }
        let d = self.depth_of[&(root as *const _ as usize)];
        self.depth = self.depth.max(d);
        d
    }

    pub fn walk_ext<F, EF>(&mut self, root: &SymbolicExpressionExt<F, EF>) -> usize {
        enum W<'a, F, EF> {
            Enter(&'a SymbolicExpressionExt<F, EF>),
            Exit(&'a SymbolicExpressionExt<F, EF>),
        }
        // ext nodes are keyed in a separate address space (an embedded base root can share the
        // address of the ext leaf that holds it)
        const EXT: usize = 1 << 63;
        let mut st = vec![W::Enter(root)];
        while let Some(w) = st.pop() {
            match w {
                W::Enter(n) => {
                    let key = (n as *const _ as usize) | EXT;
                    let c = self.visits.entry(key).or_insert(0);
                    *c += 1;
                    let (x, y, kind) = children(n);
                    if *c == 2 {
                        self.shared += 1;
                        if kind != "leaf" {
                            self.shared_ops += 1;
                        }
                    }
                    if *c > 1 {
                        continue;
                    }
                    self.nodes += 1;
                    if let SymbolicExpr::Leaf(l) = n {
                        let d = match l {
                            ExtLeaf::Base(b) => {
                                self.leaf_kinds.insert("ext:base");
                                if !matches!(b, SymbolicExpr::Leaf(_)) {
                                    self.ext_base_subtrees += 1;
                                }
                                self.walk_base(b)
                            }
                            ExtLeaf::ExtVariable(v) => {
                                self.leaf_kinds.insert(match v.entry {
                                    ExtEntry::Permutation { offset: 0 } => "ext:perm0",
                                    ExtEntry::Permutation { .. } => "ext:perm1",
                                    ExtEntry::Challenge => "ext:challenge",
                                    ExtEntry::PermutationValue => "ext:perm_value",
                                });
                                1
                            }
                            ExtLeaf::ExtConstant(_) => {
                                self.leaf_kinds.insert("ext:const");
                                1
                            }
                        };
                        self.depth_of.insert(key, d);
                        continue;
                    }
                    self.op_kinds.insert(match kind {
                        "neg" => "e:neg",
                        "add" => "e:add",
                        "sub" => "e:sub",
                        _ => "e:mul",
                    });
                    st.push(W::Exit(n));
                    if let Some(y) = y {
                        st.push(W::Enter(y));
                    }
                    if let Some(x) = x {
                        st.push(W::Enter(x));
                    }
                }
                W::Exit(n) => {
                    let (x, y, _) = children(n);
                    let d = |a: Option<&Arc<SymbolicExpressionExt<F, EF>>>| {
                        a.map(|a| self.depth_of[&((Arc::as_ptr(a) as usize) | EXT)]).unwrap_or(0)
                    };
                    let dd = 1 + d(x).max(d(y));
                    self.depth_of.insert((n as *const _ as usize) | EXT, dd);
                }
            }
        }
        let d = self.depth_of[&((root as *const _ as usize) | EXT)];
        self.depth = self.depth.max(d);
        d
    }

    pub fn nontrivial(&self) -> bool {
        self.shared_ops >= 1 && self.ext_base_subtrees >= 1
    }

    pub fn classes(&self, rep: Report) -> Report {
        rep.class(format!("depth:{}", bucket(self.depth)))
            .class(format!("nodes:{}", bucket(self.nodes)))
            .class(format!("shared-nodes:{}", bucket(self.shared)))
            .class(format!("ext-leaves-with-base-subtree:{}", bucket(self.ext_base_subtrees)))
            .classes(self.leaf_kinds.iter().map(|k| format!("leaf:{k}")))
            .classes(self.op_kinds.iter().map(|k| format!("op:{k}")))
    }
}

/// Drop a (possibly very deep) list of Arcs without recursion.
fn drop_iter<A>(roots: Vec<Arc<SymbolicExpr<A>>>) {
    let mut work = roots;
    while let Some(a) = work.pop() {
        if let Ok(node) = Arc::try_unwrap(a) {
            match node {
                SymbolicExpr::Leaf(_) => {}
                SymbolicExpr::Neg { x, .. } => work.push(x),
                SymbolicExpr::Add { x, y, .. }
                | SymbolicExpr::Sub { x, y, .. }
                | SymbolicExpr::Mul { x, y, .. } => {
                    work.push(x);
                    work.push(y);
                }
            }
        }
    }
}

// =================================================================================================
// (a) random symbolic DAGs
// =================================================================================================

/// Reference to an earlier node, interpreted relative to the position `i` of the referring
/// node: `roll < share_pct` selects "any earlier node" (`pick(any, i)`: sharing), otherwise
/// the node `back` positions before (chains, depth).  `copy` wraps a shallow clone of the
/// target in a fresh `Arc` (same children, new address).
#[derive(Clone, Debug, Serialize, Deserialize, Hash)]
pub struct Ref {
    pub roll: u8,
    pub back: u8,
    pub any: u16,
    pub copy: bool,
}

#[derive(Clone, Debug, Serialize, Deserialize, Hash)]
pub enum BLeaf {
    Main { next: bool, i: u16 },
    Prep { next: bool, i: u16 },
    Public(u16),
    Periodic(u16),
    First,
    Last,
    Trans,
    /// constant; in the `ef-ef` mode (base expressions over the extension field, as in the
    /// repo's own compiler tests) all coefficients are used, otherwise only the first
    Const(Vec<K>),
}

#[derive(Clone, Debug, Serialize, Deserialize, Hash)]
pub enum Node<L> {
    Leaf(L),
    Neg(Ref),
    Add(Ref, Ref),
    Sub(Ref, Ref),
    Mul(Ref, Ref),
}

#[derive(Clone, Debug, Serialize, Deserialize, Hash)]
pub enum ELeaf {
    /// embedded base expression (a by-value copy of the root of base node `pick(_, n_base)`)
    Base(u16),
    Perm { next: bool, i: u16 },
    Challenge(u16),
    PermValue(u16),
    Const(Vec<K>),
}

#[derive(Clone, Debug, Serialize, Deserialize, Hash)]
pub enum Root {
    B(u16),
    E(u16),
}

#[derive(Clone, Debug, Serialize, Deserialize, Hash)]
pub struct DagCase {
    pub field: u8,
    /// base expressions over the extension field (`compile_base::<EF, EF>`), else over the
    /// base field (`compile_base::<F, EF>`, what `eval_folded_circuit` does)
    pub ef_ef: bool,
    /// sharing probability, in 1/256
    pub share_pct: u8,
    /// one cache pair for all roots (documented use) or a fresh pair per root
    pub shared_cache: bool,
    /// number of columns per category (1..=4 each)
    pub widths: [u8; 7],
    pub base: Vec<Node<BLeaf>>,
    pub ext: Vec<Node<ELeaf>>,
    pub roots: Vec<Root>,
    pub seed: u64,
}

const W_MAIN: usize = 0;
const W_PREP: usize = 1;
const W_PUB: usize = 2;
const W_PERIODIC: usize = 3;
const W_PERM: usize = 4;
const W_CHAL: usize = 5;
const W_PVAL: usize = 6;

fn ref_strategy() -> impl Strategy<Value = Ref> {
    (any::<u8>(), prop_oneof![4 => Just(0u8), 2 => Just(1u8), 1 => 2u8..6], any::<u16>(), prop::bool::weighted(0.08))
        .prop_map(|(roll, back, any, copy)| Ref { roll, back, any, copy })
}

fn bleaf_strategy() -> impl Strategy<Value = BLeaf> {
    prop_oneof![
        3 => (any::<bool>(), any::<u16>()).prop_map(|(next, i)| BLeaf::Main { next, i }),
        2 => (any::<bool>(), any::<u16>()).prop_map(|(next, i)| BLeaf::Prep { next, i }),
        1 => any::<u16>().prop_map(BLeaf::Public),
        1 => any::<u16>().prop_map(BLeaf::Periodic),
        1 => Just(BLeaf::First),
        1 => Just(BLeaf::Last),
        1 => Just(BLeaf::Trans),
        2 => ke_strategy().prop_map(BLeaf::Const),
    ]
}

fn eleaf_strategy() -> impl Strategy<Value = ELeaf> {
    prop_oneof![
        4 => any::<u16>().prop_map(ELeaf::Base),
        2 => (any::<bool>(), any::<u16>()).prop_map(|(next, i)| ELeaf::Perm { next, i }),
        1 => any::<u16>().prop_map(ELeaf::Challenge),
        1 => any::<u16>().prop_map(ELeaf::PermValue),
        1 => ke_strategy().prop_map(ELeaf::Const),
    ]
}

fn node_strategy<L: core::fmt::Debug + Clone + 'static>(
    leaf: impl Strategy<Value = L> + 'static,
) -> impl Strategy<Value = Node<L>> {
    prop_oneof![
        4 => leaf.prop_map(Node::Leaf),
        1 => ref_strategy().prop_map(Node::Neg),
        2 => (ref_strategy(), ref_strategy()).prop_map(|(a, b)| Node::Add(a, b)),
        2 => (ref_strategy(), ref_strategy()).prop_map(|(a, b)| Node::Sub(a, b)),
        3 => (ref_strategy(), ref_strategy()).prop_map(|(a, b)| Node::Mul(a, b)),
    ]
}

pub fn dag_strategy(max_nodes: usize) -> impl Strategy<Value = DagCase> {
    (
        (0u8..7, any::<bool>(), prop_oneof![Just(0u8), Just(25), Just(80), Just(160), Just(255)], prop::bool::weighted(0.85)),
        prop::array::uniform7(1u8..=4),
        prop::collection::vec(node_strategy(bleaf_strategy()), 1..=max_nodes),
        prop::collection::vec(node_strategy(eleaf_strategy()), 0..=max_nodes),
        prop::collection::vec(
            prop_oneof![(32768u16..=65535).prop_map(Root::B), (32768u16..=65535).prop_map(Root::E)],
            1..=4,
        ),
        any::<u64>(),
    )
        .prop_map(|((field, ef_ef, share_pct, shared_cache), widths, base, ext, roots, seed)| DagCase {
            field,
            ef_ef,
            share_pct,
            shared_cache,
            widths,
            base,
            ext,
            roots,
            seed,
        })
}

/// Resolved reference: (index of the target node, shallow copy?)
fn resolve_ref(r: &Ref, i: usize, share_pct: u8) -> (usize, bool) {
    debug_assert!(i >= 1);
    let t = if r.roll < share_pct {
        pick(r.any, i)
    } else {
        i - 1 - (r.back as usize).min(i - 1)
    };
    (t, r.copy)
}

/// All the values the compiled circuit reads, in public-input order.
pub struct Env<EF> {
    pub sels: [EF; 3],
    pub public: Vec<EF>,
    pub challenges: Vec<EF>,
    pub perm: [Vec<EF>; 2],
    pub perm_values: Vec<EF>,
    pub prep: [Vec<EF>; 2],
    pub periodic: Vec<EF>,
    pub main: [Vec<EF>; 2],
}

impl<EF: Clone> Env<EF> {
    pub fn flat(&self) -> Vec<EF> {
        let mut v: Vec<EF> = self.sels.to_vec();
        for s in [
            &self.public,
            &self.challenges,
            &self.perm[0],
            &self.perm[1],
            &self.perm_values,
            &self.prep[0],
            &self.prep[1],
            &self.periodic,
            &self.main[0],
            &self.main[1],
        ] {
            v.extend(s.iter().cloned());
        }
        v
    }
}

/// Circuit targets mirroring [`Env`], allocated as public inputs in the same order.
pub struct EnvTargets {
    pub sels: [ExprId; 3],
    pub public: Vec<ExprId>,
    pub challenges: Vec<ExprId>,
    pub perm: [Vec<ExprId>; 2],
    pub perm_values: Vec<ExprId>,
    pub prep: [Vec<ExprId>; 2],
    pub periodic: Vec<ExprId>,
    pub main: [Vec<ExprId>; 2],
}

impl EnvTargets {
    pub fn alloc<EF: Field, T>(b: &mut CircuitBuilder<EF>, env: &Env<T>) -> Self {
        let mut n = |k: usize| -> Vec<ExprId> { (0..k).map(|_| b.public_input()).collect() };
        let s = n(3);
        Self {
            sels: [s[0], s[1], s[2]],
            public: n(env.public.len()),
            challenges: n(env.challenges.len()),
            perm: [n(env.perm[0].len()), n(env.perm[1].len())],
            perm_values: n(env.perm_values.len()),
            prep: [n(env.prep[0].len()), n(env.prep[1].len())],
            periodic: n(env.periodic.len()),
            main: [n(env.main[0].len()), n(env.main[1].len())],
        }
    }
    pub fn row_selectors(&self) -> RowSelectorsTargets {
        RowSelectorsTargets {
            is_first_row: self.sels[0],
            is_last_row: self.sels[1],
            is_transition: self.sels[2],
        }
    }
    pub fn columns(&self) -> ColumnsTargets<'_> {
        ColumnsTargets {
            challenges: &self.challenges,
            public_values: &self.public,
            permutation_local_values: &self.perm[0],
            permutation_next_values: &self.perm[1],
            permutation_values: &self.perm_values,
            local_prep_values: &self.prep[0],
            next_prep_values: &self.prep[1],
            periodic_values: &self.periodic,
            local_values: &self.main[0],
            next_values: &self.main[1],
        }
    }
}

/// Recursive reference evaluator over the p3 symbolic tree (no memoisation: exponential in
/// the presence of sharing, so only used when the path count is small).
fn eval_tree_base<CF: Field, EF: ExtensionField<CF>>(e: &SymbolicExpression<CF>, env: &Env<EF>) -> EF {
    match e {
        SymbolicExpr::Leaf(l) => match l {
            BaseLeaf::Constant(c) => EF::from(*c),
            BaseLeaf::IsFirstRow => env.sels[0],
            BaseLeaf::IsLastRow => env.sels[1],
            BaseLeaf::IsTransition => env.sels[2],
            BaseLeaf::Variable(v) => match v.entry {
                BaseEntry::Main { offset } => env.main[offset][v.index],
                BaseEntry::Preprocessed { offset } => env.prep[offset][v.index],
                BaseEntry::Public => env.public[v.index],
                BaseEntry::Periodic => env.periodic[v.index],
            },
        },
        SymbolicExpr::Neg { x, .. } => -eval_tree_base(x, env),
        SymbolicExpr::Add { x, y, .. } => eval_tree_base(x, env) + eval_tree_base(y, env),
        SymbolicExpr::Sub { x, y, .. } => eval_tree_base(x, env) - eval_tree_base(y, env),
        SymbolicExpr::Mul { x, y, .. } => eval_tree_base(x, env) * eval_tree_base(y, env),
    }
}

fn eval_tree_ext<CF: Field, EF: ExtensionField<CF>>(e: &SymbolicExpressionExt<CF, EF>, env: &Env<EF>) -> EF {
    match e {
        SymbolicExpr::Leaf(l) => match l {
            ExtLeaf::Base(b) => eval_tree_base(b, env),
            ExtLeaf::ExtConstant(c) => *c,
            ExtLeaf::ExtVariable(v) => match v.entry {
                ExtEntry::Permutation { offset } => env.perm[offset][v.index],
                ExtEntry::Challenge => env.challenges[v.index],
                ExtEntry::PermutationValue => env.perm_values[v.index],
            },
        },
        SymbolicExpr::Neg { x, .. } => -eval_tree_ext(x, env),
        SymbolicExpr::Add { x, y, .. } => eval_tree_ext(x, env) + eval_tree_ext(y, env),
        SymbolicExpr::Sub { x, y, .. } => eval_tree_ext(x, env) - eval_tree_ext(y, env),
        SymbolicExpr::Mul { x, y, .. } => eval_tree_ext(x, env) * eval_tree_ext(y, env),
    }
}

fn mk_op<A>(kind: u8, x: Arc<SymbolicExpr<A>>, y: Option<Arc<SymbolicExpr<A>>>) -> SymbolicExpr<A> {
    // `degree_multiple` is metadata the compiler must ignore; a deliberately odd value makes
    // sure it does.
    let degree_multiple = 7;
    match kind {
        0 => SymbolicExpr::Neg { x, degree_multiple },
        1 => SymbolicExpr::Add { x, y: y.unwrap(), degree_multiple },
        2 => SymbolicExpr::Sub { x, y: y.unwrap(), degree_multiple },
        _ => SymbolicExpr::Mul { x, y: y.unwrap(), degree_multiple },
    }
}

fn node_parts<L>(n: &Node<L>) -> Option<(u8, &Ref, Option<&Ref>)> {
    match n {
        Node::Leaf(_) => None,
        Node::Neg(a) => Some((0, a, None)),
        Node::Add(a, b) => Some((1, a, Some(b))),
        Node::Sub(a, b) => Some((2, a, Some(b))),
        Node::Mul(a, b) => Some((3, a, Some(b))),
    }
}

const OP_NAME: [&str; 4] = ["neg", "add", "sub", "mul"];

fn apply<EF: Field>(kind: u8, x: EF, y: Option<EF>) -> EF {
    match kind {
        0 => -x,
        1 => x + y.unwrap(),
        2 => x - y.unwrap(),
        _ => x * y.unwrap(),
    }
}

/// The generic core of sub-checks `dag` and `deep-chain`.
///
/// `cf_const` / `ef_const` turn a symbolic constant into a `CF` / `EF` element.
fn run_dag<CF, EF>(
    c: &DagCase,
    field_name: &str,
    cf_const: &dyn Fn(&[K]) -> CF,
    ef_const: &dyn Fn(&[K]) -> EF,
    rand_val: &dyn Fn(&mut SmallRng) -> EF,
) -> Report
where
    CF: Field,
    EF: ExtensionField<CF> + core::hash::Hash + Eq,
{
    let w = |k: usize| (c.widths[k].clamp(1, 4)) as usize;
    let mut rng = SmallRng::seed_from_u64(c.seed);
    let mut vals = |n: usize| -> Vec<EF> { (0..n).map(|_| rand_val(&mut rng)).collect() };
    let sels = vals(3);
    let env = Env {
        sels: [sels[0], sels[1], sels[2]],
        public: vals(w(W_PUB)),
        challenges: vals(w(W_CHAL)),
        perm: [vals(w(W_PERM)), vals(w(W_PERM))],
        perm_values: vals(w(W_PVAL)),
        prep: [vals(w(W_PREP)), vals(w(W_PREP))],
        periodic: vals(w(W_PERIODIC)),
        main: [vals(w(W_MAIN)), vals(w(W_MAIN))],
    };

    // ---- build the p3 trees and, in the same pass, the reference value of every node ----
    // (reference = forward evaluation of the DAG *description*; no pointers involved)
    let nb = c.base.len();
    let mut b_arcs: Vec<Arc<SymbolicExpression<CF>>> = Vec::with_capacity(nb);
    let mut b_vals: Vec<EF> = Vec::with_capacity(nb);
    let mut b_paths: Vec<u64> = Vec::with_capacity(nb);
    let mut b_kind: Vec<&'static str> = Vec::with_capacity(nb);
    // every Arc ever created with (address, is_ext, node index)
    let mut instances: Vec<(usize, bool, usize)> = vec![];
    let mut extra_b: Vec<Arc<SymbolicExpression<CF>>> = vec![];
    for (i, n) in c.base.iter().enumerate() {
        let parts = if i == 0 { None } else { node_parts(n) };
        let (expr, val, paths, kind) = match parts {
            None => {
                let default_leaf = BLeaf::Main { next: false, i: 0 };
                let leaf = if let Node::Leaf(l) = n { l } else { &default_leaf };
                let var = |e: BaseEntry, i: usize| SymbolicExpr::Leaf(BaseLeaf::Variable(SymbolicVariable::new(e, i)));
                let (e, v): (SymbolicExpression<CF>, EF) = match leaf {
                    BLeaf::Main { next, i } => {
                        let k = pick(*i, w(W_MAIN));
                        (var(BaseEntry::Main { offset: *next as usize }, k), env.main[*next as usize][k])
                    }
                    BLeaf::Prep { next, i } => {
                        let k = pick(*i, w(W_PREP));
                        (var(BaseEntry::Preprocessed { offset: *next as usize }, k), env.prep[*next as usize][k])
                    }
                    BLeaf::Public(i) => {
                        let k = pick(*i, w(W_PUB));
                        (var(BaseEntry::Public, k), env.public[k])
                    }
                    BLeaf::Periodic(i) => {
                        let k = pick(*i, w(W_PERIODIC));
                        (var(BaseEntry::Periodic, k), env.periodic[k])
                    }
                    BLeaf::First => (SymbolicExpr::Leaf(BaseLeaf::IsFirstRow), env.sels[0]),
                    BLeaf::Last => (SymbolicExpr::Leaf(BaseLeaf::IsLastRow), env.sels[1]),
                    BLeaf::Trans => (SymbolicExpr::Leaf(BaseLeaf::IsTransition), env.sels[2]),
                    BLeaf::Const(k) => {
                        let cst = cf_const(k);
                        (SymbolicExpr::Leaf(BaseLeaf::Constant(cst)), EF::from(cst))
                    }
                };
                (e, v, 1u64, "leaf")
            }
            Some((kind, rx, ry)) => {
                let mut get = |r: &Ref| {
                    let (t, copy) = resolve_ref(r, i, c.share_pct);
                    let a = if copy {
                        let a = Arc::new((*b_arcs[t]).clone());
                        instances.push((Arc::as_ptr(&a) as usize, false, t));
                        extra_b.push(a.clone());
                        a
                    } else {
                        b_arcs[t].clone()
                    };
                    (a, b_vals[t], b_paths[t])
                };
                let (xa, xv, xp) = get(rx);
                let y = ry.map(&mut get);
                let paths = xp.saturating_add(y.as_ref().map(|y| y.2).unwrap_or(0));
                let val = apply(kind, xv, y.as_ref().map(|y| y.1));
                (mk_op(kind, xa, y.map(|y| y.0)), val, paths, OP_NAME[kind as usize])
            }
        };
        let a = Arc::new(expr);
        instances.push((Arc::as_ptr(&a) as usize, false, i));
        b_arcs.push(a);
        b_vals.push(val);
        b_paths.push(paths);
        b_kind.push(kind);
    }

    let ne = c.ext.len();
    let mut e_arcs: Vec<Arc<SymbolicExpressionExt<CF, EF>>> = Vec::with_capacity(ne);
    let mut e_vals: Vec<EF> = Vec::with_capacity(ne);
    let mut e_paths: Vec<u64> = Vec::with_capacity(ne);
    let mut e_kind: Vec<&'static str> = Vec::with_capacity(ne);
    let mut extra_e: Vec<Arc<SymbolicExpressionExt<CF, EF>>> = vec![];
    for (i, n) in c.ext.iter().enumerate() {
        let parts = if i == 0 { None } else { node_parts(n) };
        let (expr, val, paths, kind) = match parts {
            None => {
                let default_leaf = ELeaf::Base(0);
                let leaf = if let Node::Leaf(l) = n { l } else { &default_leaf };
                let var = |e: ExtEntry, i: usize| SymbolicExpr::Leaf(ExtLeaf::ExtVariable(SymbolicVariableExt::new(e, i)));
                let (e, v, p): (SymbolicExpressionExt<CF, EF>, EF, u64) = match leaf {
                    ELeaf::Base(k) => {
                        let t = pick(*k, nb);
                        // by-value copy of the root of base node t; its children stay shared
                        (SymbolicExpr::Leaf(ExtLeaf::Base((*b_arcs[t]).clone())), b_vals[t], b_paths[t])
                    }
                    ELeaf::Perm { next, i } => {
                        let k = pick(*i, w(W_PERM));
                        (var(ExtEntry::Permutation { offset: *next as usize }, k), env.perm[*next as usize][k], 1)
                    }
                    ELeaf::Challenge(i) => {
                        let k = pick(*i, w(W_CHAL));
                        (var(ExtEntry::Challenge, k), env.challenges[k], 1)
                    }
                    ELeaf::PermValue(i) => {
                        let k = pick(*i, w(W_PVAL));
                        (var(ExtEntry::PermutationValue, k), env.perm_values[k], 1)
                    }
                    ELeaf::Const(k) => {
                        let cst = ef_const(k);
                        (SymbolicExpr::Leaf(ExtLeaf::ExtConstant(cst)), cst, 1)
                    }
                };
                (e, v, p, "leaf")
            }
            Some((kind, rx, ry)) => {
                let mut get = |r: &Ref| {
                    let (t, copy) = resolve_ref(r, i, c.share_pct);
                    let a = if copy {
                        let a = Arc::new((*e_arcs[t]).clone());
                        instances.push((Arc::as_ptr(&a) as usize, true, t));
                        extra_e.push(a.clone());
                        a
                    } else {
                        e_arcs[t].clone()
                    };
                    (a, e_vals[t], e_paths[t])
                };
                let (xa, xv, xp) = get(rx);
                let y = ry.map(&mut get);
                let paths = xp.saturating_add(y.as_ref().map(|y| y.2).unwrap_or(0));
                let val = apply(kind, xv, y.as_ref().map(|y| y.1));
                (mk_op(kind, xa, y.map(|y| y.0)), val, paths, OP_NAME[kind as usize])
            }
        };
        let a = Arc::new(expr);
        instances.push((Arc::as_ptr(&a) as usize, true, i));
        e_arcs.push(a);
        e_vals.push(val);
        e_paths.push(paths);
        e_kind.push(kind);
    }

    // roots (an E root with no ext nodes falls back to a base root)
    enum R {
        B(usize),
        E(usize),
    }
    let roots: Vec<R> = c
        .roots
        .iter()
        .map(|r| match r {
            Root::E(k) if ne > 0 => R::E(pick(*k, ne)),
            Root::B(k) | Root::E(k) => R::B(pick(*k, nb)),
        })
        .collect();

    // ---- structural classes -----------------------------------------------------------------
    let mut shape = Shape::default();
    let mut has_base_root = false;
    let mut has_ext_root = false;
    for r in &roots {
        match r {
            R::B(t) => {
                has_base_root = true;
                shape.walk_base(&b_arcs[*t]);
            }
            R::E(t) => {
                has_ext_root = true;
                shape.walk_ext(&e_arcs[*t]);
            }
        }
    }
    let mut rep = shape
        .classes(Report::pass())
        .nontrivial(shape.nontrivial())
        .class(format!("field:{field_name}"))
        .class(if c.ef_ef { "mode:base-exprs-over-EF" } else { "mode:base-exprs-over-F" })
        .class(format!("share-probability:{}/256", c.share_pct))
        .class(match (has_base_root, has_ext_root) {
            (true, true) => "roots:base+ext",
            (true, false) => "roots:base-only",
            _ => "roots:ext-only",
        })
        .class(if c.shared_cache { "cache:shared-across-roots" } else { "cache:fresh-per-root" });
    let fail = |rep: Report, sig: String, msg: String| {
        let mut rep = rep;
        rep.verdict = crate::fw::Verdict::Fail { sig, msg };
        rep.nontrivial = true;
        rep
    };

    // ---- compile with the repo's compiler ---------------------------------------------------
    let mut builder = CircuitBuilder::<EF>::new();
    let tg = EnvTargets::alloc(&mut builder, &env);
    let cols = tg.columns();
    let compiler = SymbolicCompiler::new(tg.row_selectors(), &cols);
    let mut base_cache: HashMap<*const SymbolicExpression<CF>, ExprId> = HashMap::new();
    let mut ext_cache: HashMap<*const SymbolicExpressionExt<CF, EF>, ExprId> = HashMap::new();
    let mut all_base_cache: Vec<(usize, ExprId)> = vec![];
    let mut all_ext_cache: Vec<(usize, ExprId)> = vec![];
    let mut root_targets = vec![];
    for r in &roots {
        let t = match r {
            R::B(t) => compiler.compile_base::<CF, EF>(&b_arcs[*t], &mut builder, &mut base_cache),
            R::E(t) => compiler.compile_ext::<CF, EF>(&e_arcs[*t], &mut builder, &mut base_cache, &mut ext_cache),
        };
        root_targets.push(t);
        if !c.shared_cache {
            all_base_cache.extend(base_cache.drain().map(|(k, v)| (k as usize, v)));
            all_ext_cache.extend(ext_cache.drain().map(|(k, v)| (k as usize, v)));
        }
    }
    all_base_cache.extend(base_cache.drain().map(|(k, v)| (k as usize, v)));
    all_ext_cache.extend(ext_cache.drain().map(|(k, v)| (k as usize, v)));
    drop(cols);

    let circuit = match builder.build() {
        Ok(x) => x,
        Err(e) => return fail(rep, "C13/dag:build-error".into(), format!("{e:?}")),
    };
    let mut runner = circuit.runner();
    if let Err(e) = runner.set_public_inputs(&env.flat()) {
        return fail(rep, "C13/dag:set-public-inputs".into(), format!("{e:?}"));
    }
    let traces = match runner.run() {
        Ok(t) => t,
        Err(e) => {
            return fail(
                rep,
                format!("C13/dag:run-failed:{}", crate::checks::c02::err_name(&e)),
                format!("{e:?}"),
            );
        }
    };
    let value_of = |t: ExprId| -> Option<EF> {
        circuit
            .expr_to_widx
            .get(&t)
            .and_then(|w| traces.witness_trace.get_value(*w))
            .copied()
    };

    // ---- oracle 1: every root --------------------------------------------------------------
    let mut mismatch: Option<(String, String)> = None;
    for (k, r) in roots.iter().enumerate() {
        let (want, what) = match r {
            R::B(t) => (b_vals[*t], format!("base node {t} ({})", b_kind[*t])),
            R::E(t) => (e_vals[*t], format!("ext node {t} ({})", e_kind[*t])),
        };
        match value_of(root_targets[k]) {
            None => {
                return fail(
                    rep,
                    "C13/dag:root-has-no-witness".into(),
                    format!("root {k} = {what}: compiled target {:?} has no witness slot", root_targets[k]),
                );
            }
            Some(got) if got != want => {
                mismatch.get_or_insert((
                    String::new(),
                    format!("root {k} = {what}: compiled value {got:?} != reference {want:?}"),
                ));
            }
            _ => {}
        }
    }

    // ---- oracle 2: every node the compiler cached (narrow signature + catches cache mix-ups
    //      that cancel at the root).  The first mismatching node in topological order names
    //      the failure class.
    let by_addr: HashMap<(usize, bool), usize> = instances.iter().map(|&(a, e, i)| ((a, e), i)).collect();
    let mut first_bad: Option<(bool, usize, EF, EF)> = None;
    let mut consider = |is_ext: bool, idx: usize, got: EF, want: EF| {
        if got != want {
            let better = match &first_bad {
                None => true,
                Some((e, i, _, _)) => (is_ext, idx) < (*e, *i),
            };
            if better {
                first_bad = Some((is_ext, idx, got, want));
            }
        }
    };
    let mut cached_checked = 0usize;
    for (addr, t) in &all_base_cache {
        if let (Some(&i), Some(got)) = (by_addr.get(&(*addr, false)), value_of(*t)) {
            cached_checked += 1;
            consider(false, i, got, b_vals[i]);
        }
    }
    for (addr, t) in &all_ext_cache {
        if let (Some(&i), Some(got)) = (by_addr.get(&(*addr, true)), value_of(*t)) {
            cached_checked += 1;
            consider(true, i, got, e_vals[i]);
        }
    }
    if let Some((is_ext, i, got, want)) = first_bad {
        let kind = if is_ext { e_kind[i] } else { b_kind[i] };
        let leaf = if kind == "leaf" {
            if is_ext {
                match &c.ext[i] {
                    Node::Leaf(l) => format!(":{}", format!("{l:?}").split(|ch: char| !ch.is_alphanumeric()).next().unwrap_or("")),
                    _ => ":Base".into(),
                }
            } else {
                match &c.base[i] {
                    Node::Leaf(l) => format!(":{}", format!("{l:?}").split(|ch: char| !ch.is_alphanumeric()).next().unwrap_or("")),
                    _ => ":Main".into(),
                }
            }
        } else {
            String::new()
        };
        let sig = format!("C13/dag:value-mismatch:{}:{kind}{leaf}", if is_ext { "ext" } else { "base" });
        let msg = format!(
            "first (topologically) mismatching cached node: {} node {i} ({kind}): compiled {got:?} != reference {want:?}{}",
            if is_ext { "ext" } else { "base" },
            mismatch.as_ref().map(|m| format!(" | {}", m.1)).unwrap_or_default()
        );
        return fail(rep, sig, msg);
    }
    if let Some((_, msg)) = mismatch {
        return fail(rep, "C13/dag:value-mismatch:root-only".into(), msg);
    }
    if cached_checked == 0 {
        return fail(rep, "C13/dag:harness:no-cached-node-checked".into(), "no cache entry could be mapped back".into());
    }

    // ---- oracle 3 (cross-check of the reference itself): recursive evaluator over the p3
    //      tree, when the number of paths and the depth make plain recursion affordable
    let mut tree_checked = false;
    for r in &roots {
        let (paths, want) = match r {
            R::B(t) => (b_paths[*t], b_vals[*t]),
            R::E(t) => (e_paths[*t], e_vals[*t]),
        };
        if paths <= 50_000 && shape.depth <= 400 {
            tree_checked = true;
            let got = match r {
                R::B(t) => eval_tree_base(&b_arcs[*t], &env),
                R::E(t) => eval_tree_ext(&e_arcs[*t], &env),
            };
            if got != want {
                return fail(
                    rep,
                    "C13/dag:harness:reference-evaluators-disagree".into(),
                    format!("recursive tree evaluation {got:?} != forward DAG evaluation {want:?}"),
                );
            }
        }
    }
    rep = rep.class(if tree_checked {
        "reference:forward-dag+recursive-tree"
    } else {
        "reference:forward-dag-only(too many paths for plain recursion)"
    });

    // iterative teardown (a 10^4-deep chain must not be dropped recursively)
    drop(instances);
    drop_iter(extra_e);
    drop_iter(e_arcs);
    drop_iter(extra_b);
    drop_iter(b_arcs);
    rep.key(hash_of(&(&c.base, &c.ext, &c.roots, c.share_pct, c.ef_ef)))
}

pub fn dag_oracle_named<C: Fc>(c: &DagCase) -> Report {
    let rand_val = |rng: &mut SmallRng| rand_ef::<C::BF, C::EF>(rng);
    let ef_const = |k: &[K]| -> C::EF {
        <C::EF as p3_field::BasedVectorSpace<C::BF>>::from_basis_coefficients_fn(|i| {
            k.get(i).map(|k| k.to::<C::BF>()).unwrap_or(C::BF::ZERO)
        })
    };
    if c.ef_ef {
        run_dag::<C::EF, C::EF>(c, C::NAME, &ef_const, &ef_const, &rand_val)
    } else {
        let cf_const = |k: &[K]| -> C::BF { k.first().map(|k| k.to::<C::BF>()).unwrap_or(C::BF::ZERO) };
        run_dag::<C::BF, C::EF>(c, C::NAME, &cf_const, &ef_const, &rand_val)
    }
}

pub fn dag_oracle(c: &DagCase) -> Report {
    dispatch_field!(c.field as usize, C => dag_oracle_named::<C>(c))
}

pub const DAG_RULE: &str = "random symbolic DAGs over the p3_air symbolic types (all base leaf kinds, all extension leaf \
kinds incl. embedded base sub-trees, neg/add/sub/mul, Arc sharing with probability 0..1, shallow re-allocated copies, 1-4 \
base/ext roots compiled with shared or fresh caches, base expressions over F or over EF, 7 field configurations) x random \
assignment; oracle: forward evaluation of the DAG description for every node the compiler cached and every root, \
cross-checked by a recursive evaluator over the p3 tree; non-trivial = an operation node reached by >= 2 paths AND an \
extension leaf embedding a base operation sub-tree; distinct on DAG structure hash";

// ---- deep chains --------------------------------------------------------------------------------

#[derive(Clone, Debug, Serialize, Deserialize, Hash)]
pub struct ChainCase {
    pub field: u8,
    pub ef_ef: bool,
    /// number of chained operations (1..=10_000)
    pub n: u16,
    /// put the upper half of the chain in the extension tree
    pub ext: bool,
    /// probability (1/256) that the second operand is an arbitrary earlier node
    pub share_pct: u8,
    pub seed: u64,
}

pub fn expand_chain(c: &ChainCase) -> DagCase {
    let n = (c.n as usize).clamp(1, 10_000);
    let mut rng = SmallRng::seed_from_u64(c.seed ^ 0x9e37_79b9);
    let nb = if c.ext { n / 2 + 1 } else { n };
    let ne = n - nb;
    fn op<L>(rng: &mut SmallRng, a: Ref, b: Ref) -> Node<L> {
        match rng.random_range(0u32..8) {
            0 => Node::Neg(a),
            1 | 2 => Node::Add(a, b),
            3 | 4 => Node::Sub(a, b),
            _ => Node::Mul(a, b),
        }
    }
    let mut base = vec![Node::Leaf(BLeaf::Main { next: false, i: 0 })];
    for _ in 0..nb {
        let leaf = match rng.random_range(0u32..8) {
            0 => BLeaf::Main { next: true, i: rng.random() },
            1 => BLeaf::Prep { next: rng.random(), i: rng.random() },
            2 => BLeaf::Public(rng.random()),
            3 => BLeaf::Periodic(rng.random()),
            4 => BLeaf::Const(vec![K::R(rng.random()), K::R(rng.random())]),
            5 => BLeaf::Trans,
            _ => BLeaf::Main { next: false, i: rng.random() },
        };
        base.push(Node::Leaf(leaf));
        // previous op (or the initial leaf) is 2 back (1 back for the very first op)
        let a = Ref { roll: 255, back: 1, any: 0, copy: false };
        let b = Ref { roll: rng.random(), back: 0, any: rng.random(), copy: false };
        base.push(op(&mut rng, a, b));
    }
    let mut ext = vec![];
    if ne > 0 {
        ext.push(Node::Leaf(ELeaf::Base(u16::MAX))); // embeds the whole base chain
        for _ in 0..ne {
            let leaf = match rng.random_range(0u32..6) {
                0 => ELeaf::Perm { next: rng.random(), i: rng.random() },
                1 => ELeaf::Challenge(rng.random()),
                2 => ELeaf::PermValue(rng.random()),
                3 => ELeaf::Const(vec![K::R(rng.random()), K::R(rng.random()), K::R(rng.random())]),
                _ => ELeaf::Base(rng.random()),
            };
            ext.push(Node::Leaf(leaf));
            let a = Ref { roll: 255, back: 1, any: 0, copy: false };
            let b = Ref { roll: rng.random(), back: 0, any: rng.random(), copy: false };
            ext.push(op(&mut rng, a, b));
        }
    }
    DagCase {
        field: c.field,
        ef_ef: c.ef_ef,
        share_pct: c.share_pct,
        shared_cache: true,
        widths: [3, 2, 2, 2, 2, 2, 1],
        base,
        ext,
        roots: vec![if ne > 0 { Root::E(u16::MAX) } else { Root::B(u16::MAX) }],
        seed: c.seed,
    }
}

pub fn chain_oracle(c: &ChainCase) -> Report {
    let d = expand_chain(c);
    let n = (c.n as usize).clamp(1, 10_000);
    dag_oracle(&d)
        .class(format!(
            "chain-ops:{}",
            match n {
                0..=99 => "<100",
                100..=999 => "100-999",
                1000..=4999 => "1000-4999",
                _ => "5000-10000",
            }
        ))
        .class(if c.ext { "chain:base+ext" } else { "chain:base" })
        .key(hash_of(c))
}

pub fn chain_strategy() -> impl Strategy<Value = ChainCase> {
    (
        0u8..7,
        any::<bool>(),
        prop_oneof![1 => 1u16..100, 2 => 100u16..1000, 3 => 1000u16..5000, 3 => 5000u16..=10_000],
        any::<bool>(),
        prop_oneof![Just(0u8), Just(20), Just(128)],
        any::<u64>(),
    )
        .prop_map(|(field, ef_ef, n, ext, share_pct, seed)| ChainCase { field, ef_ef, n, ext, share_pct, seed })
}

pub const CHAIN_RULE: &str = "seed-expanded chains of 1..10^4 neg/add/sub/mul operations (depth = number of operations), \
optionally continued in the extension tree on top of the embedded base chain, second operands = fresh leaves or (with \
probability) arbitrary earlier chain nodes; same oracle as `dag`, run on the 2 MiB worker stacks; non-trivial as in `dag`";


// =================================================================================================
// (b) AIRs through `eval_folded_circuit` vs the native verifier folder
// =================================================================================================

use p3_air::{
    Air, AirBuilder, AirLayout, BaseAir, ExtensionBuilder, PermutationAirBuilder, RowWindow, WindowAccess,
};
use p3_field::{Algebra, BasedVectorSpace, PrimeField64};
use p3_lookup::folder::VerifierConstraintFolderWithLookups;
use p3_lookup::logup::LogUpGadget;
use p3_lookup::{Count, InteractionBuilder, InteractionSymbolicBuilder, Lookup, LookupProtocol, Lookups};
use p3_matrix::dense::RowMajorMatrixView;
use p3_matrix::stack::VerticalPair;
use p3_recursion::traits::{LookupMetadata, RecursiveAir};
use p3_recursion::types::RecursiveLagrangeSelectors;
use p3_uni_stark::{StarkGenericConfig, Val, VerifierConstraintFolder};

// ---- a third, recording builder (mine): keeps every asserted value with its kind ----------------

pub struct RecBuilder<'a, F, EF> {
    main: RowWindow<'a, EF>,
    prep: RowWindow<'a, EF>,
    public: &'a [F],
    periodic: &'a [EF],
    sels: [EF; 3],
    perm: RowWindow<'a, EF>,
    challenges: &'a [EF],
    perm_values: &'a [EF],
    /// (is_extension_constraint, value) in emission order
    pub log: Vec<(bool, EF)>,
}

impl<'a, F: Field, EF: ExtensionField<F>> AirBuilder for RecBuilder<'a, F, EF> {
    type F = F;
    type Expr = EF;
    type Var = EF;
    type PreprocessedWindow = RowWindow<'a, EF>;
    type MainWindow = RowWindow<'a, EF>;
    type PublicVar = F;
    type PeriodicVar = EF;
    fn main(&self) -> Self::MainWindow {
        self.main
    }
    fn preprocessed(&self) -> &Self::PreprocessedWindow {
        &self.prep
    }
    fn is_first_row(&self) -> EF {
        self.sels[0]
    }
    fn is_last_row(&self) -> EF {
        self.sels[1]
    }
    fn is_transition(&self) -> EF {
        self.sels[2]
    }
    fn assert_zero<I: Into<EF>>(&mut self, x: I) {
        self.log.push((false, x.into()));
    }
    fn public_values(&self) -> &[F] {
        self.public
    }
    fn periodic_values(&self) -> &[EF] {
        self.periodic
    }
}

impl<F: Field, EF: ExtensionField<F>> ExtensionBuilder for RecBuilder<'_, F, EF> {
    type EF = EF;
    type ExprEF = EF;
    type VarEF = EF;
    fn assert_zero_ext<I: Into<EF>>(&mut self, x: I) {
        self.log.push((true, x.into()));
    }
}

impl<'a, F: Field, EF: ExtensionField<F>> PermutationAirBuilder for RecBuilder<'a, F, EF> {
    type MP = RowWindow<'a, EF>;
    type RandomVar = EF;
    type PermutationVar = EF;
    fn permutation(&self) -> Self::MP {
        self.perm
    }
    fn permutation_randomness(&self) -> &[EF] {
        self.challenges
    }
    fn permutation_values(&self) -> &[EF] {
        self.perm_values
    }
}

impl<F: Field, EF: ExtensionField<F>> InteractionBuilder for RecBuilder<'_, F, EF> {
    fn push_interaction<E: Into<EF>>(
        &mut self,
        _bus_name: &str,
        fields: impl IntoIterator<Item = E>,
        _count: impl Into<Count<EF>>,
    ) {
        fields.into_iter().for_each(drop);
    }
    fn push_local_interaction(&mut self, tuples: impl IntoIterator<Item = (Vec<EF>, Count<EF>)>) {
        tuples.into_iter().for_each(drop);
    }
}

// ---- the generated-program AIR -------------------------------------------------------------------

#[derive(Clone, Debug, Serialize, Deserialize, Hash)]
pub enum When {
    Always,
    First,
    Last,
    Transition,
    TransitionWindow,
    Cond(u16),
    Ne(u16, u16),
    FirstAnd(u16),
    TransitionAnd(u16),
}

#[derive(Clone, Debug, Serialize, Deserialize, Hash)]
pub enum AK {
    Zero,
    Eq,
    Bool,
    One,
    Zeros2,
    Bools2,
    EqArr2,
}

#[derive(Clone, Debug, Serialize, Deserialize, Hash)]
pub enum EK {
    Zero,
    Eq,
    One,
    Zeros2,
}

/// One instruction.  `u16` operands index the base register file `bs` / the extension
/// register file `es` through `pick` (so every program is well formed).
#[derive(Clone, Debug, Serialize, Deserialize, Hash)]
pub enum PI {
    Main { next: bool, i: u16 },
    Prep { next: bool, i: u16 },
    Public(u16),
    Periodic(u16),
    First,
    Last,
    Trans,
    Const(K),
    Neg(u16),
    Add(u16, u16),
    Sub(u16, u16),
    Mul(u16, u16),
    /// `main_var (op) expr` through the `Var: Add/Sub/Mul<Expr>` impls
    VarOp { op: u8, next: bool, i: u16, x: u16 },
    EBase(u16),
    EPerm { next: bool, i: u16 },
    EChal(u16),
    EPVal(u16),
    EConst(Vec<K>),
    ENeg(u16),
    EAdd(u16, u16),
    ESub(u16, u16),
    EMul(u16, u16),
    /// `ExprEF * Expr`
    EMulB(u16, u16),
    Assert { k: AK, x: u16, y: u16, when: When },
    AssertE { k: EK, x: u16, y: u16, when: When },
    /// a gadget written over `ExprEF` but applied to base expressions only:
    /// `assert_zero_ext(ExprEF::from(a) (op) ExprEF::from(b) - ExprEF::from(c))`
    LiftedGadget { op: u8, a: u16, b: u16, c: u16, when: When },
    Interact { bus: u8, fields: Vec<u16>, count: u16, weight: u8 },
    Local { width: u8, tuples: Vec<(Vec<u16>, u16, u8)> },
}

#[derive(Clone, Debug)]
pub struct ProgramAir<F> {
    pub width: usize,
    pub n_prep: usize,
    pub n_pub: usize,
    pub periodic: Vec<Vec<F>>,
    pub instrs: Vec<PI>,
}

impl<F: Field> BaseAir<F> for ProgramAir<F> {
    fn width(&self) -> usize {
        self.width
    }
    fn preprocessed_width(&self) -> usize {
        self.n_prep
    }
    fn num_periodic_columns(&self) -> usize {
        self.periodic.len()
    }
    fn periodic_columns(&self) -> Vec<Vec<F>> {
        self.periodic.clone()
    }
    fn num_public_values(&self) -> usize {
        self.n_pub
    }
}

const BUS: [&str; 3] = ["bus-a", "bus-b", "bus-c"];

fn do_assert<B: AirBuilder>(b: &mut B, k: &AK, x: B::Expr, y: B::Expr) {
    match k {
        AK::Zero => b.assert_zero(x),
        AK::Eq => b.assert_eq(x, y),
        AK::Bool => b.assert_bool(x),
        AK::One => b.assert_one(x),
        AK::Zeros2 => b.assert_zeros([x, y]),
        AK::Bools2 => b.assert_bools([x, y]),
        AK::EqArr2 => b.assert_eq_arrays([x.clone(), y.clone()], [y, x]),
    }
}

fn do_assert_ext<B: ExtensionBuilder>(b: &mut B, k: &EK, x: B::ExprEF, y: B::ExprEF) {
    match k {
        EK::Zero => b.assert_zero_ext(x),
        EK::Eq => b.assert_eq_ext(x, y),
        EK::One => b.assert_one_ext(x),
        EK::Zeros2 => b.assert_zeros_ext([x, y]),
    }
}

macro_rules! with_when {
    ($b:expr, $when:expr, $getb:expr, |$fb:ident| $body:expr) => {{
        match $when {
            When::Always => {
                let $fb = &mut *$b;
                $body
            }
            When::First => {
                let $fb = &mut $b.when_first_row();
                $body
            }
            When::Last => {
                let $fb = &mut $b.when_last_row();
                $body
            }
            When::Transition => {
                let $fb = &mut $b.when_transition();
                $body
            }
            When::TransitionWindow => {
                let $fb = &mut $b.when_transition_window(2);
                $body
            }
            When::Cond(c) => {
                let cnd = $getb(*c);
                let $fb = &mut $b.when(cnd);
                $body
            }
            When::Ne(p, q) => {
                let (p, q) = ($getb(*p), $getb(*q));
                let $fb = &mut $b.when_ne(p, q);
                $body
            }
            When::FirstAnd(c) => {
                let cnd = $getb(*c);
                let mut outer = $b.when_first_row();
                let $fb = &mut outer.when(cnd);
                $body
            }
            When::TransitionAnd(c) => {
                let cnd = $getb(*c);
                let mut outer = $b.when_transition();
                let $fb = &mut outer.when(cnd);
                $body
            }
        }
    }};
}

impl<AB> Air<AB> for ProgramAir<AB::F>
where
    AB: PermutationAirBuilder + InteractionBuilder,
{
    fn eval(&self, b: &mut AB) {
        let main = b.main();
        let m: [Vec<AB::Var>; 2] = [main.current_slice().to_vec(), main.next_slice().to_vec()];
        // (the symbolic builder's zero-width windows have no rows: only touch a window that exists)
        let p: [Vec<AB::Var>; 2] = if self.n_prep > 0 {
            let prep = b.preprocessed().clone();
            [prep.current_slice().to_vec(), prep.next_slice().to_vec()]
        } else {
            [vec![], vec![]]
        };
        let public: Vec<AB::PublicVar> = b.public_values().to_vec();
        let periodic: Vec<AB::PeriodicVar> = b.periodic_values().to_vec();
        let chal: Vec<AB::RandomVar> = b.permutation_randomness().to_vec();
        let pm: [Vec<AB::VarEF>; 2] = if chal.is_empty() {
            [vec![], vec![]]
        } else {
            let perm = b.permutation();
            [perm.current_slice().to_vec(), perm.next_slice().to_vec()]
        };
        let pvals: Vec<AB::PermutationVar> = b.permutation_values().to_vec();

        let mut bs: Vec<AB::Expr> = vec![];
        let mut es: Vec<AB::ExprEF> = vec![];
        fn at<T: Clone>(v: &[T], i: u16) -> Option<T> {
            if v.is_empty() { None } else { Some(v[pick(i, v.len())].clone()) }
        }
        for ins in &self.instrs {
            let getb = |i: u16| -> AB::Expr { at(&bs, i).unwrap_or(AB::Expr::ONE) };
            let gete = |i: u16| -> AB::ExprEF { at(&es, i).unwrap_or(AB::ExprEF::ONE) };
            match ins {
                PI::Main { next, i } => {
                    let v = at(&m[*next as usize], *i).map(Into::into).unwrap_or(AB::Expr::ZERO);
                    bs.push(v)
                }
                PI::Prep { next, i } => {
                    let v = at(&p[*next as usize], *i).map(Into::into).unwrap_or(AB::Expr::TWO);
                    bs.push(v)
                }
                PI::Public(i) => {
                    let v = at(&public, *i).map(Into::into).unwrap_or(AB::Expr::TWO);
                    bs.push(v)
                }
                PI::Periodic(i) => {
                    let v = at(&periodic, *i).map(Into::into).unwrap_or(AB::Expr::TWO);
                    bs.push(v)
                }
                PI::First => bs.push(b.is_first_row()),
                PI::Last => bs.push(b.is_last_row()),
                PI::Trans => bs.push(b.is_transition()),
                PI::Const(k) => bs.push(k.to::<AB::Expr>()),
                PI::Neg(x) => {
                    let v = -getb(*x);
                    bs.push(v)
                }
                PI::Add(x, y) => {
                    let v = getb(*x) + getb(*y);
                    bs.push(v)
                }
                PI::Sub(x, y) => {
                    let v = getb(*x) - getb(*y);
                    bs.push(v)
                }
                PI::Mul(x, y) => {
                    let v = getb(*x) * getb(*y);
                    bs.push(v)
                }
                PI::VarOp { op, next, i, x } => {
                    let e = getb(*x);
                    let v = match at(&m[*next as usize], *i) {
                        None => e,
                        Some(var) => match op % 3 {
                            0 => var + e,
                            1 => var - e,
                            _ => var * e,
                        },
                    };
                    bs.push(v)
                }
                PI::EBase(x) => {
                    let v = AB::ExprEF::from(getb(*x));
                    es.push(v)
                }
                PI::EPerm { next, i } => {
                    let v = at(&pm[*next as usize], *i).map(Into::into).unwrap_or(AB::ExprEF::TWO);
                    es.push(v)
                }
                PI::EChal(i) => {
                    let v = at(&chal, *i).map(Into::into).unwrap_or(AB::ExprEF::TWO);
                    es.push(v)
                }
                PI::EPVal(i) => {
                    let v = at(&pvals, *i).map(Into::into).unwrap_or(AB::ExprEF::TWO);
                    es.push(v)
                }
                PI::EConst(k) => {
                    let c = <AB::EF as BasedVectorSpace<AB::F>>::from_basis_coefficients_fn(|i| {
                        k.get(i).map(|k| k.to::<AB::F>()).unwrap_or(AB::F::ZERO)
                    });
                    es.push(AB::ExprEF::from(c))
                }
                PI::ENeg(x) => {
                    let v = -gete(*x);
                    es.push(v)
                }
                PI::EAdd(x, y) => {
                    let v = gete(*x) + gete(*y);
                    es.push(v)
                }
                PI::ESub(x, y) => {
                    let v = gete(*x) - gete(*y);
                    es.push(v)
                }
                PI::EMul(x, y) => {
                    let v = gete(*x) * gete(*y);
                    es.push(v)
                }
                PI::EMulB(x, y) => {
                    let v = gete(*x) * getb(*y);
                    es.push(v)
                }
                PI::Assert { k, x, y, when } => {
                    let (x, y) = (getb(*x), getb(*y));
                    with_when!(b, when, getb, |fb| do_assert(fb, k, x, y))
                }
                PI::AssertE { k, x, y, when } => {
                    let (x, y) = (gete(*x), gete(*y));
                    with_when!(b, when, getb, |fb| do_assert_ext(fb, k, x, y))
                }
                PI::LiftedGadget { op, a, b: bb, c, when } => {
                    let (x, y, z) = (
                        AB::ExprEF::from(getb(*a)),
                        AB::ExprEF::from(getb(*bb)),
                        AB::ExprEF::from(getb(*c)),
                    );
                    let v = match op % 3 {
                        0 => x * y - z,
                        1 => x + y - z,
                        _ => x - y * z,
                    };
                    with_when!(b, when, getb, |fb| fb.assert_zero_ext(v))
                }
                PI::Interact { bus, fields, count, weight } => {
                    let bus = (*bus % 3) as usize;
                    let width = bus + 1;
                    let fs: Vec<AB::Expr> = (0..width)
                        .map(|k| getb(if fields.is_empty() { 0 } else { fields[k % fields.len()] }))
                        .collect();
                    let cnt = getb(*count);
                    b.push_interaction(BUS[bus], fs, Count::bounded(cnt, *weight as u32));
                }
                PI::Local { width, tuples } => {
                    let width = 1 + (*width % 3) as usize;
                    let ts: Vec<(Vec<AB::Expr>, Count<AB::Expr>)> = tuples
                        .iter()
                        .map(|(fields, count, weight)| {
                            let fs = (0..width)
                                .map(|k| getb(if fields.is_empty() { 0 } else { fields[k % fields.len()] }))
                                .collect();
                            let cnt = getb(*count);
                            (fs, if *weight == 0 { Count::provided(cnt) } else { Count::bounded(cnt, *weight as u32) })
                        })
                        .collect();
                    if !ts.is_empty() {
                        b.push_local_interaction(ts);
                    }
                }
            }
        }
    }
}

// ---- strategies -----------------------------------------------------------------------------------

fn when_strategy() -> impl Strategy<Value = When> {
    prop_oneof![
        4 => Just(When::Always),
        2 => Just(When::First),
        2 => Just(When::Last),
        2 => Just(When::Transition),
        1 => Just(When::TransitionWindow),
        2 => any::<u16>().prop_map(When::Cond),
        1 => (any::<u16>(), any::<u16>()).prop_map(|(a, b)| When::Ne(a, b)),
        1 => any::<u16>().prop_map(When::FirstAnd),
        1 => any::<u16>().prop_map(When::TransitionAnd),
    ]
}

fn pi_strategy(ext_weight: u32, lookup_weight: u32) -> impl Strategy<Value = PI> {
    let u = any::<u16>;
    let ak = prop_oneof![
        3 => Just(AK::Zero), 3 => Just(AK::Eq), 2 => Just(AK::Bool), 1 => Just(AK::One),
        1 => Just(AK::Zeros2), 1 => Just(AK::Bools2), 1 => Just(AK::EqArr2)
    ];
    let ek = prop_oneof![3 => Just(EK::Zero), 3 => Just(EK::Eq), 1 => Just(EK::One), 1 => Just(EK::Zeros2)];
    let base = prop_oneof![
        4 => (any::<bool>(), u()).prop_map(|(next, i)| PI::Main { next, i }),
        2 => (any::<bool>(), u()).prop_map(|(next, i)| PI::Prep { next, i }),
        1 => u().prop_map(PI::Public),
        1 => u().prop_map(PI::Periodic),
        1 => prop_oneof![Just(PI::First), Just(PI::Last), Just(PI::Trans)],
        2 => k_strategy().prop_map(PI::Const),
        1 => u().prop_map(PI::Neg),
        3 => (u(), u()).prop_map(|(a, b)| PI::Add(a, b)),
        3 => (u(), u()).prop_map(|(a, b)| PI::Sub(a, b)),
        4 => (u(), u()).prop_map(|(a, b)| PI::Mul(a, b)),
        1 => (any::<u8>(), any::<bool>(), u(), u()).prop_map(|(op, next, i, x)| PI::VarOp { op, next, i, x }),
        6 => (ak, u(), u(), when_strategy()).prop_map(|(k, x, y, when)| PI::Assert { k, x, y, when }),
    ];
    let ext = prop_oneof![
        3 => u().prop_map(PI::EBase),
        2 => (any::<bool>(), u()).prop_map(|(next, i)| PI::EPerm { next, i }),
        1 => u().prop_map(PI::EChal),
        1 => u().prop_map(PI::EPVal),
        1 => ke_strategy().prop_map(PI::EConst),
        2 => u().prop_map(PI::ENeg),
        2 => (u(), u()).prop_map(|(a, b)| PI::EAdd(a, b)),
        2 => (u(), u()).prop_map(|(a, b)| PI::ESub(a, b)),
        3 => (u(), u()).prop_map(|(a, b)| PI::EMul(a, b)),
        2 => (u(), u()).prop_map(|(a, b)| PI::EMulB(a, b)),
        5 => (ek, u(), u(), when_strategy()).prop_map(|(k, x, y, when)| PI::AssertE { k, x, y, when }),
        3 => (any::<u8>(), u(), u(), u(), when_strategy())
            .prop_map(|(op, a, b, c, when)| PI::LiftedGadget { op, a, b, c, when }),
    ];
    let lookups = prop_oneof![
        3 => (0u8..3, prop::collection::vec(u(), 1..=3), u(), 0u8..3)
            .prop_map(|(bus, fields, count, weight)| PI::Interact { bus, fields, count, weight }),
        1 => (0u8..3, prop::collection::vec((prop::collection::vec(u(), 1..=3), u(), 0u8..3), 1..=3))
            .prop_map(|(width, tuples)| PI::Local { width, tuples }),
    ];
    prop_oneof![
        30 => base,
        ext_weight => ext,
        lookup_weight => lookups,
    ]
}

#[derive(Clone, Debug, Serialize, Deserialize, Hash)]
pub struct ProgCase {
    /// 0 BabyBear/D4, 1 KoalaBear/D4, 2 KoalaBear/quintic D5, 3 Goldilocks/D2
    pub cfg: u8,
    pub width: u8,
    pub n_prep: u8,
    pub n_pub: u8,
    /// periodic columns (each padded/truncated to a power-of-two length)
    pub periodic: Vec<Vec<K>>,
    pub instrs: Vec<PI>,
    /// fold same-bus global lookups up to this fraction-pin degree (None = unpacked)
    pub pack: Option<u8>,
    pub seed: u64,
}

/// `allow_interleave = false` moves the AIR's own extension assertions behind its base
/// assertions (the order every in-tree AIR + LogUp produces).
pub fn prog_strategy(max_len: usize, allow_interleave: bool) -> impl Strategy<Value = ProgCase> {
    (
        (0u8..4, 1u8..=5, 0u8..=3, 0u8..=2),
        prop::collection::vec(prop::collection::vec(k_strategy(), 2..=4), 0..=2),
        (prop_oneof![Just(0u32), Just(15), Just(30)], prop_oneof![Just(0u32), Just(3), Just(8)])
            .prop_flat_map(move |(ew, lw)| prop::collection::vec(pi_strategy(ew, lw), 1..=max_len)),
        prop::option::weighted(0.4, 2u8..=6),
        any::<u64>(),
    )
        .prop_map(move |((cfg, width, n_prep, n_pub), periodic, mut instrs, pack, seed)| {
            if !allow_interleave {
                let (e, mut rest): (Vec<PI>, Vec<PI>) =
                    instrs.into_iter().partition(|i| matches!(i, PI::AssertE { .. } | PI::LiftedGadget { .. }));
                rest.extend(e);
                instrs = rest;
            }
            ProgCase { cfg, width, n_prep, n_pub, periodic, instrs, pack, seed }
        })
}

/// Does the AIR itself emit an extension constraint before a base constraint?
fn interleaved(instrs: &[PI]) -> bool {
    let mut seen_ext = false;
    for i in instrs {
        match i {
            PI::AssertE { .. } | PI::LiftedGadget { .. } => seen_ext = true,
            PI::Assert { .. } if seen_ext => return true,
            _ => {}
        }
    }
    false
}

// ---- the differential -----------------------------------------------------------------------------

pub struct Diff<EF> {
    pub native: EF,
    pub circuit: Result<EF, (String, String)>,
    /// fold of my recorded constraint values in emission order / base-first order
    pub rec_emission: EF,
    pub rec_base_first: EF,
    pub n_base: usize,
    pub n_ext: usize,
    pub n_lookups: usize,
    pub shape: Shape,
}

fn fold<EF: Field>(alpha: EF, it: impl Iterator<Item = EF>) -> EF {
    it.fold(EF::ZERO, |acc, c| acc * alpha + c)
}

pub fn differential<SC, A>(air: &A, lookups: &[Lookup<Val<SC>>], seed: u64) -> Diff<SC::Challenge>
where
    SC: StarkGenericConfig,
    Val<SC>: PrimeField64,
    SC::Challenge: ExtensionField<Val<SC>> + core::hash::Hash + Eq,
    A: for<'a> Air<VerifierConstraintFolderWithLookups<'a, SC>>
        + for<'a> Air<RecBuilder<'a, Val<SC>, SC::Challenge>>
        + Air<InteractionSymbolicBuilder<Val<SC>, SC::Challenge>>,
    SymbolicExpressionExt<Val<SC>, SC::Challenge>: Algebra<SymbolicExpression<Val<SC>>> + Algebra<SC::Challenge>,
{
    type F<SC> = Val<SC>;
    let gadget = LogUpGadget::new();
    let width = <A as BaseAir<F<SC>>>::width(air);
    let n_prep = <A as BaseAir<F<SC>>>::preprocessed_width(air);
    let n_pub = <A as BaseAir<F<SC>>>::num_public_values(air);
    let n_periodic = <A as BaseAir<F<SC>>>::num_periodic_columns(air);
    let n_l = lookups.len();
    let (perm_w, n_chal, n_pval) = if n_l == 0 { (0, 0, 0) } else { (n_l + 1, 2 * n_l, 1) };

    let mut rng = SmallRng::seed_from_u64(seed);
    let mut vals = |n: usize| -> Vec<SC::Challenge> {
        (0..n).map(|_| rand_ef::<F<SC>, SC::Challenge>(&mut rng)).collect()
    };
    let sels = vals(3);
    let alpha = vals(1)[0];
    let challenges = vals(n_chal);
    let perm = [vals(perm_w), vals(perm_w)];
    let perm_values = vals(n_pval);
    let prep = [vals(n_prep), vals(n_prep)];
    let periodic = vals(n_periodic);
    let main = [vals(width), vals(width)];
    let public_f: Vec<F<SC>> = (0..n_pub)
        .map(|_| match rng.random_range(0u32..8) {
            0 => F::<SC>::ZERO,
            1 => F::<SC>::ONE,
            _ => F::<SC>::from_u64(rng.random()),
        })
        .collect();
    let env = Env {
        sels: [sels[0], sels[1], sels[2]],
        public: public_f.iter().map(|&x| SC::Challenge::from(x)).collect(),
        challenges,
        perm,
        perm_values,
        prep,
        periodic,
        main,
    };

    // ---- native verifier folder (p3-uni-stark / p3-lookup), exactly as p3-batch-stark's
    //      `verify_constraints_with_lookups` sets it up
    let native = {
        let main = VerticalPair::new(
            RowMajorMatrixView::new_row(&env.main[0]),
            RowMajorMatrixView::new_row(&env.main[1]),
        );
        let preprocessed = VerticalPair::new(
            RowMajorMatrixView::new_row(&env.prep[0]),
            RowMajorMatrixView::new_row(&env.prep[1]),
        );
        let preprocessed_window = RowWindow::from_two_rows(preprocessed.top.values, preprocessed.bottom.values);
        let inner = VerifierConstraintFolder::<SC> {
            main,
            preprocessed,
            preprocessed_window,
            periodic_values: &env.periodic,
            public_values: &public_f,
            is_first_row: env.sels[0],
            is_last_row: env.sels[1],
            is_transition: env.sels[2],
            alpha,
            accumulator: SC::Challenge::ZERO,
        };
        let mut folder = VerifierConstraintFolderWithLookups::<SC> {
            inner,
            permutation: VerticalPair::new(
                RowMajorMatrixView::new_row(&env.perm[0]),
                RowMajorMatrixView::new_row(&env.perm[1]),
            ),
            permutation_challenges: &env.challenges,
            permutation_values: &env.perm_values,
        };
        gadget.eval_air_and_lookups(air, &mut folder, lookups);
        folder.inner.accumulator
    };

    // ---- my recording builder
    let log = {
        let mut rb = RecBuilder::<F<SC>, SC::Challenge> {
            main: RowWindow::from_two_rows(&env.main[0], &env.main[1]),
            prep: RowWindow::from_two_rows(&env.prep[0], &env.prep[1]),
            public: &public_f,
            periodic: &env.periodic,
            sels: env.sels,
            perm: RowWindow::from_two_rows(&env.perm[0], &env.perm[1]),
            challenges: &env.challenges,
            perm_values: &env.perm_values,
            log: vec![],
        };
        gadget.eval_air_and_lookups(air, &mut rb, lookups);
        rb.log
    };
    let rec_emission = fold(alpha, log.iter().map(|x| x.1));
    let rec_base_first = fold(
        alpha,
        log.iter().filter(|x| !x.0).chain(log.iter().filter(|x| x.0)).map(|x| x.1),
    );

    // ---- structure of the symbolic constraints the compiler will see (p3's own generator)
    let mut shape = Shape::default();
    let layout = AirLayout {
        preprocessed_width: n_prep,
        main_width: width,
        num_public_values: n_pub,
        num_periodic_columns: n_periodic,
        ..Default::default()
    };
    let (sym_b, sym_e) = p3_batch_stark::symbolic::get_symbolic_constraints::<F<SC>, SC::Challenge, A, LogUpGadget>(
        air, layout, lookups, &gadget,
    );
    for s in &sym_b {
        shape.walk_base(s);
    }
    for s in &sym_e {
        shape.walk_ext(s);
    }

    // ---- the repo: eval_folded_circuit
    let circuit = (|| {
        let mut builder = CircuitBuilder::<SC::Challenge>::new();
        let tg = EnvTargets::alloc(&mut builder, &env);
        let alpha_t = builder.public_input();
        let rsel = RecursiveLagrangeSelectors { row_selectors: tg.row_selectors(), inv_vanishing: tg.sels[0] };
        let meta = LookupMetadata { contexts: lookups };
        let out = <A as RecursiveAir<F<SC>, SC::Challenge, LogUpGadget>>::eval_folded_circuit(
            air,
            &mut builder,
            &rsel,
            &alpha_t,
            &meta,
            tg.columns(),
            &gadget,
        );
        let circuit = builder.build().map_err(|e| ("build-error".to_string(), format!("{e:?}")))?;
        let mut runner = circuit.runner();
        let mut inputs = env.flat();
        inputs.push(alpha);
        runner
            .set_public_inputs(&inputs)
            .map_err(|e| ("set-public-inputs".to_string(), format!("{e:?}")))?;
        let traces = runner
            .run()
            .map_err(|e| (format!("run-failed:{}", crate::checks::c02::err_name(&e)), format!("{e:?}")))?;
        circuit
            .expr_to_widx
            .get(&out)
            .and_then(|w| traces.witness_trace.get_value(*w))
            .copied()
            .ok_or_else(|| ("folded-target-has-no-witness".to_string(), format!("{out:?}")))
    })();

    Diff {
        native,
        circuit,
        rec_emission,
        rec_base_first,
        n_base: log.iter().filter(|x| !x.0).count(),
        n_ext: log.iter().filter(|x| x.0).count(),
        n_lookups: n_l,
        shape,
    }
}

/// Turn a [`Diff`] into a report.  `sub` names the sub-check in signatures; `interleaved` says
/// whether the AIR itself emits an extension constraint before a base constraint.
fn judge<EF: Field>(d: Diff<EF>, sub: &str, what: &str, interleaved: bool) -> Report {
    let mut rep = d
        .shape
        .classes(Report::pass())
        .nontrivial(d.shape.nontrivial())
        .class(format!("base-constraints:{}", bucket(d.n_base)))
        .class(format!("ext-constraints:{}", bucket(d.n_ext)))
        .class(format!("lookups:{}", bucket(d.n_lookups)))
        .class(if interleaved { "order:air-emits-ext-before-base" } else { "order:base-then-ext" });
    let fail = |rep: Report, sig: String, msg: String| {
        let mut rep = rep;
        rep.verdict = crate::fw::Verdict::Fail { sig, msg };
        rep.nontrivial = true;
        rep
    };
    if d.rec_emission != d.native {
        return fail(
            rep,
            format!("C13/{sub}:harness:recording-builder-disagrees-with-native-folder"),
            format!("{what}: native folder {:?} != emission-order fold of my recorded values {:?}", d.native, d.rec_emission),
        );
    }
    let got = match d.circuit {
        Ok(v) => v,
        Err((sig, msg)) => return fail(rep, format!("C13/{sub}:{sig}"), format!("{what}: {msg}")),
    };
    if got == d.native {
        rep = rep.class("outcome:equal");
        return rep;
    }
    if interleaved && got == d.rec_base_first {
        return fail(
            rep,
            format!("C13/{sub}:fold-order:ext-constraint-emitted-before-base-constraint"),
            format!(
                "{what}: circuit folds all base constraints first and then all extension constraints ({got:?}); the native \
                 folder folds in emission order ({:?}); {} base + {} ext constraints",
                d.native, d.n_base, d.n_ext
            ),
        );
    }
    fail(
        rep,
        format!(
            "C13/{sub}:folded-value-mismatch:{}{}",
            if d.n_ext > 0 { "with-ext" } else { "base-only" },
            if d.n_lookups > 0 { "+lookups" } else { "" }
        ),
        format!(
            "{what}: circuit {got:?} != native folder {:?} (base-first fold of recorded values {:?}); {} base + {} ext constraints, {} lookups",
            d.native, d.rec_base_first, d.n_base, d.n_ext, d.n_lookups
        ),
    )
}

mod cfgs {
    pub use p3_test_utils::baby_bear_params::MyConfig as Bb4;
    pub use p3_test_utils::goldilocks_params::MyConfig as Gl2;
    pub use p3_test_utils::koala_bear_params::MyConfig as Kb4;
    pub use p3_test_utils::koala_bear_quintic_params::MyConfig as Kb5;
}
const CFG_NAME: [&str; 4] = ["babybear-d4", "koalabear-d4", "koalabear-quintic-d5", "goldilocks-d2"];

fn lookups_of<SC, A>(air: &A, pack: Option<u8>) -> Vec<Lookup<Val<SC>>>
where
    SC: StarkGenericConfig,
    Val<SC>: PrimeField64,
    A: Air<InteractionSymbolicBuilder<Val<SC>, SC::Challenge>>,
{
    let l = Lookups::from_air::<SC::Challenge, A>(air);
    let l = match pack {
        Some(budget) => l.pack_same_bus(&LogUpGadget::new(), budget as usize),
        None => l,
    };
    l.to_vec()
}

fn prog_oracle_sc<SC>(c: &ProgCase) -> Report
where
    SC: StarkGenericConfig,
    Val<SC>: PrimeField64,
    SC::Challenge: ExtensionField<Val<SC>> + core::hash::Hash + Eq,
    SymbolicExpressionExt<Val<SC>, SC::Challenge>: Algebra<SymbolicExpression<Val<SC>>> + Algebra<SC::Challenge>,
{
    let air = ProgramAir::<Val<SC>> {
        width: c.width.clamp(1, 8) as usize,
        n_prep: c.n_prep.min(6) as usize,
        n_pub: c.n_pub.min(6) as usize,
        periodic: c
            .periodic
            .iter()
            .map(|col| {
                let n = if col.len() >= 4 { 4 } else { 2 };
                (0..n).map(|i| col.get(i).map(|k| k.to::<Val<SC>>()).unwrap_or(Val::<SC>::ZERO)).collect()
            })
            .collect(),
        instrs: c.instrs.clone(),
    };
    let lookups = lookups_of::<SC, _>(&air, c.pack);
    let il = interleaved(&c.instrs);
    let d = differential::<SC, _>(&air, &lookups, c.seed);
    let mut feats: BTreeSet<&'static str> = BTreeSet::new();
    for i in &c.instrs {
        match i {
            PI::Assert { when, .. } | PI::AssertE { when, .. } => {
                feats.insert(match when {
                    When::Always => "when:always",
                    When::First => "when:first_row",
                    When::Last => "when:last_row",
                    When::Transition | When::TransitionWindow => "when:transition",
                    When::Cond(_) | When::Ne(..) => "when:cond",
                    When::FirstAnd(_) | When::TransitionAnd(_) => "when:nested",
                });
                feats.insert(if matches!(i, PI::AssertE { .. }) { "instr:assert-ext" } else { "instr:assert-base" });
            }
            PI::LiftedGadget { .. } => {
                let n = c.instrs.iter().filter(|i| matches!(i, PI::LiftedGadget { .. })).count();
                feats.insert(if n >= 2 { "instr:lifted-base-ext-assert(>=2)" } else { "instr:lifted-base-ext-assert(1)" });
            }
            PI::Interact { .. } => {
                feats.insert("instr:global-interaction");
            }
            PI::Local { .. } => {
                feats.insert("instr:local-interaction");
            }
            PI::Public(_) if air.n_pub > 0 => {
                feats.insert("instr:public");
            }
            PI::Periodic(_) if !air.periodic.is_empty() => {
                feats.insert("instr:periodic");
            }
            PI::Prep { .. } if air.n_prep > 0 => {
                feats.insert("instr:preprocessed");
            }
            _ => {}
        }
    }
    judge(d, "program-air", "ProgramAir", il)
        .classes(feats.into_iter().map(String::from))
        .class(if c.pack.is_some() { "lookups:packed-same-bus" } else { "lookups:unpacked" })
        .class(format!("field:{}", CFG_NAME[(c.cfg % 4) as usize]))
        .key(hash_of(&(&c.instrs, c.width, c.n_prep, c.n_pub, c.periodic.len(), c.pack, c.cfg)))
}

pub fn prog_oracle(c: &ProgCase) -> Report {
    match c.cfg % 4 {
        0 => prog_oracle_sc::<cfgs::Bb4>(c),
        1 => prog_oracle_sc::<cfgs::Kb4>(c),
        2 => prog_oracle_sc::<cfgs::Kb5>(c),
        _ => prog_oracle_sc::<cfgs::Gl2>(c),
    }
}

pub const PROG_RULE: &str = "ProgramAir: an `Air<AB>` for every `AB: PermutationAirBuilder + InteractionBuilder` whose eval \
interprets a generated instruction list (main/preprocessed at both rows, public, periodic, selectors, constants, \
neg/add/sub/mul, Var-op-Expr, extension expressions from permutation columns/challenges/permutation values/ext \
constants/lifted base expressions, assert_zero/eq/bool/one/zeros/bools/eq_arrays and their _ext forms under \
when/when_ne/when_first_row/when_last_row/when_transition and nested filters, global and local interactions; lookups \
unpacked or packed per bus) x random opened values, alpha, selectors, lookup challenges; oracle: \
p3_lookup::folder::VerifierConstraintFolderWithLookups + LogUpGadget::eval_air_and_lookups accumulator (cross-checked by \
my own recording builder) vs the value of the target returned by RecursiveAir::eval_folded_circuit; non-trivial = the \
symbolic constraints contain an operation node reached by >= 2 paths AND an extension leaf embedding a base operation \
sub-tree";

// ---- the repo's own AIRs --------------------------------------------------------------------------

#[derive(Clone, Debug, Serialize, Deserialize, Hash)]
pub enum RepoAirKind {
    /// `d1`: base-field ALU (`AluAir<F, 1>`), else the circuit extension degree of the config
    Alu { lanes: u8, horner_k: u8, d1: bool },
    Public { lanes: u8, d1: bool },
    Const { d1: bool },
    Recompose { lanes: u8, coeff_lookups: bool },
    /// one of the Poseidon2 / Poseidon1 circuit AIRs defined for the configuration's base field
    Poseidon { variant: u8 },
}

#[derive(Clone, Debug, Serialize, Deserialize, Hash)]
pub struct RepoCase {
    pub cfg: u8,
    pub air: RepoAirKind,
    pub pack: Option<u8>,
    pub seed: u64,
}

pub fn repo_strategy() -> impl Strategy<Value = RepoCase> {
    let kind = prop_oneof![
        5 => (1u8..=4, 2u8..=4, prop::bool::weighted(0.25)).prop_map(|(lanes, horner_k, d1)| RepoAirKind::Alu { lanes, horner_k, d1 }),
        2 => (1u8..=4, prop::bool::weighted(0.25)).prop_map(|(lanes, d1)| RepoAirKind::Public { lanes, d1 }),
        1 => prop::bool::weighted(0.25).prop_map(|d1| RepoAirKind::Const { d1 }),
        2 => (1u8..=4, any::<bool>()).prop_map(|(lanes, coeff_lookups)| RepoAirKind::Recompose { lanes, coeff_lookups }),
        2 => (0u8..8).prop_map(|variant| RepoAirKind::Poseidon { variant }),
    ];
    (0u8..4, kind, prop::option::weighted(0.6, 2u8..=6), any::<u64>())
        .prop_map(|(cfg, air, pack, seed)| RepoCase { cfg, air, pack, seed })
}

fn repo_one<SC, A>(air: &A, c: &RepoCase, name: &str) -> Report
where
    SC: StarkGenericConfig,
    Val<SC>: PrimeField64,
    SC::Challenge: ExtensionField<Val<SC>> + core::hash::Hash + Eq,
    A: for<'a> Air<VerifierConstraintFolderWithLookups<'a, SC>>
        + for<'a> Air<RecBuilder<'a, Val<SC>, SC::Challenge>>
        + Air<InteractionSymbolicBuilder<Val<SC>, SC::Challenge>>,
    SymbolicExpressionExt<Val<SC>, SC::Challenge>: Algebra<SymbolicExpression<Val<SC>>> + Algebra<SC::Challenge>,
{
    // An AIR whose `eval` panics under p3's own symbolic builder has no native folded value at
    // all: outside this property's domain (reported separately in NOTES.md).
    let lookups = match crate::fw::catch(|| lookups_of::<SC, A>(air, c.pack)) {
        Ok(l) => l,
        Err(m) => {
            return Report::discard(format!(
                "{name}: Air::eval panics under p3's InteractionSymbolicBuilder ({})",
                crate::fw::sig_of_panic(&m)
            ));
        }
    };
    let d = differential::<SC, A>(air, &lookups, c.seed);
    judge(d, "repo-airs", name, false)
        .class(format!("air:{name}"))
        .class(if c.pack.is_some() { "lookups:packed-same-bus" } else { "lookups:unpacked" })
        .class(format!("field:{}", CFG_NAME[(c.cfg % 4) as usize]))
        .key(hash_of(&(&c.air, c.cfg, c.pack)))
}

fn repo_sc<SC, const D: usize>(
    c: &RepoCase,
    alu_d: impl Fn(usize, usize) -> p3_circuit_prover::air::AluAir<Val<SC>, D>,
) -> Report
where
    SC: StarkGenericConfig,
    Val<SC>: PrimeField64,
    SC::Challenge: ExtensionField<Val<SC>> + core::hash::Hash + Eq,
    SymbolicExpressionExt<Val<SC>, SC::Challenge>: Algebra<SymbolicExpression<Val<SC>>> + Algebra<SC::Challenge>,
{
    use p3_circuit_prover::air::{AluAir, ConstAir, PublicAir, RecomposeAir};
    match &c.air {
        RepoAirKind::Alu { lanes, horner_k, d1 } => {
            let (l, k) = ((*lanes).clamp(1, 4) as usize, (*horner_k).clamp(2, 4) as usize);
            if *d1 {
                let air = AluAir::<Val<SC>, 1>::new(8, l).with_horner_pack_k(k);
                repo_one::<SC, _>(&air, c, "AluAir<D=1>").class(format!("alu:lanes={l},k={k}"))
            } else {
                let air = alu_d(8, l).with_horner_pack_k(k);
                repo_one::<SC, _>(&air, c, "AluAir<D=ext>").class(format!("alu:lanes={l},k={k}"))
            }
        }
        RepoAirKind::Public { lanes, d1 } => {
            let l = (*lanes).clamp(1, 4) as usize;
            if *d1 {
                repo_one::<SC, _>(&PublicAir::<Val<SC>, 1>::new(8, l), c, "PublicAir<D=1>")
            } else {
                repo_one::<SC, _>(&PublicAir::<Val<SC>, D>::new(8, l), c, "PublicAir<D=ext>")
            }
        }
        RepoAirKind::Const { d1 } => {
            if *d1 {
                repo_one::<SC, _>(&ConstAir::<Val<SC>, 1>::new(8), c, "ConstAir<D=1>")
            } else {
                repo_one::<SC, _>(&ConstAir::<Val<SC>, D>::new(8), c, "ConstAir<D=ext>")
            }
        }
        RepoAirKind::Recompose { lanes, coeff_lookups } => {
            let l = (*lanes).clamp(1, 4) as usize;
            let air = RecomposeAir::<Val<SC>, D>::new_with_preprocessed(l, vec![], 1, *coeff_lookups);
            repo_one::<SC, _>(&air, c, if *coeff_lookups { "RecomposeAir+coeff-lookups" } else { "RecomposeAir" })
        }
        RepoAirKind::Poseidon { .. } => unreachable!("dispatched per base field"),
    }
}

fn poseidon_case(c: &RepoCase, variant: u8) -> Report {
    use p3_poseidon1_circuit_air as p1;
    use p3_poseidon2_circuit_air as p2;
    macro_rules! go {
        ($SC:ty, $name:expr, $air:expr) => {
            repo_one::<$SC, _>(&$air, c, $name)
        };
    }
    macro_rules! koala {
        ($SC:ty) => {
            match variant % 8 {
                0 => go!($SC, "Poseidon2:KoalaBearD1Width16", p2::KoalaBearD1Width16::default_air()),
                1 => go!($SC, "Poseidon2:KoalaBearD4Width16", p2::KoalaBearD4Width16::default_air()),
                2 => go!($SC, "Poseidon2:KoalaBearD4Width24", p2::KoalaBearD4Width24::default_air()),
                3 => go!($SC, "Poseidon2:KoalaBearD1Width32", p2::KoalaBearD1Width32::default_air()),
                4 => go!($SC, "Poseidon2:KoalaBearD4Width32", p2::KoalaBearD4Width32::default_air()),
                5 => go!($SC, "Poseidon1:KoalaBearD1Width16", p1::KoalaBearD1Width16::default_air()),
                6 => go!($SC, "Poseidon1:KoalaBearD4Width16", p1::KoalaBearD4Width16::default_air()),
                _ => go!($SC, "Poseidon1:KoalaBearD4Width24", p1::KoalaBearD4Width24::default_air()),
            }
        };
    }
    match c.cfg % 4 {
        0 => match variant % 7 {
            0 => go!(cfgs::Bb4, "Poseidon2:BabyBearD1Width16", p2::BabyBearD1Width16::default_air()),
            1 => go!(cfgs::Bb4, "Poseidon2:BabyBearD4Width16", p2::BabyBearD4Width16::default_air()),
            2 => go!(cfgs::Bb4, "Poseidon2:BabyBearD4Width24", p2::BabyBearD4Width24::default_air()),
            3 => go!(cfgs::Bb4, "Poseidon2:BabyBearD4Width32", p2::BabyBearD4Width32::default_air()),
            4 => go!(cfgs::Bb4, "Poseidon1:BabyBearD1Width16", p1::BabyBearD1Width16::default_air()),
            5 => go!(cfgs::Bb4, "Poseidon1:BabyBearD4Width16", p1::BabyBearD4Width16::default_air()),
            _ => go!(cfgs::Bb4, "Poseidon1:BabyBearD4Width24", p1::BabyBearD4Width24::default_air()),
        },
        1 => koala!(cfgs::Kb4),
        2 => koala!(cfgs::Kb5),
        _ => match variant % 2 {
            0 => go!(cfgs::Gl2, "Poseidon2:GoldilocksD2Width16", p2::GoldilocksD2Width16::default_air()),
            _ => go!(cfgs::Gl2, "Poseidon1:GoldilocksD2Width8", p1::goldilocks_d2_width8_default_air()),
        },
    }
}

pub fn repo_oracle(c: &RepoCase) -> Report {
    use p3_circuit_prover::air::AluAir;
    use p3_field::extension::BinomiallyExtendable;
    if let RepoAirKind::Poseidon { variant } = &c.air {
        return poseidon_case(c, *variant);
    }
    match c.cfg % 4 {
        0 => repo_sc::<cfgs::Bb4, 4>(c, |n, l| {
            AluAir::new_binomial(n, l, <p3_baby_bear::BabyBear as BinomiallyExtendable<4>>::W)
        }),
        1 => repo_sc::<cfgs::Kb4, 4>(c, |n, l| {
            AluAir::new_binomial(n, l, <p3_koala_bear::KoalaBear as BinomiallyExtendable<4>>::W)
        }),
        2 => repo_sc::<cfgs::Kb5, 5>(c, |n, l| AluAir::new_quintic_trinomial(n, l)),
        _ => repo_sc::<cfgs::Gl2, 2>(c, |n, l| {
            AluAir::new_binomial(n, l, <p3_goldilocks::Goldilocks as BinomiallyExtendable<2>>::W)
        }),
    }
}

pub const REPO_RULE: &str = "the repo's AluAir (lanes 1-4, packed-Horner k 2-4, D=1 and the configuration's extension \
degree incl. the quintic trinomial), PublicAir, ConstAir, RecomposeAir (with/without coefficient lookups), every Poseidon2/Poseidon1 \
circuit AIR with a default constructor for the base field, lookups derived \
as the prover does (Lookups::from_air, optionally pack_same_bus with a degree budget), 4 field configurations x random \
opened values; same oracle as `program-air`";

pub fn run(ctx: &Ctx) {
    ctx.assume("opened values, selectors, public values and challenges are arbitrary extension-field elements (as at an out-of-domain point)");
    ctx.assume("lookup contexts are the ones p3-lookup derives from the AIR itself (Lookups::from_air [+ pack_same_bus]); the same contexts are given to both sides");
    let max_nodes = match ctx.tier {
        crate::fw::Tier::Quick => 40,
        crate::fw::Tier::Thorough => 200,
    };
    ctx.explore("dag", DAG_RULE, ctx.tier.pick(800_000, 4_000_000), || dag_strategy(max_nodes), dag_oracle);
    ctx.shrink_iters.store(300, std::sync::atomic::Ordering::Relaxed);
    ctx.explore("deep-chain", CHAIN_RULE, ctx.tier.pick(800, 8000), chain_strategy, chain_oracle);
    ctx.shrink_iters.store(4096, std::sync::atomic::Ordering::Relaxed);
    let max_len = match ctx.tier {
        crate::fw::Tier::Quick => 30,
        crate::fw::Tier::Thorough => 80,
    };
    // in-tree order (base constraints, then the AIR's own extension constraints, then LogUp's)
    ctx.explore("program-air", PROG_RULE, ctx.tier.pick(300_000, 3_000_000), || prog_strategy(max_len, false), prog_oracle);
    // the AIR may emit extension constraints before base constraints
    ctx.explore("program-air-interleaved", PROG_RULE, ctx.tier.pick(50_000, 500_000), || prog_strategy(max_len, true), prog_oracle);
    ctx.explore("repo-airs", REPO_RULE, ctx.tier.pick(10_000, 40_000), repo_strategy, repo_oracle);
    ctx.replay_known("program-air-interleaved", prog_oracle);
}
