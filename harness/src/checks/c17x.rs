//! C17 (extension) — cross-configuration aggregation and ZK layer configurations.
//!
//! `c17.rs` explores histories over `prove_next_layer` / `prove_aggregation_layer` with one
//! plain `TwoAdicFriPcs` configuration.  This module covers what it leaves out:
//!
//! * `build_and_prove_aggregation_layer_cross` / `prove_aggregation_layer_cross`: the two
//!   children were proven under an *input* configuration `InSC`, the aggregated proof is
//!   produced under an *output* configuration `OutSC`;
//! * `HidingFriPcs` (ZK) configurations for layers, on either side of the seam.
//!
//! A case is a short history (1-3 proving steps):
//!
//! * `Pre`      — a next-layer step under `InSC` over a base statement (its output is a possible
//!   child of the cross step: a batch proof with Poseidon2 / recompose tables);
//! * `Cross`    — `(left, right)` under `InSC`  →  proof under `OutSC`, children: uni-STARK
//!   proofs of two AIRs of equal shape, tiny batch-STARK circuit proofs, `Pre` outputs; cache
//!   `None | Fresh | Reuse` (the slot kept from the previous cross step);
//! * `PostNext` — a next-layer step under `OutSC` over a cross output;
//! * `PostAgg`  — a same-configuration aggregation under `OutSC` of two cross outputs (its
//!   cache slot may be the one of the cross step: the slot types coincide).
//!
//! Configuration pairs: plain→plain (different FRI parameters), plain→hiding, hiding→plain,
//! hiding→hiding, and plain→arity-4 MMCS (KoalaBear; the seam the cross API was written for);
//! every configuration is built like `ConfigWithFriParams(Zk|Arity4)` of
//! `recursion/examples/common/mod.rs` / `recursive_aggregation.rs`.
//!
//! Oracle after every proving step (the verifier is assembled from scratch, with a
//! configuration object of its own — for hiding configurations with another RNG seed):
//!
//! 1. valid children, no cache / cache of this call / cache of the same circuit ⇒ `Ok`, and the
//!    output verifies natively under the configuration the step proves under;
//! 2. an invalid child (wrong claimed value, foreign common data) ⇒ `Err`, with every cache
//!    discipline;
//! 3. the cached verdict equals the uncached verdict of the very same call (`cross_check`);
//! 4. a cache of a different circuit ⇒ `Err` or a verifying output, never a panic or an output
//!    that fails verification;
//! 5. outputs are fed to the following step;
//! 6. the cross output carries the ALU AIR variant the parameters ask for.
//!
//! `HidingFriPcs::get_quotient_ldes` (p3-fri 0.6.3) holds its spin lock while it runs a parallel
//! DFT and `prove_batch` calls it from a parallel iterator over the instances: with more than
//! one table the native ZK prover can dead-lock (see `c01.rs::serial_if`).  Histories that
//! involve a hiding configuration therefore run on a one-thread rayon pool.

use std::collections::BTreeMap;
use std::hash::{Hash, Hasher};
use std::rc::Rc;
use std::sync::Arc;

use p3_air::{Air, AirBuilder, BaseAir, WindowAccess};
use p3_batch_stark::ProverData;
use p3_challenger::DuplexChallenger;
use p3_circuit::ops::{generate_poseidon2_trace, generate_recompose_trace};
use p3_circuit::{Circuit, CircuitBuilder, CircuitRunner, NonPrimitiveOpId};
use p3_circuit_prover::common::get_airs_and_degrees_with_prep;
use p3_circuit_prover::{BatchStarkProver, CircuitProverData, ConstraintProfile, TablePacking};
use p3_commit::{ExtensionMmcs, Pcs};
use p3_dft::Radix2DitParallel;
use p3_field::extension::BinomialExtensionField;
use p3_field::{Field, PrimeCharacteristicRing, PrimeField64};
use p3_fri::{FriParameters, HidingFriPcs, TwoAdicFriPcs};
use p3_lookup::logup::LogUpGadget;
use p3_matrix::dense::RowMajorMatrix;
use p3_merkle_tree::MerkleTreeMmcs;
use p3_recursion::pcs::{
    FriProofTargets, HidingFriProofTargets, InputProofTargets, MerkleCapTargets,
    RecExtensionValMmcs, RecExtensionValMmcsArity4, RecValMmcs, RecValMmcsArity4, Witness,
    set_fri_mmcs_private_data, set_fri_mmcs_private_data_arity4, set_hiding_fri_mmcs_private_data,
};
use p3_recursion::traits::{RecursiveAir, RecursivePcs};
use p3_recursion::verifier::VerificationError;
use p3_recursion::{
    AggregationPrepCache, FriRecursionBackend, FriRecursionBackendForExt, FriRecursionConfig,
    FriVerifierParams, PcsRecursionBackend, Poseidon2Config, ProveNextLayerParams, RecursionInput,
    RecursionOutput, build_and_prove_aggregation_layer, build_and_prove_aggregation_layer_cross,
    build_and_prove_next_layer, build_next_layer_circuit, build_next_layer_prep,
    prove_aggregation_layer_cross, prove_next_layer,
};
use p3_symmetric::{PaddingFreeSponge, TruncatedPermutation};
use p3_uni_stark::{Proof, StarkConfig, StarkGenericConfig, Val};
use proptest::prelude::*;
use rand::SeedableRng;
use rand::rngs::SmallRng;
use serde::{Deserialize, Serialize};

use crate::fw::{Ctx, Report, catch, hash_of, pick, sig_of_panic};

// ------------------------------------------------------------------------------------------
// Case
// ------------------------------------------------------------------------------------------

/// FRI parameters of one configuration.  `fri` indexes [`FRIS`] (max arity, query count).
#[derive(Clone, Debug, Serialize, Deserialize, Hash, PartialEq, Eq)]
pub struct FriSel {
    pub log_blowup: u8,
    pub commit_pow_bits: u8,
    pub query_pow_bits: u8,
    pub fri: u8,
}

/// A child of the cross step.
#[derive(Clone, Debug, Serialize, Deserialize, Hash, PartialEq, Eq)]
pub enum Src {
    /// Uni-STARK proof under `InSC`.  `alt`: the AIR of identical shape with
    /// `next.right = left - right`; `big`: 16 rows instead of 8; `bad`: wrong claimed last value.
    Uni { alt: bool, big: bool, bad: bool },
    /// Batch-STARK proof of a tiny arithmetic circuit under `InSC` (variants 0/1: equal table
    /// shape, different wiring; 2: longer).  `bad`: offered with the sibling's common data.
    Batch { variant: u8, bad: bool },
    /// Output of an earlier `Pre` step (falls back to `Batch{variant:0}` when there is none).
    Layer(u16),
}

#[derive(Clone, Debug, Serialize, Deserialize, Hash, PartialEq, Eq)]
pub enum CacheUse {
    None,
    /// `Some(&mut None)`: the slot is filled by this call and kept.
    Fresh,
    /// The slot kept from the previous cross step (behaves like `Fresh` when there is none).
    Reuse,
}

#[derive(Clone, Debug, Serialize, Deserialize, Hash, PartialEq, Eq)]
pub enum Step {
    /// Next layer under `InSC`; `prep`: `build_next_layer_prep` + `prove_next_layer(.., Some)`.
    Pre { input: Src, prep: bool },
    /// `split`: circuit assembled from the backend's trait methods + `prove_aggregation_layer_cross`
    /// instead of `build_and_prove_aggregation_layer_cross`.
    Cross { left: Src, right: Src, cache: CacheUse, split: bool },
    /// Next layer under `OutSC` over an output produced so far (index, `pick`-mapped).
    PostNext { input: u16, prep: bool },
    /// Same-configuration aggregation under `OutSC` of two outputs produced so far.
    /// `Reuse` offers the slot of the cross step.
    PostAgg { left: u16, right: u16, cache: CacheUse },
}

#[derive(Clone, Debug, Serialize, Deserialize, Hash)]
pub struct Case {
    /// 0 = KoalaBear (D4), 1 = BabyBear (D4)
    pub field: u8,
    /// 0 plain→plain, 1 plain→hiding, 2 hiding→plain, 3 hiding→hiding, 4 plain→arity-4 MMCS (KoalaBear)
    pub pair: u8,
    pub fin: FriSel,
    pub fout: FriSel,
    /// table packing preset of the layers (index into [`PACKINGS`])
    pub packing: u8,
    pub seed: u64,
    /// when a cache is involved and the call went through, run the uncached call too
    pub cross_check: bool,
    /// plain→arity-4 only.  `false`: the wiring of `recursive_aggregation --arity4` (the `Pre` and
    /// `Cross` steps use the plain backend, the steps on top the backend with the extra W32
    /// Poseidon2 table); `true`: every step uses the backend with the extra table.
    #[serde(default)]
    pub seam_extra_table: bool,
    pub steps: Vec<Step>,
}

pub const PAIRS: [&str; 5] = ["plain-plain", "plain-hiding", "hiding-plain", "hiding-hiding", "plain-arity4"];

pub const RULE: &str = "histories of 1-3 proving steps [Pre] Cross [Cross' [Cross again]] [PostNext|PostAgg] over \
build_and_prove_aggregation_layer_cross / prove_aggregation_layer_cross (children under InSC, output under OutSC) with \
(InSC, OutSC) in {plain,hiding}^2 (TwoAdicFriPcs / HidingFriPcs, KoalaBear D4 and BabyBear D4, Poseidon2 W16) or plain -> arity-4 MMCS \
(KoalaBear, W32 Poseidon2 leaf hash / 4-to-1 compression, the `--arity4` configuration of recursive_aggregation); independent \
FRI parameters per side: log_blowup 1-2, 0-1 commit PoW bits, 1-3 query PoW bits, max arity 1-3, 2-4 queries; plain->plain always \
differs in at least one); children: two uni-STARK AIRs of equal shape, three tiny batch-STARK circuits, next-layer outputs under \
InSC, optionally one invalid child; cache None | Fresh | Reuse of the kept slot; oracle: valid children + no/own/same-circuit \
cache => Ok and verify_all_tables Ok under OutSC with a verifier built from scratch, output accepted by the following step; \
invalid child => Err; cached verdict = uncached verdict; foreign cache => Err or verifying output, never a panic or a \
non-verifying output; non-trivial = a cross call was judged and >= 2 proving steps; distinct on (field, pair, step kinds, child kinds)";

pub const RULE_ENGINEERED: &str = "fixed list through the same interpreter and oracle for every configuration pair: same-circuit \
slot reuse followed by a next layer, swapped children and the AIR twin (equal fingerprint counters), a slot of a different \
circuit refilled and then offered to a same-configuration aggregation / to the first circuit again, a next-layer output as child, an invalid child on \
either side with and without a matching slot";

// ------------------------------------------------------------------------------------------
// The two uni-STARK AIRs (same width, same number of constraints, same degrees)
// ------------------------------------------------------------------------------------------

#[derive(Clone, Copy, Debug, PartialEq, Eq, Hash)]
pub enum UniAir {
    /// a' = b, b' = a + b
    Fib,
    /// a' = b, b' = a - b
    Alt,
}

impl<F> BaseAir<F> for UniAir {
    fn width(&self) -> usize {
        2
    }
    fn num_public_values(&self) -> usize {
        3
    }
}

impl<AB: AirBuilder> Air<AB> for UniAir {
    fn eval(&self, builder: &mut AB) {
        let main = builder.main();
        let pis = builder.public_values();
        let (a, b, x) = (pis[0], pis[1], pis[2]);
        let local: Vec<AB::Var> = main.current_slice().to_vec();
        let next: Vec<AB::Var> = main.next_slice().to_vec();
        let (l0, l1, n0, n1) = (local[0].clone(), local[1].clone(), next[0].clone(), next[1].clone());

        let mut first = builder.when_first_row();
        first.assert_eq(l0.clone(), a);
        first.assert_eq(l1.clone(), b);

        let mut tr = builder.when_transition();
        tr.assert_eq(l1.clone(), n0);
        match self {
            UniAir::Fib => tr.assert_eq(l0.into() + l1.clone().into(), n1),
            UniAir::Alt => tr.assert_eq(l0.into() - l1.clone().into(), n1),
        }
        builder.when_last_row().assert_eq(l1, x);
    }
}

fn uni_trace<F: PrimeField64>(air: UniAir, a: u64, b: u64, n: usize) -> (RowMajorMatrix<F>, Vec<F>) {
    let mut vals = Vec::with_capacity(2 * n);
    let (mut l, mut r) = (F::from_u64(a), F::from_u64(b));
    for _ in 0..n {
        vals.push(l);
        vals.push(r);
        let nr = match air {
            UniAir::Fib => l + r,
            UniAir::Alt => l - r,
        };
        l = r;
        r = nr;
    }
    let last = vals[2 * n - 1];
    (
        RowMajorMatrix::new(vals, 2),
        vec![F::from_u64(a), F::from_u64(b), last],
    )
}

// ------------------------------------------------------------------------------------------
// Presets and small helpers
// ------------------------------------------------------------------------------------------

/// (public lanes, alu lanes, horner k, recursion-optimised profile)
const PACKINGS: [(usize, usize, usize, bool); 6] = [
    (1, 4, 2, false),
    (1, 3, 4, false),
    (2, 2, 2, false),
    (1, 1, 3, false),
    (1, 4, 2, true),
    (2, 5, 2, false),
];
/// (max_log_arity, num_queries)
const FRIS: [(usize, usize); 4] = [(1, 2), (2, 3), (3, 2), (2, 4)];

fn params_of(preset: u8, log_blowup: usize) -> ProveNextLayerParams {
    let (p, a, k, opt) = PACKINGS[preset as usize % PACKINGS.len()];
    ProveNextLayerParams {
        table_packing: TablePacking::new(p, a)
            .with_horner_pack_k(k)
            .with_fri_params(0, log_blowup),
        constraint_profile: if opt {
            ConstraintProfile::RecursionOptimized
        } else {
            ConstraintProfile::Standard
        },
    }
}

fn splitmix(x: u64) -> u64 {
    let mut z = x.wrapping_add(0x9E3779B97F4A7C15);
    z = (z ^ (z >> 30)).wrapping_mul(0xBF58476D1CE4E5B9);
    z = (z ^ (z >> 27)).wrapping_mul(0x94D049BB133111EB);
    z ^ (z >> 31)
}

thread_local! {
    static POOL1: rayon::ThreadPool = rayon::ThreadPoolBuilder::new()
        .num_threads(1)
        .stack_size(32 << 20)
        .build()
        .expect("single-thread rayon pool");
}

/// Run `f` on a one-thread rayon pool (see the module comment: native ZK prover dead-lock).
fn serial_if<R: Send>(serial: bool, f: impl FnOnce() -> R + Send) -> R {
    if serial {
        POOL1.with(|p| p.install(f))
    } else {
        f()
    }
}

fn op_string<EF: Field>(op: &p3_circuit::Op<EF>) -> String {
    use p3_circuit::Op;
    match op {
        Op::Const { out, val } => format!("Const w{} = {:?}", out.0, val),
        Op::Public { out, public_pos } => format!("Public w{} = pub[{}]", out.0, public_pos),
        Op::Alu {
            kind,
            a,
            b,
            c,
            out,
            intermediate_out,
        } => format!(
            "{:?} a=w{} b=w{} c={:?} out=w{} io={:?}",
            kind,
            a.0,
            b.0,
            c.map(|x| x.0),
            out.0,
            intermediate_out.map(|x| x.0)
        ),
        Op::Hint { inputs, outputs, .. } => format!(
            "Hint in={:?} out={:?}",
            inputs.iter().map(|w| w.0).collect::<Vec<_>>(),
            outputs.iter().map(|w| w.0).collect::<Vec<_>>()
        ),
        Op::NonPrimitiveOpWithExecutor {
            inputs,
            outputs,
            executor,
            op_id,
        } => format!(
            "Npo#{} {:?} in={:?} out={:?}",
            op_id.0,
            executor.op_type(),
            inputs
                .iter()
                .map(|g| g.iter().map(|w| w.0).collect::<Vec<_>>())
                .collect::<Vec<_>>(),
            outputs
                .iter()
                .map(|g| g.iter().map(|w| w.0).collect::<Vec<_>>())
                .collect::<Vec<_>>()
        ),
    }
}

/// Digest of everything the preprocessed columns are a function of (the model's notion of
/// "the same circuit"; not the four counters of `aggregation_circuit_fingerprint`).
fn circuit_digest<EF: Field>(c: &Circuit<EF>) -> u64 {
    let mut h = std::collections::hash_map::DefaultHasher::new();
    c.witness_count.hash(&mut h);
    c.public_flat_len.hash(&mut h);
    c.private_flat_len.hash(&mut h);
    for w in &c.public_rows {
        w.0.hash(&mut h);
    }
    for w in &c.private_input_rows {
        w.0.hash(&mut h);
    }
    for op in &c.ops {
        op_string(op).hash(&mut h);
    }
    h.finish()
}

fn counters<EF>(c: &Circuit<EF>) -> (u32, usize, usize, usize) {
    (c.witness_count, c.public_flat_len, c.private_flat_len, c.ops.len())
}

// ------------------------------------------------------------------------------------------
// Outcome of a history
// ------------------------------------------------------------------------------------------

#[derive(Default)]
pub struct Outcome {
    pub classes: Vec<String>,
    /// step-kind / cache-kind sequence
    pub kinds: Vec<String>,
    /// child kinds of the cross steps
    pub children: Vec<String>,
    pub proving_steps: usize,
    pub cross_judged: usize,
    pub reuses: usize,
    /// first violation that is not a known finding
    pub fail: Option<(String, String)>,
    /// first violation listed as known (the history continues past it)
    pub known_fail: Option<(String, String)>,
    pub timings: Vec<(String, f64)>,
}

enum Kind {
    Plain,
    Fresh,
    Same,
    Foreign { fp_equal: bool },
}

// ------------------------------------------------------------------------------------------
// Configurations (same shape as `ConfigWithFriParams` / `ConfigWithFriParamsZk` of
// `recursion/examples/common/mod.rs`)
// ------------------------------------------------------------------------------------------

/// Invoked inside a field-types module: `F`, `Challenge`, `Challenger`, `RecIn`, `MyHash`, ... are
/// resolved there.
macro_rules! impl_cfg {
    ($Cfg:ident, $Sc:ty, $PcsT:ty, $Inner:ty, $set_priv:ident, $default_perm:path, $p2circ:ty) => {
        #[derive(Clone)]
        pub struct $Cfg {
            pub config: Arc<$Sc>,
            pub fri_verifier_params: FriVerifierParams,
        }

        impl StarkGenericConfig for $Cfg {
            type Challenge = Challenge;
            type Challenger = Challenger;
            type Pcs = $PcsT;
            fn pcs(&self) -> &$PcsT {
                self.config.pcs()
            }
            fn initialise_challenger(&self) -> Challenger {
                self.config.initialise_challenger()
            }
        }

        impl FriRecursionConfig for $Cfg
        where
            $PcsT: RecursivePcs<
                    $Cfg,
                    RecIn,
                    $Inner,
                    MerkleCapTargets<F, DIGEST_ELEMS>,
                    <$PcsT as Pcs<Challenge, Challenger>>::Domain,
                >,
        {
            type Commitment = MerkleCapTargets<F, DIGEST_ELEMS>;
            type InputProof = RecIn;
            type OpeningProof = $Inner;
            type RawOpeningProof = <$PcsT as Pcs<Challenge, Challenger>>::Proof;
            const DIGEST_ELEMS: usize = 8;

            fn with_fri_opening_proof<'a, A, R>(
                prev: &RecursionInput<'a, Self, A>,
                f: impl FnOnce(&Self::RawOpeningProof) -> R,
            ) -> R
            where
                A: RecursiveAir<Val<Self>, Self::Challenge, LogUpGadget>,
            {
                match prev {
                    RecursionInput::UniStark { proof, .. } => f(&proof.opening_proof),
                    RecursionInput::BatchStark { proof, .. } => f(&proof.proof.opening_proof),
                }
            }

            fn prepare_circuit_for_verification(
                &self,
                circuit: &mut CircuitBuilder<Challenge>,
            ) -> Result<(), VerificationError> {
                let perm = $default_perm();
                circuit.enable_poseidon2_perm::<$p2circ, _>(
                    generate_poseidon2_trace::<Challenge, $p2circ>,
                    perm,
                );
                circuit.enable_recompose::<F>(generate_recompose_trace::<F, Challenge>);
                Ok(())
            }

            fn pcs_verifier_params(
                &self,
            ) -> &<$PcsT as RecursivePcs<
                $Cfg,
                RecIn,
                $Inner,
                MerkleCapTargets<F, DIGEST_ELEMS>,
                <$PcsT as Pcs<Challenge, Challenger>>::Domain,
            >>::VerifierParams {
                &self.fri_verifier_params
            }

            fn set_fri_private_data(
                runner: &mut CircuitRunner<'_, Challenge>,
                op_ids: &[NonPrimitiveOpId],
                opening_proof: &Self::RawOpeningProof,
            ) -> Result<(), &'static str> {
                $set_priv::<F, Challenge, ChallengeMmcs, MyMmcs, MyHash, MyCompress, DIGEST_ELEMS>(
                    runner,
                    op_ids,
                    opening_proof,
                    P2,
                )
            }
        }
    };
}

macro_rules! field_types {
    ($m:ident, $fname:expr, $F:ty, $Perm:ty, $default_perm:path, $p2cfg:expr, $p2circ:ty) => {
        pub mod $m {
            use super::*;

            pub type F = $F;
            pub const D: usize = 4;
            pub const FIELD_NAME: &str = $fname;
            const WIDTH: usize = 16;
            const RATE: usize = 8;
            pub const DIGEST_ELEMS: usize = 8;
            pub const P2: Poseidon2Config = $p2cfg;

            pub type Challenge = BinomialExtensionField<F, D>;
            pub type Dft = Radix2DitParallel<F>;
            pub type Perm = $Perm;
            pub type MyHash = PaddingFreeSponge<Perm, WIDTH, RATE, DIGEST_ELEMS>;
            pub type MyCompress = TruncatedPermutation<Perm, 2, DIGEST_ELEMS, WIDTH>;
            pub type MyMmcs = MerkleTreeMmcs<
                <F as Field>::Packing,
                <F as Field>::Packing,
                MyHash,
                MyCompress,
                2,
                DIGEST_ELEMS,
            >;
            pub type ChallengeMmcs = ExtensionMmcs<F, Challenge, MyMmcs>;
            pub type Challenger = DuplexChallenger<F, Perm, WIDTH, RATE>;
            pub type RecVal = RecValMmcs<F, DIGEST_ELEMS, MyHash, MyCompress>;
            pub type RecExt = RecExtensionValMmcs<F, Challenge, DIGEST_ELEMS, RecVal>;
            pub type RecIn = InputProofTargets<F, Challenge, RecVal>;

            pub type PcsP = TwoAdicFriPcs<F, Dft, MyMmcs, ChallengeMmcs>;
            pub type ScP = StarkConfig<PcsP, Challenge, Challenger>;
            pub type InnerP = FriProofTargets<F, Challenge, RecExt, RecIn, Witness<F>>;

            pub type PcsH = HidingFriPcs<F, Dft, MyMmcs, ChallengeMmcs, SmallRng>;
            pub type ScH = StarkConfig<PcsH, Challenge, Challenger>;
            pub type InnerH = HidingFriProofTargets<F, Challenge, RecExt, RecIn, Witness<F>>;

            impl_cfg!(CfgP, ScP, PcsP, InnerP, set_fri_mmcs_private_data, $default_perm, $p2circ);
            impl_cfg!(CfgH, ScH, PcsH, InnerH, set_hiding_fri_mmcs_private_data, $default_perm, $p2circ);

            pub type Backend = FriRecursionBackendForExt<4, 16, 8, Poseidon2Config>;

            pub fn backend() -> Backend {
                FriRecursionBackend::<16, 8, Poseidon2Config>::new(P2).for_extension_degree::<4>()
            }

            fn parts(sel: &FriSel) -> (MyMmcs, FriParameters<ChallengeMmcs>, Perm, FriVerifierParams) {
                let (max_log_arity, num_queries) = FRIS[sel.fri as usize % FRIS.len()];
                let perm = $default_perm();
                let hash = MyHash::new(perm.clone());
                let compress = MyCompress::new(perm.clone());
                let val_mmcs = MyMmcs::new(hash, compress, 0);
                let challenge_mmcs = ChallengeMmcs::new(val_mmcs.clone());
                let fri_params = FriParameters {
                    max_log_arity,
                    log_blowup: sel.log_blowup as usize,
                    log_final_poly_len: 0,
                    num_queries,
                    commit_proof_of_work_bits: sel.commit_pow_bits as usize,
                    query_proof_of_work_bits: sel.query_pow_bits as usize,
                    mmcs: challenge_mmcs,
                };
                let vp = FriVerifierParams::with_mmcs(
                    sel.log_blowup as usize,
                    0,
                    sel.commit_pow_bits as usize,
                    sel.query_pow_bits as usize,
                    P2,
                );
                (val_mmcs, fri_params, perm, vp)
            }

            pub fn make_p(sel: &FriSel, _rng_seed: u64) -> CfgP {
                let (val_mmcs, fri_params, perm, vp) = parts(sel);
                let pcs = PcsP::new(Dft::default(), val_mmcs, fri_params);
                CfgP {
                    config: Arc::new(ScP::new(pcs, Challenger::new(perm))),
                    fri_verifier_params: vp,
                }
            }

            pub fn make_h(sel: &FriSel, rng_seed: u64) -> CfgH {
                let (val_mmcs, fri_params, perm, vp) = parts(sel);
                let pcs = PcsH::new(
                    Dft::default(),
                    val_mmcs,
                    fri_params,
                    2,
                    SmallRng::seed_from_u64(rng_seed),
                );
                CfgH {
                    config: Arc::new(ScH::new(pcs, Challenger::new(perm))),
                    fri_verifier_params: vp,
                }
            }
        }
    };
}

field_types!(
    kbt,
    "KoalaBear-D4",
    p3_koala_bear::KoalaBear,
    p3_koala_bear::Poseidon2KoalaBear<16>,
    p3_koala_bear::default_koalabear_poseidon2_16,
    Poseidon2Config::KOALA_BEAR_D4_W16,
    p3_poseidon2_circuit_air::KoalaBearD4Width16
);

field_types!(
    bbt,
    "BabyBear-D4",
    p3_baby_bear::BabyBear,
    p3_baby_bear::Poseidon2BabyBear<16>,
    p3_baby_bear::default_babybear_poseidon2_16,
    Poseidon2Config::BABY_BEAR_D4_W16,
    p3_poseidon2_circuit_air::BabyBearD4Width16
);

// ------------------------------------------------------------------------------------------
// KoalaBear: the arity-4 output configuration of `recursive_aggregation --arity4`
// (W16 challenger, W32 Poseidon2 leaf hash and 4-to-1 compression for the MMCS)
// ------------------------------------------------------------------------------------------

pub mod kba4 {
    pub use super::kbt::*;
    use super::*;

    pub const P2_W32: Poseidon2Config = Poseidon2Config::KOALA_BEAR_D4_W32;
    type Perm32 = p3_koala_bear::Poseidon2KoalaBear<32>;
    type Hash4 = PaddingFreeSponge<Perm32, 32, 24, DIGEST_ELEMS>;
    type Compress4 = TruncatedPermutation<Perm32, 4, DIGEST_ELEMS, 32>;
    type Mmcs4 = MerkleTreeMmcs<<F as Field>::Packing, <F as Field>::Packing, Hash4, Compress4, 4, DIGEST_ELEMS>;
    type ChallengeMmcs4 = ExtensionMmcs<F, Challenge, Mmcs4>;
    pub type PcsA = TwoAdicFriPcs<F, Dft, Mmcs4, ChallengeMmcs4>;
    pub type ScA = StarkConfig<PcsA, Challenge, Challenger>;
    type RecVal4 = RecValMmcsArity4<F, DIGEST_ELEMS, Hash4, Compress4>;
    type RecIn4 = InputProofTargets<F, Challenge, RecVal4>;
    type InnerA =
        FriProofTargets<F, Challenge, RecExtensionValMmcsArity4<F, Challenge, DIGEST_ELEMS, RecVal4>, RecIn4, Witness<F>>;

    #[derive(Clone)]
    pub struct CfgA {
        pub config: Arc<ScA>,
        pub fri_verifier_params: FriVerifierParams,
    }

    impl StarkGenericConfig for CfgA {
        type Challenge = Challenge;
        type Challenger = Challenger;
        type Pcs = PcsA;
        fn pcs(&self) -> &PcsA {
            self.config.pcs()
        }
        fn initialise_challenger(&self) -> Challenger {
            self.config.initialise_challenger()
        }
    }

    impl FriRecursionConfig for CfgA
    where
        PcsA: RecursivePcs<CfgA, RecIn4, InnerA, MerkleCapTargets<F, DIGEST_ELEMS>, <PcsA as Pcs<Challenge, Challenger>>::Domain>,
    {
        type Commitment = MerkleCapTargets<F, DIGEST_ELEMS>;
        type InputProof = RecIn4;
        type OpeningProof = InnerA;
        type RawOpeningProof = <PcsA as Pcs<Challenge, Challenger>>::Proof;
        const DIGEST_ELEMS: usize = 8;

        fn with_fri_opening_proof<'a, A, R>(
            prev: &RecursionInput<'a, Self, A>,
            f: impl FnOnce(&Self::RawOpeningProof) -> R,
        ) -> R
        where
            A: RecursiveAir<Val<Self>, Self::Challenge, LogUpGadget>,
        {
            match prev {
                RecursionInput::UniStark { proof, .. } => f(&proof.opening_proof),
                RecursionInput::BatchStark { proof, .. } => f(&proof.proof.opening_proof),
            }
        }

        fn prepare_circuit_for_verification(
            &self,
            circuit: &mut CircuitBuilder<Challenge>,
        ) -> Result<(), VerificationError> {
            circuit.enable_poseidon2_perm::<p3_poseidon2_circuit_air::KoalaBearD4Width16, _>(
                generate_poseidon2_trace::<Challenge, p3_poseidon2_circuit_air::KoalaBearD4Width16>,
                p3_koala_bear::default_koalabear_poseidon2_16(),
            );
            circuit.enable_poseidon2_perm_width_32::<p3_poseidon2_circuit_air::KoalaBearD4Width32, _>(
                generate_poseidon2_trace::<Challenge, p3_poseidon2_circuit_air::KoalaBearD4Width32>,
                p3_koala_bear::default_koalabear_poseidon2_32(),
            );
            circuit.enable_recompose::<F>(generate_recompose_trace::<F, Challenge>);
            Ok(())
        }

        fn pcs_verifier_params(
            &self,
        ) -> &<PcsA as RecursivePcs<
            CfgA,
            RecIn4,
            InnerA,
            MerkleCapTargets<F, DIGEST_ELEMS>,
            <PcsA as Pcs<Challenge, Challenger>>::Domain,
        >>::VerifierParams {
            &self.fri_verifier_params
        }

        fn set_fri_private_data(
            runner: &mut CircuitRunner<'_, Challenge>,
            op_ids: &[NonPrimitiveOpId],
            opening_proof: &Self::RawOpeningProof,
        ) -> Result<(), &'static str> {
            set_fri_mmcs_private_data_arity4::<F, Challenge, ChallengeMmcs4, Mmcs4, DIGEST_ELEMS>(
                runner,
                op_ids,
                opening_proof,
                P2_W32,
            )
        }
    }

    pub fn make_a(sel: &FriSel, _rng_seed: u64) -> CfgA {
        let (max_log_arity, num_queries) = FRIS[sel.fri as usize % FRIS.len()];
        let perm32 = p3_koala_bear::default_koalabear_poseidon2_32();
        let val_mmcs = Mmcs4::new(Hash4::new(perm32.clone()), Compress4::new(perm32), 0);
        let fri_params = FriParameters {
            max_log_arity,
            log_blowup: sel.log_blowup as usize,
            log_final_poly_len: 0,
            num_queries,
            commit_proof_of_work_bits: sel.commit_pow_bits as usize,
            query_proof_of_work_bits: sel.query_pow_bits as usize,
            mmcs: ChallengeMmcs4::new(val_mmcs.clone()),
        };
        let pcs = PcsA::new(Dft::default(), val_mmcs, fri_params);
        CfgA {
            config: Arc::new(ScA::new(pcs, Challenger::new(p3_koala_bear::default_koalabear_poseidon2_16()))),
            fri_verifier_params: FriVerifierParams::with_mmcs(
                sel.log_blowup as usize,
                0,
                sel.commit_pow_bits as usize,
                sel.query_pow_bits as usize,
                P2_W32,
            ),
        }
    }

    /// Backend of the steps that verify arity-4 proofs in-circuit (extra W32 Poseidon2 table).
    pub fn backend_a4() -> Backend {
        FriRecursionBackend::<16, 8, Poseidon2Config>::new(P2)
            .with_extra_poseidon2_table(P2_W32)
            .for_extension_degree::<4>()
    }
}

// ------------------------------------------------------------------------------------------
// Per (field, configuration pair) machinery — part A: types, base statements, model, judge
// ------------------------------------------------------------------------------------------

macro_rules! verify_fn {
    ($name:ident, $Cfg:ty) => {
        /// Verifier assembled from scratch (nothing taken from the call under test).
        fn $name(cfg: &$Cfg, out: &RecursionOutput<$Cfg>, extra: Option<Poseidon2Config>) -> Result<(), String> {
            let mut v = BatchStarkProver::new(cfg.clone());
            v.register_poseidon2_table::<D>(P2);
            if let Some(c) = extra {
                v.register_poseidon2_table::<D>(c);
            }
            v.register_recompose_table::<D>(P2.d() != D);
            match catch(|| v.verify_all_tables::<Challenge>(&out.0)) {
                Ok(Ok(())) => Ok(()),
                Ok(Err(e)) => Err(format!("{e:?}")),
                Err(p) => Err(format!("verifier panicked: {p}")),
            }
        }
    };
}

macro_rules! pair_a {
    ($tm:ident, $pair_name:expr, $In:ident, $Out:ident, $mk_in:ident, $mk_out:ident, $in_h:expr, $out_h:expr, $out_extra:expr) => {
        use super::$tm::*;
        use super::*;

        pub type InC = $In;
        pub type OutC = $Out;
        pub const PAIR: &str = $pair_name;
        pub const IN_HIDING: bool = $in_h;
        pub const OUT_HIDING: bool = $out_h;

        type InInput<'a> = RecursionInput<'a, InC, UniAir>;
        type OutInput<'a> = RecursionInput<'a, OutC, UniAir>;
        type VResIn = <Backend as PcsRecursionBackend<InC, UniAir, 4>>::VerifierResult;
        type VResOut = <Backend as PcsRecursionBackend<OutC, UniAir, 4>>::VerifierResult;

        verify_fn!(verify_in, InC);
        verify_fn!(verify_out, OutC);
        const OUT_EXTRA: Option<Poseidon2Config> = $out_extra;

        struct UniBase {
            proof: Proof<InC>,
            pis: Vec<F>,
            air: UniAir,
            stmt: String,
        }

        struct BatchBase {
            out: RecursionOutput<InC>,
            stmt: String,
        }

        struct InLayer {
            out: RecursionOutput<InC>,
            stmt: String,
        }

        struct OutRec {
            out: RecursionOutput<OutC>,
            stmt: String,
        }

        fn prove_uni(cfg: &InC, case: &Case, alt: bool, big: bool) -> UniBase {
            let air = if alt { UniAir::Alt } else { UniAir::Fib };
            let s = splitmix(case.seed ^ ((alt as u64) << 1 | big as u64));
            let (a, b) = (s % 1000, (s >> 20) % 1000);
            let n = if big { 16 } else { 8 };
            let (trace, pis) = uni_trace::<F>(air, a, b, n);
            let proof = p3_uni_stark::prove(cfg, &air, trace, &pis);
            p3_uni_stark::verify(cfg, &air, &proof, &pis).expect("base uni-STARK proof must verify natively");
            UniBase {
                proof,
                pis,
                air,
                stmt: format!("Uni({air:?},n={n})"),
            }
        }

        /// acc = x0; acc = acc * c_i + x_{i mod 2} ... ; connect(acc, expected)
        fn prove_batch(cfg: &InC, case: &Case, variant: u8) -> BatchBase {
            let n_ops = if variant >= 2 { 9 } else { 3 };
            let s0 = splitmix(case.seed ^ 0xBA7C4 ^ ((variant as u64) << 8));
            let mut builder = CircuitBuilder::<F>::new();
            let x0 = builder.alloc_public_input("x0");
            let x1 = builder.alloc_public_input("x1");
            let expected = builder.alloc_public_input("expected");
            let (v0, v1) = (F::from_u64(s0 % 997 + 1), F::from_u64((s0 >> 24) % 997 + 1));
            let mut acc = x0;
            let mut val = v0;
            for i in 0..n_ops {
                let cv = F::from_u64(splitmix(s0 ^ (i as u64 + 1)) % 65521 + 2);
                let c = builder.alloc_const(cv, "c");
                let m = builder.mul(acc, c);
                // variant 1: other wiring (other preprocessed commitment), same table shape
                let flip = (variant == 1) as usize;
                let (xi, xv) = if (i + flip) % 2 == 0 { (x1, v1) } else { (x0, v0) };
                acc = builder.add(m, xi);
                val = val * cv + xv;
            }
            builder.connect(acc, expected);
            let circuit = builder.build().expect("base circuit builds");
            let packing = if variant >= 2 {
                TablePacking::new(1 + (case.seed % 2) as usize, 1 + ((case.seed >> 1) % 3) as usize)
                    .with_horner_pack_k(3 + ((case.seed >> 3) % 2) as usize)
            } else {
                TablePacking::new(1, 1)
            }
            .with_fri_params(0, case.fin.log_blowup as usize);
            let (airs_degrees, prim, non_prim) = get_airs_and_degrees_with_prep::<InC, F, 1>(
                &circuit,
                &packing,
                &[],
                &[],
                ConstraintProfile::Standard,
            )
            .expect("base circuit preprocesses");
            let (airs, degrees): (Vec<_>, Vec<usize>) = airs_degrees.into_iter().unzip();
            let ext_degrees: Vec<usize> = degrees.iter().map(|&d| d + cfg.is_zk()).collect();
            let mut runner = circuit.runner();
            runner.set_public_inputs(&[v0, v1, val]).expect("public inputs");
            let traces = runner.run().expect("base circuit runs");
            let prover_data = ProverData::from_airs_and_degrees(cfg, &airs, &ext_degrees);
            let cpd = CircuitProverData::new(prover_data, prim, non_prim);
            let prover = BatchStarkProver::new(cfg.clone()).with_table_packing(packing);
            let proof = prover.prove_all_tables(&traces, &cpd).expect("base batch proof");
            prover
                .verify_all_tables::<F>(&proof)
                .expect("base batch-STARK proof must verify natively");
            BatchBase {
                out: RecursionOutput(proof, Rc::new(cpd)),
                stmt: format!("Batch(v{variant})"),
            }
        }

        /// A cross child resolved against the current state.
        #[derive(Clone, Debug)]
        enum RSrc {
            Uni { key: (bool, bool), bad: bool },
            Batch { key: u8, bad_with: Option<u8> },
            Layer(usize),
        }

        struct State<'c> {
            case: &'c Case,
            backend: Backend,
            /// backend of the steps that verify `OutSC` proofs in-circuit
            post_backend: Backend,
            /// extra Poseidon2 table the native verifier of `Pre` outputs registers
            in_extra: Option<Poseidon2Config>,
            in_cfg: InC,
            out_cfg: OutC,
            /// configuration objects of the native verifier (own RNG seeds)
            in_vcfg: InC,
            out_vcfg: OutC,
            unis: BTreeMap<(bool, bool), UniBase>,
            batches: BTreeMap<u8, BatchBase>,
            in_layers: Vec<InLayer>,
            outs: Vec<OutRec>,
            /// the slot kept between cross steps and the model of what it was prepared for
            slot: Option<AggregationPrepCache<OutC>>,
            slot_model: Option<(u64, (u32, usize, usize, usize))>,
            o: Outcome,
        }

        impl<'c> State<'c> {
            fn params_in(&self) -> ProveNextLayerParams {
                params_of(self.case.packing, self.case.fin.log_blowup as usize)
            }
            fn params_out(&self) -> ProveNextLayerParams {
                params_of(self.case.packing, self.case.fout.log_blowup as usize)
            }

            fn ensure_batch(&mut self, v: u8) {
                if !self.batches.contains_key(&v) {
                    let b = prove_batch(&self.in_cfg, self.case, v);
                    self.batches.insert(v, b);
                }
            }

            fn resolve(&mut self, s: &Src) -> RSrc {
                match s {
                    Src::Uni { alt, big, bad } => {
                        let key = (*alt, *big);
                        if !self.unis.contains_key(&key) {
                            let b = prove_uni(&self.in_cfg, self.case, *alt, *big);
                            self.unis.insert(key, b);
                        }
                        RSrc::Uni { key, bad: *bad }
                    }
                    Src::Batch { variant, bad } => {
                        let v = variant % 3;
                        self.ensure_batch(v);
                        let bad_with = if *bad {
                            let other = if v == 0 { 1 } else { 0 };
                            self.ensure_batch(other);
                            Some(other)
                        } else {
                            None
                        };
                        RSrc::Batch { key: v, bad_with }
                    }
                    Src::Layer(i) => {
                        if self.in_layers.is_empty() {
                            self.ensure_batch(0);
                            RSrc::Batch { key: 0, bad_with: None }
                        } else {
                            RSrc::Layer(pick(*i, self.in_layers.len()))
                        }
                    }
                }
            }

            fn valid(r: &RSrc) -> bool {
                match r {
                    RSrc::Uni { bad, .. } => !*bad,
                    RSrc::Batch { bad_with, .. } => bad_with.is_none(),
                    RSrc::Layer(_) => true,
                }
            }

            fn stmt(&self, r: &RSrc) -> String {
                match r {
                    RSrc::Uni { key, bad } => {
                        format!("{}{}", self.unis[key].stmt, if *bad { "!wrong-claim" } else { "" })
                    }
                    RSrc::Batch { key, bad_with } => format!(
                        "{}{}",
                        self.batches[key].stmt,
                        if bad_with.is_some() { "!foreign-common" } else { "" }
                    ),
                    RSrc::Layer(i) => self.in_layers[*i].stmt.clone(),
                }
            }

            fn src_class(r: &RSrc) -> &'static str {
                match r {
                    RSrc::Uni { bad: false, .. } => "uni",
                    RSrc::Uni { bad: true, .. } => "uni-bad",
                    RSrc::Batch { bad_with: None, .. } => "batch",
                    RSrc::Batch { .. } => "batch-bad",
                    RSrc::Layer(_) => "layer",
                }
            }

            fn input<'a>(&'a self, r: &RSrc) -> InInput<'a> {
                match r {
                    RSrc::Uni { key, bad } => {
                        let u = &self.unis[key];
                        let mut pis = u.pis.clone();
                        if *bad {
                            pis[2] += F::ONE;
                        }
                        RecursionInput::UniStark {
                            proof: &u.proof,
                            air: &u.air,
                            public_inputs: pis,
                            preprocessed_commit: None,
                        }
                    }
                    RSrc::Batch { key, bad_with } => {
                        let b = &self.batches[key];
                        match bad_with {
                            None => b.out.into_recursion_input::<UniAir>(),
                            Some(other) => {
                                let o = &self.batches[other];
                                let n = b.out.0.proof.opened_values.instances.len();
                                RecursionInput::BatchStark {
                                    proof: &b.out.0,
                                    common_data: &o.out.0.stark_common,
                                    table_public_inputs: vec![vec![]; n],
                                }
                            }
                        }
                    }
                    RSrc::Layer(i) => self.in_layers[*i].out.into_recursion_input::<UniAir>(),
                }
            }

            fn out_input<'a>(&'a self, i: usize) -> OutInput<'a> {
                self.outs[i].out.into_recursion_input::<UniAir>()
            }

            fn violation(&mut self, sig: String, msg: String, ctx: Option<&Ctx>) {
                let known = ctx.map(|c| c.is_known(&sig)).unwrap_or(false);
                if known {
                    self.o.classes.push(format!("known:{sig}"));
                    if self.o.known_fail.is_none() {
                        self.o.known_fail = Some((sig, msg));
                    }
                } else if self.o.fail.is_none() {
                    self.o.fail = Some((sig, msg));
                }
            }

            /// Judge one proving call.  `verdict` is the native verification of an `Ok` output.
            /// Returns the output when it is to be kept.
            #[allow(clippy::too_many_arguments)]
            fn judge<T>(
                &mut self,
                what: &str,
                kind: &Kind,
                inputs_valid: bool,
                res: Result<Result<T, VerificationError>, String>,
                verdict: Option<Result<(), String>>,
                stmt: &str,
                ctx: Option<&Ctx>,
            ) -> Option<T> {
                let ktag = match kind {
                    Kind::Plain => "plain",
                    Kind::Fresh => "fresh-cache",
                    Kind::Same => "same-circuit-cache",
                    Kind::Foreign { fp_equal: true } => "foreign-cache/fp-equal",
                    Kind::Foreign { fp_equal: false } => "foreign-cache/fp-differs",
                };
                let vtag = if inputs_valid { "valid-inputs" } else { "invalid-input" };
                let vs = if inputs_valid { "" } else { "/invalid-input" };
                let pre = format!("C17/cross/{PAIR}/{what}/{ktag}");
                match res {
                    Err(p) => {
                        self.o.classes.push(format!("outcome:{what}/{ktag}/{vtag}/panic"));
                        self.violation(
                            format!("{pre}{vs}/panic"),
                            format!("{what} over {stmt} panicked: {}", sig_of_panic(&p)),
                            ctx,
                        );
                        None
                    }
                    Ok(Err(e)) => {
                        self.o.classes.push(format!("outcome:{what}/{ktag}/{vtag}/err"));
                        let refused_ok = !inputs_valid || matches!(kind, Kind::Foreign { .. });
                        let es = format!("{e:?}");
                        if inputs_valid && es.contains("non-primitive table count mismatch") {
                            // one root cause, whatever the kind of the step and its cache discipline
                            let stage = if what.starts_with("post") { "post" } else { what };
                            self.violation(
                                format!("C17/cross/{PAIR}/{stage}/refused/npo-table-count-mismatch"),
                                format!("{what} over {stmt} returned Err: {es}"),
                                ctx,
                            );
                        } else if !refused_ok {
                            self.violation(
                                format!("{pre}/refused"),
                                format!("{what} over {stmt} returned Err: {es}"),
                                ctx,
                            );
                        }
                        None
                    }
                    Ok(Ok(out)) => match verdict.expect("verdict for an Ok output") {
                        Ok(()) if inputs_valid => {
                            self.o.classes.push(format!("outcome:{what}/{ktag}/{vtag}/ok+verified"));
                            Some(out)
                        }
                        Ok(()) => {
                            self.o.classes.push(format!("outcome:{what}/{ktag}/{vtag}/ok+verified"));
                            self.violation(
                                format!("{pre}/invalid-input/accepted"),
                                format!("{what} over {stmt} (an invalid input) returned a proof that verifies"),
                                ctx,
                            );
                            None
                        }
                        Err(e) => {
                            self.o.classes.push(format!("outcome:{what}/{ktag}/{vtag}/ok+unverifiable"));
                            self.violation(
                                format!("{pre}{vs}/output-fails-verification"),
                                format!(
                                    "{what} over {stmt} returned Ok but verify_all_tables rejects the output: {}",
                                    e.chars().take(300).collect::<String>()
                                ),
                                ctx,
                            );
                            None
                        }
                    },
                }
            }
        }
    };
}

// ------------------------------------------------------------------------------------------
// Per (field, configuration pair) machinery — part B: the steps
// ------------------------------------------------------------------------------------------

macro_rules! pair_b {
    ($mk_in:ident, $mk_out:ident, $seam_backend:expr, $post_backend:expr) => {
        impl<'c> State<'c> {
            /// Next layer under `InSC` over a base statement.
            fn pre(&mut self, input: &Src, prep: bool, ctx: Option<&Ctx>) {
                let t0 = std::time::Instant::now();
                let r = self.resolve(input);
                let valid = Self::valid(&r);
                let stmt = format!("NLin({})", self.stmt(&r));
                let params = self.params_in();
                self.o.classes.push(format!("pre-input:{}", Self::src_class(&r)));
                self.o.proving_steps += 1;
                if !prep {
                    self.o.kinds.push("PRE:none".into());
                    let res = {
                        let inp = self.input(&r);
                        let (cfg, backend) = (&self.in_cfg, &self.backend);
                        catch(|| build_and_prove_next_layer::<InC, UniAir, Backend, D>(&inp, cfg, backend, &params))
                    };
                    let verdict = match &res {
                        Ok(Ok(out)) => Some(verify_in(&self.in_vcfg, out, self.in_extra)),
                        _ => None,
                    };
                    if let Some(out) = self.judge("pre", &Kind::Plain, valid, res, verdict, &stmt, ctx) {
                        self.in_layers.push(InLayer { out, stmt });
                    }
                    self.o.timings.push(("PRE:none".into(), t0.elapsed().as_secs_f64()));
                    return;
                }
                let built = {
                    let inp = self.input(&r);
                    let (cfg, backend) = (&self.in_cfg, &self.backend);
                    catch(|| build_next_layer_circuit::<InC, UniAir, Backend, D>(&inp, cfg, backend))
                };
                let (circuit, vres): (Circuit<Challenge>, VResIn) = match built {
                    Ok(Ok(x)) => x,
                    Ok(Err(_)) if !valid => {
                        self.o.kinds.push("PRE:build-refused-invalid".into());
                        self.o.classes.push("outcome:pre/build/invalid-input/err".into());
                        return;
                    }
                    Ok(Err(e)) => {
                        self.o.kinds.push("PRE:build-err".into());
                        self.violation(
                            format!("C17/cross/{PAIR}/pre/build-circuit/refused"),
                            format!("build_next_layer_circuit over {stmt} returned Err: {e:?}"),
                            ctx,
                        );
                        return;
                    }
                    Err(p) => {
                        self.o.kinds.push("PRE:build-panic".into());
                        self.violation(
                            format!("C17/cross/{PAIR}/pre/build-circuit/panic"),
                            format!("build_next_layer_circuit over {stmt} panicked: {}", sig_of_panic(&p)),
                            ctx,
                        );
                        return;
                    }
                };
                let prepared = {
                    let (cfg, backend) = (&self.in_cfg, &self.backend);
                    catch(|| build_next_layer_prep::<InC, UniAir, Backend, D>(&circuit, cfg, backend, &params))
                };
                let prepared = match prepared {
                    Ok(Ok(p)) => p,
                    other => {
                        let m = match other {
                            Ok(Err(e)) => format!("Err: {e:?}"),
                            Err(p) => format!("panic: {}", sig_of_panic(&p)),
                            _ => unreachable!(),
                        };
                        self.o.kinds.push("PRE:prep-failed".into());
                        self.violation(
                            format!("C17/cross/{PAIR}/pre/build-prep/failed"),
                            format!("build_next_layer_prep for {stmt}: {m}"),
                            ctx,
                        );
                        return;
                    }
                };
                self.o.kinds.push("PRE:fresh".into());
                let run = |prep: Option<&p3_recursion::NextLayerPrepCache<InC>>| {
                    let inp = self.input(&r);
                    let (cfg, backend) = (&self.in_cfg, &self.backend);
                    catch(|| prove_next_layer::<InC, UniAir, Backend, D>(&inp, &circuit, &vres, cfg, backend, &params, prep))
                };
                let res = run(Some(&prepared));
                let res2 = if self.case.cross_check { Some(run(None)) } else { None };
                let verdict = match &res {
                    Ok(Ok(out)) => Some(verify_in(&self.in_vcfg, out, self.in_extra)),
                    _ => None,
                };
                let kept = self.judge("pre", &Kind::Fresh, valid, res, verdict, &stmt, ctx);
                if let Some(res2) = res2 {
                    let verdict2 = match &res2 {
                        Ok(Ok(out)) => Some(verify_in(&self.in_vcfg, out, self.in_extra)),
                        _ => None,
                    };
                    self.o.classes.push("cross-check:uncached-rerun".into());
                    let un = self.judge("pre", &Kind::Plain, valid, res2, verdict2, &stmt, ctx);
                    if un.is_some() != kept.is_some() {
                        self.violation(
                            format!("C17/cross/{PAIR}/pre/fresh-cache/verdict-differs-from-uncached"),
                            format!("{stmt}: cached call verifying = {}, uncached = {}", kept.is_some(), un.is_some()),
                            ctx,
                        );
                    }
                }
                if let Some(out) = kept {
                    self.in_layers.push(InLayer { out, stmt });
                }
                self.o.timings.push(("PRE:fresh".into(), t0.elapsed().as_secs_f64()));
            }

            /// The (private) `build_aggregation_layer_circuit` under `InSC`, re-assembled from the
            /// backend's public trait methods.
            fn build_cross(
                &self,
                left: &InInput<'_>,
                right: &InInput<'_>,
            ) -> Result<(Circuit<Challenge>, VResIn, VResIn), VerificationError> {
                let mut cb = CircuitBuilder::new();
                let (cfg, backend) = (&self.in_cfg, &self.backend);
                <Backend as PcsRecursionBackend<InC, UniAir, D>>::prepare_circuit(backend, cfg, &mut cb)?;
                <Backend as PcsRecursionBackend<InC, UniAir, D>>::prepare_circuit(backend, cfg, &mut cb)?;
                let l = <Backend as PcsRecursionBackend<InC, UniAir, D>>::build_verifier_circuit(backend, left, cfg, &mut cb)?;
                let r = <Backend as PcsRecursionBackend<InC, UniAir, D>>::build_verifier_circuit(backend, right, cfg, &mut cb)?;
                let circuit = cb.build().map_err(VerificationError::CircuitBuilder)?;
                Ok((circuit, l, r))
            }

            fn build_agg_out(
                &self,
                left: &OutInput<'_>,
                right: &OutInput<'_>,
            ) -> Result<(Circuit<Challenge>, VResOut, VResOut), VerificationError> {
                let mut cb = CircuitBuilder::new();
                let (cfg, backend) = (&self.out_cfg, &self.post_backend);
                <Backend as PcsRecursionBackend<OutC, UniAir, D>>::prepare_circuit(backend, cfg, &mut cb)?;
                <Backend as PcsRecursionBackend<OutC, UniAir, D>>::prepare_circuit(backend, cfg, &mut cb)?;
                let l = <Backend as PcsRecursionBackend<OutC, UniAir, D>>::build_verifier_circuit(backend, left, cfg, &mut cb)?;
                let r = <Backend as PcsRecursionBackend<OutC, UniAir, D>>::build_verifier_circuit(backend, right, cfg, &mut cb)?;
                let circuit = cb.build().map_err(VerificationError::CircuitBuilder)?;
                Ok((circuit, l, r))
            }

            /// Classify a reuse of the kept slot against the circuit of the current call.
            fn reuse_kind(&self, digest: u64, cnt: (u32, usize, usize, usize)) -> Kind {
                match &self.slot_model {
                    Some((d, _)) if *d == digest => Kind::Same,
                    Some((_, c)) => Kind::Foreign { fp_equal: *c == cnt },
                    None => Kind::Foreign { fp_equal: false },
                }
            }

            fn cross(&mut self, left: &Src, right: &Src, cache: &CacheUse, split: bool, ctx: Option<&Ctx>) {
                let t0 = std::time::Instant::now();
                let rl = self.resolve(left);
                let rr = self.resolve(right);
                let valid = Self::valid(&rl) && Self::valid(&rr);
                let stmt = format!("XAGG({}, {})", self.stmt(&rl), self.stmt(&rr));
                let params = self.params_out();
                let ch = format!("{}+{}", Self::src_class(&rl), Self::src_class(&rr));
                self.o.classes.push(format!("children:{ch}"));
                self.o.children.push(ch);
                self.o.proving_steps += 1;

                let have_slot = self.slot.is_some();
                let reuse = matches!(cache, CacheUse::Reuse) && have_slot;
                let fresh = matches!(cache, CacheUse::Fresh) || (matches!(cache, CacheUse::Reuse) && !have_slot);
                let with_cache = fresh || reuse;

                let built = if split || with_cache {
                    let (il, ir) = (self.input(&rl), self.input(&rr));
                    match catch(|| self.build_cross(&il, &ir)) {
                        Ok(Ok(x)) => Some(x),
                        Ok(Err(_)) if !valid => {
                            self.o.kinds.push("X:build-refused-invalid".into());
                            self.o.classes.push("outcome:cross/build/invalid-input/err".into());
                            return;
                        }
                        Ok(Err(e)) => {
                            self.o.kinds.push("X:build-err".into());
                            self.violation(
                                if format!("{e:?}").contains("non-primitive table count mismatch") {
                                    format!("C17/cross/{PAIR}/cross/refused/npo-table-count-mismatch")
                                } else {
                                    format!("C17/cross/{PAIR}/cross/build-circuit/refused")
                                },
                                format!("building the aggregation circuit of {stmt} returned Err: {e:?}"),
                                ctx,
                            );
                            return;
                        }
                        Err(p) => {
                            self.o.kinds.push("X:build-panic".into());
                            self.violation(
                                format!("C17/cross/{PAIR}/cross/build-circuit/panic"),
                                format!("building the aggregation circuit of {stmt} panicked: {}", sig_of_panic(&p)),
                                ctx,
                            );
                            return;
                        }
                    }
                } else {
                    None
                };
                let (digest, cnt) = built
                    .as_ref()
                    .map(|(c, _, _)| (circuit_digest(c), counters(c)))
                    .unwrap_or((0, (0, 0, 0, 0)));
                if std::env::var("C17X_DEBUG").is_ok() && built.is_some() {
                    eprintln!("C17XDBG X {digest:016x} {cnt:?} {stmt}");
                }

                let mut slot: Option<AggregationPrepCache<OutC>> = None;
                let kind = if fresh {
                    self.o.kinds.push("X:fresh".into());
                    Kind::Fresh
                } else if reuse {
                    self.o.reuses += 1;
                    slot = self.slot.take();
                    let kind = self.reuse_kind(digest, cnt);
                    self.o.kinds.push(
                        match &kind {
                            Kind::Same => "X:reuse-same",
                            Kind::Foreign { fp_equal: true } => "X:reuse-foreign-fp-equal",
                            _ => "X:reuse-foreign",
                        }
                        .into(),
                    );
                    kind
                } else {
                    self.o.kinds.push(if split { "X:none-split" } else { "X:none" }.into());
                    Kind::Plain
                };

                let res = {
                    let (il, ir) = (self.input(&rl), self.input(&rr));
                    let (icfg, ocfg, backend) = (&self.in_cfg, &self.out_cfg, &self.backend);
                    let slot_ref = &mut slot;
                    let built_ref = &built;
                    let params = &params;
                    catch(move || {
                        let cache_arg = if with_cache { Some(slot_ref) } else { None };
                        match (split, built_ref) {
                            (true, Some((circuit, vl, vr))) => {
                                prove_aggregation_layer_cross::<InC, OutC, UniAir, UniAir, Backend, D>(
                                    &il, &ir, vl, vr, circuit, icfg, ocfg, backend, params, cache_arg,
                                )
                            }
                            _ => build_and_prove_aggregation_layer_cross::<InC, OutC, UniAir, UniAir, Backend, D>(
                                &il, &ir, icfg, ocfg, backend, params, cache_arg,
                            ),
                        }
                    })
                };
                let slot_is_this_call = match (&res, &slot) {
                    (Ok(Ok(out)), Some(s)) => Rc::ptr_eq(&out.1, &s.circuit_prover_data),
                    _ => false,
                };
                let was_foreign = matches!(kind, Kind::Foreign { .. });
                let verdict = match &res {
                    Ok(Ok(out)) => Some(verify_out(&self.out_vcfg, out, OUT_EXTRA)),
                    _ => None,
                };
                let kept = self.judge("cross", &kind, valid, res, verdict, &stmt, ctx);
                self.o.cross_judged += 1;
                if let Some(out) = &kept {
                    // the layer is proven with the AIR variant the parameters ask for (every slot
                    // of a history was prepared with the same parameters)
                    let want_opt = matches!(params.constraint_profile, ConstraintProfile::RecursionOptimized);
                    let got_opt = out.0.alu_variant == p3_circuit_prover::AirVariant::Optimized;
                    self.o.classes.push(format!("alu-variant:{}", if got_opt { "optimized" } else { "baseline" }));
                    if want_opt != got_opt {
                        self.violation(
                            format!("C17/cross/{PAIR}/cross/constraint-profile-not-honoured"),
                            format!(
                                "{stmt}: constraint profile {:?} requested, the output's alu_variant is {:?}",
                                params.constraint_profile, out.0.alu_variant
                            ),
                            ctx,
                        );
                    }
                }

                if fresh {
                    if slot.is_some() {
                        self.slot = slot;
                        self.slot_model = Some((digest, cnt));
                    } else if kept.is_some() {
                        self.violation(
                            format!("C17/cross/{PAIR}/cross/fresh-cache/slot-left-empty"),
                            format!("{stmt}: the call succeeded with Some(&mut None) but did not fill the slot"),
                            ctx,
                        );
                    }
                } else if reuse {
                    self.slot = slot;
                    if was_foreign && slot_is_this_call && kept.is_some() {
                        self.slot_model = Some((digest, cnt));
                        self.o.classes.push("slot:refilled-after-mismatch".into());
                    }
                }

                if with_cache && !was_foreign && self.case.cross_check && self.o.fail.is_none() {
                    let res2 = {
                        let (il, ir) = (self.input(&rl), self.input(&rr));
                        let (icfg, ocfg, backend) = (&self.in_cfg, &self.out_cfg, &self.backend);
                        catch(|| {
                            build_and_prove_aggregation_layer_cross::<InC, OutC, UniAir, UniAir, Backend, D>(
                                &il, &ir, icfg, ocfg, backend, &params, None,
                            )
                        })
                    };
                    let verdict2 = match &res2 {
                        Ok(Ok(out)) => Some(verify_out(&self.out_vcfg, out, OUT_EXTRA)),
                        _ => None,
                    };
                    self.o.classes.push("cross-check:uncached-rerun".into());
                    let un = self.judge("cross", &Kind::Plain, valid, res2, verdict2, &stmt, ctx);
                    if un.is_some() != kept.is_some() {
                        self.violation(
                            format!("C17/cross/{PAIR}/cross/cache/verdict-differs-from-uncached"),
                            format!("{stmt}: cached call verifying = {}, uncached = {}", kept.is_some(), un.is_some()),
                            ctx,
                        );
                    }
                }
                if let Some(out) = kept {
                    self.outs.push(OutRec { out, stmt });
                }
                self.o.timings.push((self.o.kinds.last().cloned().unwrap_or_default(), t0.elapsed().as_secs_f64()));
            }

            /// Next layer under `OutSC` over an earlier output.
            fn post_next(&mut self, input: u16, prep: bool, ctx: Option<&Ctx>) {
                let t0 = std::time::Instant::now();
                if self.outs.is_empty() {
                    self.o.kinds.push("PN:skipped".into());
                    return;
                }
                let i = pick(input, self.outs.len());
                let stmt = format!("NLout({})", self.outs[i].stmt);
                let params = self.params_out();
                self.o.proving_steps += 1;
                let tag = if prep { "PN:fresh" } else { "PN:none" };
                self.o.kinds.push(tag.into());
                let (res, res2) = {
                    let inp = self.out_input(i);
                    let (cfg, backend) = (&self.out_cfg, &self.post_backend);
                    if !prep {
                        (
                            catch(|| build_and_prove_next_layer::<OutC, UniAir, Backend, D>(&inp, cfg, backend, &params)),
                            None,
                        )
                    } else {
                        let cross_check = self.case.cross_check;
                        let r = catch(|| {
                            let (circuit, vres) = build_next_layer_circuit::<OutC, UniAir, Backend, D>(&inp, cfg, backend)?;
                            let prepared = build_next_layer_prep::<OutC, UniAir, Backend, D>(&circuit, cfg, backend, &params)?;
                            let a = prove_next_layer::<OutC, UniAir, Backend, D>(
                                &inp, &circuit, &vres, cfg, backend, &params, Some(&prepared),
                            );
                            let b = if cross_check {
                                Some(prove_next_layer::<OutC, UniAir, Backend, D>(
                                    &inp, &circuit, &vres, cfg, backend, &params, None,
                                ))
                            } else {
                                None
                            };
                            Ok::<_, VerificationError>((a, b))
                        });
                        match r {
                            Ok(Ok((a, b))) => (Ok(a), b.map(Ok)),
                            Ok(Err(e)) => (Ok(Err(e)), None),
                            Err(p) => (Err(p), None),
                        }
                    }
                };
                let kind = if prep { Kind::Fresh } else { Kind::Plain };
                let verdict = match &res {
                    Ok(Ok(out)) => Some(verify_out(&self.out_vcfg, out, OUT_EXTRA)),
                    _ => None,
                };
                let kept = self.judge("post-next", &kind, true, res, verdict, &stmt, ctx);
                if let Some(res2) = res2 {
                    let verdict2 = match &res2 {
                        Ok(Ok(out)) => Some(verify_out(&self.out_vcfg, out, OUT_EXTRA)),
                        _ => None,
                    };
                    self.o.classes.push("cross-check:uncached-rerun".into());
                    let un = self.judge("post-next", &Kind::Plain, true, res2, verdict2, &stmt, ctx);
                    if un.is_some() != kept.is_some() {
                        self.violation(
                            format!("C17/cross/{PAIR}/post-next/fresh-cache/verdict-differs-from-uncached"),
                            format!("{stmt}: cached call verifying = {}, uncached = {}", kept.is_some(), un.is_some()),
                            ctx,
                        );
                    }
                }
                if let Some(out) = kept {
                    self.outs.push(OutRec { out, stmt });
                }
                self.o.timings.push((tag.into(), t0.elapsed().as_secs_f64()));
            }

            /// Same-configuration aggregation under `OutSC` of two earlier outputs.
            fn post_agg(&mut self, left: u16, right: u16, cache: &CacheUse, ctx: Option<&Ctx>) {
                let t0 = std::time::Instant::now();
                if self.outs.is_empty() {
                    self.o.kinds.push("PA:skipped".into());
                    return;
                }
                let (li, ri) = (pick(left, self.outs.len()), pick(right, self.outs.len()));
                let stmt = format!("AGGout({}, {})", self.outs[li].stmt, self.outs[ri].stmt);
                let params = self.params_out();
                self.o.proving_steps += 1;
                let have_slot = self.slot.is_some();
                let reuse = matches!(cache, CacheUse::Reuse) && have_slot;
                let fresh = matches!(cache, CacheUse::Fresh) || (matches!(cache, CacheUse::Reuse) && !have_slot);
                let with_cache = fresh || reuse;

                let mut slot: Option<AggregationPrepCache<OutC>> = None;
                let mut model = (0u64, (0u32, 0usize, 0usize, 0usize));
                let kind = if reuse {
                    let built = {
                        let (il, ir) = (self.out_input(li), self.out_input(ri));
                        catch(|| self.build_agg_out(&il, &ir))
                    };
                    match built {
                        Ok(Ok((c, _, _))) => model = (circuit_digest(&c), counters(&c)),
                        other => {
                            let m = match other {
                                Ok(Err(e)) => format!("Err: {e:?}"),
                                Err(p) => format!("panic: {}", sig_of_panic(&p)),
                                _ => unreachable!(),
                            };
                            self.o.kinds.push("PA:build-failed".into());
                            self.violation(
                                if m.contains("non-primitive table count mismatch") {
                                    format!("C17/cross/{PAIR}/post/refused/npo-table-count-mismatch")
                                } else {
                                    format!("C17/cross/{PAIR}/post-agg/build-circuit/failed")
                                },
                                format!("building the aggregation circuit of {stmt}: {m}"),
                                ctx,
                            );
                            return;
                        }
                    }
                    self.o.reuses += 1;
                    slot = self.slot.take();
                    self.reuse_kind(model.0, model.1)
                } else if fresh {
                    Kind::Fresh
                } else {
                    Kind::Plain
                };
                let tag = match &kind {
                    Kind::Plain => "PA:none",
                    Kind::Fresh => "PA:fresh",
                    Kind::Same => "PA:reuse-cross-slot-same",
                    Kind::Foreign { fp_equal: true } => "PA:reuse-cross-slot-foreign-fp-equal",
                    Kind::Foreign { .. } => "PA:reuse-cross-slot-foreign",
                };
                self.o.kinds.push(tag.into());

                let run = |cache_arg: Option<&mut Option<AggregationPrepCache<OutC>>>| {
                    let (il, ir) = (self.out_input(li), self.out_input(ri));
                    let (cfg, backend, params) = (&self.out_cfg, &self.post_backend, &params);
                    catch(move || {
                        build_and_prove_aggregation_layer::<OutC, UniAir, UniAir, Backend, D>(
                            &il, &ir, cfg, backend, params, cache_arg,
                        )
                    })
                };
                let res = run(if with_cache { Some(&mut slot) } else { None });
                let was_foreign = matches!(kind, Kind::Foreign { .. });
                let res2 = if with_cache && !was_foreign && self.case.cross_check {
                    Some(run(None))
                } else {
                    None
                };
                let slot_is_this_call = match (&res, &slot) {
                    (Ok(Ok(out)), Some(s)) => Rc::ptr_eq(&out.1, &s.circuit_prover_data),
                    _ => false,
                };
                let verdict = match &res {
                    Ok(Ok(out)) => Some(verify_out(&self.out_vcfg, out, OUT_EXTRA)),
                    _ => None,
                };
                let kept = self.judge("post-agg", &kind, true, res, verdict, &stmt, ctx);
                if fresh && slot.is_none() && kept.is_some() {
                    self.violation(
                        format!("C17/cross/{PAIR}/post-agg/fresh-cache/slot-left-empty"),
                        format!("{stmt}: the call succeeded with Some(&mut None) but did not fill the slot"),
                        ctx,
                    );
                }
                if reuse {
                    self.slot = slot;
                    if was_foreign && slot_is_this_call && kept.is_some() {
                        self.slot_model = Some(model);
                        self.o.classes.push("slot:refilled-after-mismatch".into());
                    }
                }
                if let Some(res2) = res2 {
                    let verdict2 = match &res2 {
                        Ok(Ok(out)) => Some(verify_out(&self.out_vcfg, out, OUT_EXTRA)),
                        _ => None,
                    };
                    self.o.classes.push("cross-check:uncached-rerun".into());
                    let un = self.judge("post-agg", &Kind::Plain, true, res2, verdict2, &stmt, ctx);
                    if un.is_some() != kept.is_some() {
                        self.violation(
                            format!("C17/cross/{PAIR}/post-agg/cache/verdict-differs-from-uncached"),
                            format!("{stmt}: cached call verifying = {}, uncached = {}", kept.is_some(), un.is_some()),
                            ctx,
                        );
                    }
                }
                if let Some(out) = kept {
                    self.outs.push(OutRec { out, stmt });
                }
                self.o.timings.push((tag.into(), t0.elapsed().as_secs_f64()));
            }
        }

        fn run_history_inner(case: &Case, ctx: Option<&Ctx>) -> Outcome {
            let s = case.seed;
            let mut st = State {
                case,
                backend: ($seam_backend)(case.seam_extra_table),
                post_backend: $post_backend,
                in_extra: if case.seam_extra_table { OUT_EXTRA } else { None },
                in_cfg: $mk_in(&case.fin, splitmix(s ^ 0x11)),
                out_cfg: $mk_out(&case.fout, splitmix(s ^ 0x22)),
                in_vcfg: $mk_in(&case.fin, splitmix(s ^ 0x33)),
                out_vcfg: $mk_out(&case.fout, splitmix(s ^ 0x44)),
                unis: BTreeMap::new(),
                batches: BTreeMap::new(),
                in_layers: vec![],
                outs: vec![],
                slot: None,
                slot_model: None,
                o: Outcome::default(),
            };
            st.o.classes.push(format!("field:{FIELD_NAME}"));
            st.o.classes.push(format!("pair:{PAIR}"));
            if OUT_EXTRA.is_some() {
                st.o.classes.push(format!(
                    "seam-backend:{}",
                    if case.seam_extra_table { "with-extra-table" } else { "plain(example wiring)" }
                ));
            }
            st.o.classes.push(format!("log_blowup:{}->{}", case.fin.log_blowup, case.fout.log_blowup));
            let (fi, fo) = (&case.fin, &case.fout);
            let (ai, qi) = FRIS[fi.fri as usize % FRIS.len()];
            let (ao, qo) = FRIS[fo.fri as usize % FRIS.len()];
            let mut any = false;
            for (d, name) in [
                (fi.log_blowup != fo.log_blowup, "log_blowup"),
                (fi.commit_pow_bits != fo.commit_pow_bits, "commit-pow"),
                (fi.query_pow_bits != fo.query_pow_bits, "query-pow"),
                (ai != ao, "arity"),
                (qi != qo, "queries"),
            ] {
                if d {
                    any = true;
                    st.o.classes.push(format!("fri-diff:{name}"));
                }
            }
            if !any {
                st.o.classes.push("fri-diff:none".into());
            }
            for step in &case.steps {
                match step {
                    Step::Pre { input, prep } => st.pre(input, *prep, ctx),
                    Step::Cross { left, right, cache, split } => st.cross(left, right, cache, *split, ctx),
                    Step::PostNext { input, prep } => st.post_next(*input, *prep, ctx),
                    Step::PostAgg { left, right, cache } => st.post_agg(*left, *right, cache, ctx),
                }
                if st.o.fail.is_some() {
                    break;
                }
            }
            st.o.classes.push(format!("outputs:{}", st.outs.len().min(4)));
            st.o
        }

        pub fn run_history(case: &Case, ctx: Option<&Ctx>) -> Outcome {
            serial_if(IN_HIDING || OUT_HIDING, || run_history_inner(case, ctx))
        }
    };
}

macro_rules! pair_module {
    ($m:ident, $tm:ident, $pair_name:expr, $In:ident, $Out:ident, $mk_in:ident, $mk_out:ident, $in_h:expr, $out_h:expr) => {
        pub mod $m {
            pair_a!($tm, $pair_name, $In, $Out, $mk_in, $mk_out, $in_h, $out_h, None);
            pair_b!($mk_in, $mk_out, |_: bool| backend(), backend());
        }
    };
    ($m:ident, $tm:ident, $pair_name:expr, $In:ident, $Out:ident, $mk_in:ident, $mk_out:ident, arity4) => {
        pub mod $m {
            pair_a!($tm, $pair_name, $In, $Out, $mk_in, $mk_out, false, false, Some(P2_W32));
            pair_b!($mk_in, $mk_out, |extra: bool| if extra { backend_a4() } else { backend() }, backend_a4());
        }
    };
}

pair_module!(kb_pp, kbt, "plain-plain", CfgP, CfgP, make_p, make_p, false, false);
pair_module!(kb_ph, kbt, "plain-hiding", CfgP, CfgH, make_p, make_h, false, true);
pair_module!(kb_hp, kbt, "hiding-plain", CfgH, CfgP, make_h, make_p, true, false);
pair_module!(kb_hh, kbt, "hiding-hiding", CfgH, CfgH, make_h, make_h, true, true);
pair_module!(kb_pa, kba4, "plain-arity4", CfgP, CfgA, make_p, make_a, arity4);
pair_module!(bb_pp, bbt, "plain-plain", CfgP, CfgP, make_p, make_p, false, false);
pair_module!(bb_ph, bbt, "plain-hiding", CfgP, CfgH, make_p, make_h, false, true);
pair_module!(bb_hp, bbt, "hiding-plain", CfgH, CfgP, make_h, make_p, true, false);
pair_module!(bb_hh, bbt, "hiding-hiding", CfgH, CfgH, make_h, make_h, true, true);

pub fn run_case(case: &Case, ctx: Option<&Ctx>) -> Outcome {
    // the arity-4 output configuration exists for KoalaBear only
    match (case.field % 2, case.pair % 5) {
        (_, 4) => kb_pa::run_history(case, ctx),
        (0, 0) => kb_pp::run_history(case, ctx),
        (0, 1) => kb_ph::run_history(case, ctx),
        (0, 2) => kb_hp::run_history(case, ctx),
        (0, _) => kb_hh::run_history(case, ctx),
        (_, 0) => bb_pp::run_history(case, ctx),
        (_, 1) => bb_ph::run_history(case, ctx),
        (_, 2) => bb_hp::run_history(case, ctx),
        (_, _) => bb_hh::run_history(case, ctx),
    }
}

fn report_of(case: &Case, o: Outcome) -> Report {
    let nontrivial = o.cross_judged >= 1 && o.proving_steps >= 2;
    let key = hash_of(&(case.field % 2, case.pair % 5, &o.kinds, &o.children));
    let mut classes = o.classes.clone();
    for k in &o.kinds {
        classes.push(format!("step:{k}"));
    }
    classes.push(format!("steps:{}", o.kinds.iter().map(|k| k.split(':').next().unwrap_or("")).collect::<Vec<_>>().join(">")));
    classes.push(format!("proving-steps:{}", o.proving_steps));
    classes.push(format!("reuses:{}", o.reuses.min(3)));
    let rep = match (o.fail, o.known_fail) {
        (Some((sig, msg)), _) => Report::fail(sig, format!("{msg}\n  history kinds: {:?}", o.kinds)),
        (None, Some((sig, msg))) => Report::fail(sig, format!("{msg}\n  history kinds: {:?}", o.kinds)),
        (None, None) => Report::pass(),
    };
    rep.nontrivial(nontrivial).key(key).classes(classes)
}

// ------------------------------------------------------------------------------------------
// Strategy: a small planner turns raw choices into explicit steps
// ------------------------------------------------------------------------------------------

fn base_src(r: u16, allow_bad: bool) -> Src {
    let sel = r % 16;
    let hi = r / 16;
    let bad = allow_bad && sel == 15;
    if sel % 2 == 0 {
        Src::Uni {
            alt: hi % 3 == 1,
            big: hi % 5 == 1,
            bad,
        }
    } else {
        Src::Batch {
            variant: (hi % 4).min(2) as u8,
            bad,
        }
    }
}

fn cache_of(r: u16, reuse_heavy: bool) -> CacheUse {
    let k = r % 10;
    if reuse_heavy {
        match k {
            0 => CacheUse::None,
            1 | 2 => CacheUse::Fresh,
            _ => CacheUse::Reuse,
        }
    } else {
        match k {
            0..=2 => CacheUse::None,
            _ => CacheUse::Fresh,
        }
    }
}

fn with_bad(s: &Src, bad: bool) -> Src {
    match s {
        Src::Uni { alt, big, .. } => Src::Uni { alt: *alt, big: *big, bad },
        Src::Batch { variant, .. } => Src::Batch { variant: *variant, bad },
        Src::Layer(i) => Src::Layer(*i),
    }
}

/// A child of the same shape (same verification circuit): the sibling batch variant.
fn same_shape(s: &Src, flip: bool) -> Src {
    match s {
        Src::Batch { variant, .. } if flip && *variant % 3 < 2 => Src::Batch {
            variant: 1 - *variant % 3,
            bad: false,
        },
        other => with_bad(other, false),
    }
}

fn twin(s: &Src) -> Option<Src> {
    match s {
        Src::Uni { alt, big, .. } => Some(Src::Uni { alt: !*alt, big: *big, bad: false }),
        _ => None,
    }
}

/// The second cross step, derived from the first one.
fn second_cross(l: &Src, r: &Src, raw: &[u16; 6]) -> Step {
    let q = raw[5] % 20;
    let (l0, r0) = (with_bad(l, false), with_bad(r, false));
    let (left, right) = match q {
        0..=7 => (same_shape(l, q % 2 == 1), same_shape(r, q % 4 >= 2)),
        8..=11 => (base_src(raw[1], false), base_src(raw[2], false)),
        12..=14 => (r0, l0),
        15 | 16 => match (twin(l), twin(r)) {
            (Some(t), _) => (t, r0),
            (None, Some(t)) => (l0, t),
            _ => (r0, l0),
        },
        _ => {
            // same shape, one invalid child
            if q % 2 == 0 && !matches!(l, Src::Layer(_)) {
                (with_bad(l, true), r0)
            } else if !matches!(r, Src::Layer(_)) {
                (l0, with_bad(r, true))
            } else {
                (with_bad(l, true), r0)
            }
        }
    };
    Step::Cross {
        left,
        right,
        cache: cache_of(raw[3], true),
        split: raw[4] % 2 == 0,
    }
}

pub fn plan(shape: u8, out_hiding: bool, raw: &[[u16; 6]; 3]) -> Vec<Step> {
    let r0 = &raw[0];
    let (mut left, mut right) = (base_src(r0[1], true), base_src(r0[2], true));
    // at most one invalid child
    if matches!(left, Src::Uni { bad: true, .. } | Src::Batch { bad: true, .. }) {
        right = with_bad(&right, false);
    }
    let with_layer = matches!(shape % 16, 9..=12 | 14 | 15);
    if with_layer {
        match r0[4] % 20 {
            0 => {
                left = Src::Layer(0);
                right = Src::Layer(0);
            }
            k if k % 2 == 0 => left = Src::Layer(0),
            _ => right = Src::Layer(0),
        }
    }
    let cross = Step::Cross {
        left: left.clone(),
        right: right.clone(),
        cache: cache_of(r0[3], false),
        split: r0[5] % 2 == 0,
    };
    let pre = Step::Pre {
        input: with_bad(&base_src(raw[2][1], false), raw[2][1] % 32 == 31),
        prep: raw[2][3] % 2 == 0,
    };
    let r1 = &raw[1];
    let r2 = &raw[2];
    let pn = |r: &[u16; 6]| Step::PostNext {
        input: if r[1] % 3 == 0 { r[1] } else { u16::MAX },
        prep: r[3] % 3 == 0,
    };
    let pa = |r: &[u16; 6], l: u16, rr: u16| Step::PostAgg {
        left: l,
        right: rr,
        cache: match r[3] % 4 {
            0 => CacheUse::None,
            1 | 2 => CacheUse::Fresh,
            _ => CacheUse::Reuse,
        },
    };
    match shape % 16 {
        0 => vec![cross],
        1 | 2 => vec![cross, pn(r1)],
        3 => vec![cross, pa(r1, 0, 0)],
        4 | 5 => vec![cross, second_cross(&left, &right, r1)],
        // fill, (possibly) miss and refill, then offer the slot to the first circuit again
        6 => vec![
            cross,
            second_cross(&left, &right, r1),
            Step::Cross {
                left: with_bad(&left, false),
                right: with_bad(&right, false),
                cache: CacheUse::Reuse,
                split: r2[4] % 2 == 0,
            },
        ],
        // (an aggregation under a hiding configuration is the most expensive step: half as often)
        8 if out_hiding => vec![cross, second_cross(&left, &right, r1)],
        7 | 8 => vec![cross, second_cross(&left, &right, r1), pa(r2, 0, u16::MAX)],
        9 | 10 => vec![pre, cross],
        11 | 12 => vec![pre, cross, pn(r1)],
        13 => vec![cross, second_cross(&left, &right, r1), pn(r2)],
        14 => vec![pre, cross, second_cross(&left, &right, r1)],
        _ if out_hiding => vec![pre, cross, pn(r1)],
        _ => vec![pre, cross, pa(r1, 0, 0)],
    }
}

fn fri_sel() -> impl Strategy<Value = FriSel> {
    (1u8..=2, 0u8..=1, 1u8..=3, 0u8..4).prop_map(|(log_blowup, commit_pow_bits, query_pow_bits, fri)| FriSel {
        log_blowup,
        commit_pow_bits,
        query_pow_bits,
        fri,
    })
}

/// Preconditions of the hiding configurations, applied by the generators (a hand-written replay
/// is run as written):
/// * `log_blowup >= 2`: under ZK the number of quotient chunks doubles, the degree-3 circuit
///   tables need 4 chunks; with `log_blowup = 1` the native prover returns a proof that its own
///   verifier rejects (`OodEvaluationMismatch`) — a parameter precondition of p3-batch-stark;
/// * quick tier: 2 queries on a hiding side (cost: the ZK layers run single-threaded).
pub fn normalize(mut c: Case, cheap_hiding: bool) -> Case {
    let p = c.pair % 5;
    let (in_h, out_h) = (p == 2 || p == 3, p == 1 || p == 3);
    if p == 4 {
        c.field = 0;
    }
    if in_h {
        c.fin.log_blowup = 2;
        if cheap_hiding {
            c.fin.fri &= 2;
        }
    }
    if out_h {
        c.fout.log_blowup = 2;
        if cheap_hiding {
            c.fout.fri &= 2;
        }
    }
    if p == 0 && c.fin == c.fout {
        // plain→plain: the two configurations differ at least in the prover-side preset
        c.fout.fri = (c.fout.fri + 1) % FRIS.len() as u8;
    }
    c
}

pub fn strategy(cheap_hiding: bool) -> impl Strategy<Value = Case> {
    (
        (0u8..8, 0u8..5, fri_sel(), fri_sel(), 0u8..6),
        any::<u64>(),
        any::<bool>(),
        0u8..16,
        any::<[[u16; 6]; 3]>(),
    )
        .prop_map(move |((field, pair, fin, fout, packing), seed, cross_check, shape, raw)| {
            normalize(
                Case {
                    field: if field < 5 { 0 } else { 1 },
                    pair,
                    fin,
                    fout,
                    packing,
                    seed,
                    cross_check,
                    seam_extra_table: pair == 4 && raw[0][0] % 2 == 0,
                    steps: plan(shape, pair == 1 || pair == 3, &raw),
                },
                cheap_hiding,
            )
        })
}

pub fn oracle_with(ctx: &Ctx) -> impl Fn(&Case) -> Report + Sync + '_ {
    move |case: &Case| {
        let o = run_case(case, Some(ctx));
        report_of(case, o)
    }
}

fn engineered() -> Vec<Case> {
    let uni = |alt: bool, big: bool| Src::Uni { alt, big, bad: false };
    let unib = || Src::Uni { alt: false, big: false, bad: true };
    let bat = |variant: u8| Src::Batch { variant, bad: false };
    let x = |left: Src, right: Src, cache: CacheUse, split: bool| Step::Cross {
        left,
        right,
        cache,
        split,
    };
    let pn = |prep: bool| Step::PostNext { input: u16::MAX, prep };
    let hs: Vec<Vec<Step>> = vec![
        // same-circuit reuse, then a next layer over the cached call's output
        vec![
            x(uni(false, false), bat(0), CacheUse::Fresh, false),
            x(uni(false, false), bat(1), CacheUse::Reuse, true),
            pn(false),
        ],
        // swapped children: equal fingerprint counters
        vec![
            x(uni(false, false), bat(0), CacheUse::Fresh, false),
            x(bat(0), uni(false, false), CacheUse::Reuse, false),
        ],
        // AIR twin: equal fingerprint counters
        vec![
            x(uni(false, false), bat(0), CacheUse::Fresh, true),
            x(uni(true, false), bat(0), CacheUse::Reuse, false),
        ],
        // a slot of a different circuit is refilled, then offered to a same-configuration aggregation
        vec![
            x(uni(false, false), bat(0), CacheUse::Fresh, false),
            x(bat(2), uni(false, true), CacheUse::Reuse, false),
            Step::PostAgg { left: 0, right: u16::MAX, cache: CacheUse::Reuse },
        ],
        // fill, miss and refill, hit with the first circuit again (the refilled entry must be complete)
        vec![
            x(uni(false, false), bat(0), CacheUse::Fresh, false),
            x(bat(2), uni(false, true), CacheUse::Reuse, false),
            x(uni(false, false), bat(0), CacheUse::Reuse, true),
            x(bat(2), uni(false, true), CacheUse::Reuse, false),
        ],
        // a next-layer output as child, next layer with its own preparation on top
        vec![
            Step::Pre { input: uni(false, false), prep: true },
            x(Src::Layer(0), bat(0), CacheUse::Fresh, false),
            pn(true),
        ],
        vec![
            Step::Pre { input: bat(0), prep: false },
            x(uni(false, true), Src::Layer(0), CacheUse::None, true),
            Step::PostAgg { left: 0, right: 0, cache: CacheUse::Fresh },
        ],
        // an invalid child on either side, without and with a matching slot
        vec![
            x(uni(false, true), unib(), CacheUse::None, false),
            x(unib(), uni(false, true), CacheUse::Fresh, false),
        ],
        vec![
            x(uni(false, false), bat(0), CacheUse::Fresh, false),
            x(unib(), bat(1), CacheUse::Reuse, false),
            x(uni(false, false), Src::Batch { variant: 0, bad: true }, CacheUse::Reuse, true),
        ],
    ];
    let mut out = vec![];
    for (i, steps) in hs.into_iter().enumerate() {
        for pair in 0..5u8 {
            let fin = FriSel {
                log_blowup: 1 + ((i + pair as usize) % 2) as u8,
                commit_pow_bits: (i % 2) as u8,
                query_pow_bits: 1 + (i % 3) as u8,
                fri: (i % 4) as u8,
            };
            let fout = FriSel {
                log_blowup: 1 + ((i / 2 + pair as usize) % 2) as u8,
                commit_pow_bits: ((i + 1) % 2) as u8,
                query_pow_bits: 1 + ((i + 1) % 3) as u8,
                fri: ((i + 1 + pair as usize) % 4) as u8,
            };
            out.push(normalize(Case {
                field: ((i + pair as usize) % 2) as u8,
                pair,
                fin,
                fout,
                packing: (i % PACKINGS.len()) as u8,
                seed: 2000 + i as u64,
                cross_check: true,
                seam_extra_table: pair == 4 && i % 2 == 0,
                steps: steps.clone(),
            }, true));
        }
    }
    out
}

pub fn run(ctx: &Ctx) {
    ctx.assume(
        "cross sub-checks: histories that involve a HidingFriPcs configuration run on a one-thread rayon pool (the native \
         ZK prover of p3-fri 0.6.3 can dead-lock under work stealing with more than one table; liveness of the upstream \
         prover is outside this property)",
    );
    if let Ok(m) = std::env::var("C17X_MEASURE") {
        measure(&m);
        return;
    }
    let n = ctx.tier.pick(272, 5_440);
    let n = std::env::var("C17X_CASES").ok().and_then(|v| v.parse().ok()).unwrap_or(n);
    let only = std::env::var("C17X_ONLY").unwrap_or_default();
    if only.is_empty() || only == "cross-histories" {
        let cheap = matches!(ctx.tier, crate::fw::Tier::Quick);
        ctx.explore("cross-histories", RULE, n, move || strategy(cheap), oracle_with(ctx));
    }
    if only.is_empty() || only == "cross-engineered" {
        ctx.enumerate("cross-engineered", RULE_ENGINEERED, engineered(), false, oracle_with(ctx));
    }
    for sub in ["cross-engineered", "cross-histories"] {
        ctx.replay_known(sub, |c: &Case| {
            // replay without the known-findings filter so that the listed signature shows up
            let o = run_case(c, None);
            report_of(c, o)
        });
    }
}

/// Cost measurement (`C17X_MEASURE=kb|bb`): one history per pair touching every kind of call.
fn measure(which: &str) {
    let field = if which.contains("bb") { 1 } else { 0 };
    for pair in 0..5u8 {
        for lb in [1u8, 2] {
            let sel = |fri: u8| FriSel {
                log_blowup: lb,
                commit_pow_bits: 0,
                query_pow_bits: 2,
                fri,
            };
            let case = Case {
                field,
                pair,
                fin: sel(0),
                fout: sel(1),
                packing: 0,
                seed: 7,
                cross_check: false,
                seam_extra_table: lb == 2,
                steps: vec![
                    Step::Pre { input: Src::Uni { alt: false, big: false, bad: false }, prep: false },
                    Step::Cross {
                        left: Src::Uni { alt: false, big: false, bad: false },
                        right: Src::Batch { variant: 0, bad: false },
                        cache: CacheUse::Fresh,
                        split: false,
                    },
                    Step::Cross {
                        left: Src::Layer(0),
                        right: Src::Batch { variant: 2, bad: false },
                        cache: CacheUse::Reuse,
                        split: true,
                    },
                    Step::PostNext { input: 0, prep: false },
                    Step::PostAgg { left: 0, right: 1, cache: CacheUse::None },
                    Step::Cross {
                        left: Src::Uni { alt: false, big: false, bad: true },
                        right: Src::Batch { variant: 0, bad: false },
                        cache: CacheUse::None,
                        split: false,
                    },
                ],
            };
            let t0 = std::time::Instant::now();
            let o = run_case(&case, None);
            println!(
                "measure field={field} pair={} log_blowup={lb}: total {:.2}s fail={:?}",
                PAIRS[pair as usize],
                t0.elapsed().as_secs_f64(),
                o.fail
            );
            for (k, t) in &o.timings {
                println!("   {k:<28} {t:.2}s");
            }
            println!("   classes: {:?}", o.classes);
        }
    }
}
