//! C01 — in-circuit STARK verification agrees with native verification.
//!
//! Domain: configuration x FRI parameter set x AIR instance / tiny circuit x honest proof
//! (generated seed) x single-leaf alterations (each applied ON ITS OWN to the honest bundle).
//!
//! Configurations (`CONFIGS`, one `explore:<cfg>` and one `enumerate:<cfg>` sub-check each):
//!
//! | prefix   | prover / native verifier / circuit |
//! |----------|------------------------------------|
//! | `uni-`   | `p3_uni_stark::prove_with_preprocessed` / `verify_with_preprocessed` / `StarkVerifierInputsBuilder` + `verify_p3_uni_proof_circuit` |
//! | `dbatch-`| `p3_batch_stark::prove_batch` / `verify_batch` / `BatchStarkVerifierInputsBuilder` + `verify_batch_circuit`, 1-3 AIR instances of different heights |
//! | `zk-`    | the same with `HidingFriPcs` (`HidingFriProofTargets`), `kb4hm`: hiding (salted) `MerkleTreeHidingMmcs` |
//! | `bsp-`   | `BatchStarkProver::prove_all_tables` on tiny circuits (base-field circuit, `TRACE_D = 1`; `bspx-kb4`: D4 circuit, `bsp-kb5`: quintic circuit) / `verify_all_tables` (the repo's thin wrapper: rebuilds the table AIRs from the proof metadata, then `p3_batch_stark::verify_batch`) / `verify_p3_batch_proof_circuit` |
//!
//! fields: `bb4` BabyBear D4 Poseidon2-W16, `kb4` KoalaBear D4 W16, `gl2` Goldilocks D2 W8, `kb5`
//! KoalaBear quintic D5 with the D1 permutation, `kb4a4` KoalaBear D4 with W16 challenger + W32
//! arity-4 MMCS.  AIRs: Fibonacci (public values), MulAir (preprocessed columns, degree 2-4),
//! a periodic-column AIR, AddAir with / without a next-row opening.
//!
//! A *bundle* is everything a verifier is handed: the proof, the public values and the
//! preprocessed commitment / common data.  `serde_json::to_value(bundle)` gives a tree whose
//! numeric leaves are field elements, digest words, indices (`degree_bits`, `log_arity`,
//! preprocessed instance metadata) — an alteration is `SetLeaf(path, new)` with `new != old`,
//! canonical (`< p`) for field elements and a small non-negative integer for index leaves.
//! The AIR-defining metadata of a `BatchStarkProof` (`rows`, `table_packing`, ...) is the
//! statement, not the proof, and is not altered.
//!
//! Oracle: the native Plonky3 verifier.  Compared with the verdict of the verification circuit
//! built *from the altered bundle as a verifier would* (always `FriVerifierParams::with_mmcs`),
//! fed through `pack_values`, `set_*fri_mmcs_private_data*` and run by `CircuitRunner`: every
//! builder error, input error, private-data error, run error and panic counts as "reject".
//! Required: native Ok <=> circuit Ok, and the honest bundle is accepted by both.
//!
//! A third of the cases additionally evaluates a *bad-trace* proof: the (non-checking,
//! release-profile) prover is run on a trace with one altered cell, which gives a proof whose
//! ONLY defect is that the committed trace violates the AIR / unbalances the lookup bus.  Single
//! leaf alterations of an honest proof always break the transcript or the PCS as well, so this
//! is the only kind of rejected proof on which the `folded constraints == quotient * vanishing`
//! connect and the LogUp terminal-sum check are the sole line of defence.
//!
//! Circuits are cached per *shape* (configuration, FRI parameters, AIR parameters and every
//! structural leaf of the bundle); a generated fraction of the alterations is additionally
//! evaluated on a circuit rebuilt from scratch and the two circuit verdicts must agree
//! (harness self-check `C01/harness:cache-divergence`).
//!
//! The native prover's proof-of-work grinding is a parallel `find_map_any` (thread-timing
//! dependent); all configurations here use `DetCh`, a challenger wrapper whose `grind` is a
//! sequential search (same acceptance rule, same transcript), so a case replays bit-for-bit.
//!
//! Known findings (excluded by construction while listed as "known"): `KNOWN_PERIODIC`,
//! `KNOWN_UNI_NO_NEXT`.

#![allow(clippy::type_complexity)]

use std::cell::RefCell;
use std::collections::{BTreeMap, BTreeSet, HashMap};
use std::rc::Rc;
use std::sync::Mutex;
use std::sync::atomic::{AtomicU64, Ordering};
use std::time::Instant;

use p3_air::{Air, AirBuilder, BaseAir, WindowAccess};
use p3_challenger::{CanObserve, CanSample, CanSampleBits, FieldChallenger, GrindingChallenger};
use p3_field::{Field, PrimeCharacteristicRing, PrimeField64};
use p3_matrix::dense::RowMajorMatrix;
use proptest::prelude::*;
use rand::rngs::SmallRng;
use rand::{RngExt, SeedableRng};
use serde::{Deserialize, Serialize};
use serde_json::{Value, json};

use crate::fw::{self, Ctx, Report, catch, hash_of, sig_of_panic};

// ==========================================================================================
// deterministic-grind challenger
// ==========================================================================================

/// Delegates everything to the wrapped challenger; only `grind` differs: a sequential search
/// for the smallest witness (p3's `DuplexChallenger::grind` is a parallel `find_map_any`).
/// Acceptance rule and resulting transcript state are those of `check_witness`.
#[derive(Clone)]
pub struct DetCh<I>(pub I);

impl<I: CanObserve<T>, T> CanObserve<T> for DetCh<I> {
    fn observe(&mut self, value: T) {
        self.0.observe(value)
    }
}
impl<I: CanSample<T>, T> CanSample<T> for DetCh<I> {
    fn sample(&mut self) -> T {
        self.0.sample()
    }
}
impl<I: CanSampleBits<T>, T> CanSampleBits<T> for DetCh<I> {
    fn sample_bits(&mut self, bits: usize) -> T {
        self.0.sample_bits(bits)
    }
}
impl<F: Field, I: FieldChallenger<F>> FieldChallenger<F> for DetCh<I> {}
impl<I> GrindingChallenger for DetCh<I>
where
    I: GrindingChallenger,
    I::Witness: PrimeField64,
{
    type Witness = I::Witness;
    fn grind(&mut self, bits: usize) -> Self::Witness {
        if bits == 0 {
            return Self::Witness::ZERO;
        }
        for w in 0..<I::Witness as PrimeField64>::ORDER_U64 {
            let mut c = self.0.clone();
            let wit = <I::Witness as PrimeCharacteristicRing>::from_u64(w);
            if c.check_witness(bits, wit) {
                self.0 = c;
                return wit;
            }
        }
        panic!("no proof-of-work witness found");
    }
}

// ==========================================================================================
// test AIRs
// ==========================================================================================

/// The AIR instances of the repo's recursion tests, parameterised.
#[derive(Clone, Debug, PartialEq, Eq, Hash)]
pub enum TAir {
    /// `p3_circuit::test_utils::FibonacciAir`: 2 columns, public values `[a, b, x]`.
    Fib,
    /// `recursion/tests/common::MulAir` with a configurable number of repetitions:
    /// preprocessed columns `(a, b)` per repetition, main column `c = a^(degree-1) * b`.
    Mul { degree: u64, reps: usize, log_n: usize, seed: u64 },
    /// one main column, one public value, one periodic column of period `2^log_period`:
    /// `x_0 = pv`, `x' = (x + 1) * periodic`.
    Per { log_period: usize, seed: u64 },
    /// `a + b = c` per row (the AIR of the ZK tests); no public values, no transition constraint.
    Add,
    /// `Add` that additionally declares that it never reads the next row
    /// (`main_next_row_columns() == []`), so the prover omits the `trace_next` opening.
    AddLocal,
}

impl TAir {
    pub fn kind(&self) -> &'static str {
        match self {
            TAir::Fib => "fib",
            TAir::Mul { degree: 2, .. } => "mul-deg2",
            TAir::Mul { degree: 3, .. } => "mul-deg3",
            TAir::Mul { .. } => "mul-deg4",
            TAir::Per { .. } => "periodic",
            TAir::Add => "add",
            TAir::AddLocal => "add-local",
        }
    }
    /// The prover evaluates the constraints on the committed LDE, so the quotient domain
    /// (`2^log_quotient_degree` times the trace) must fit into it: `log_blowup >= log2_ceil(max
    /// constraint degree - 1)` (+1 with ZK, applied by the caller).
    pub fn min_log_blowup(&self) -> usize {
        match self {
            TAir::Mul { degree, .. } if *degree >= 4 => 2,
            _ => 1,
        }
    }
    fn per_col<F: PrimeField64>(log_period: usize, seed: u64) -> Vec<F> {
        let mut rng = SmallRng::seed_from_u64(seed ^ 0x5eed_c01);
        (0..1usize << log_period)
            .map(|_| F::from_u64(rng.random::<u64>()))
            .collect()
    }
    /// (main trace, public values) for `2^log_n` rows.
    pub fn trace<F: PrimeField64>(&self, log_n: usize, seed: u64) -> (RowMajorMatrix<F>, Vec<F>) {
        let n = 1usize << log_n;
        let mut rng = SmallRng::seed_from_u64(seed);
        match self {
            TAir::Fib => {
                let a = F::from_u64(rng.random::<u64>());
                let b = F::from_u64(rng.random::<u64>());
                let mut v = Vec::with_capacity(2 * n);
                let (mut l, mut r) = (a, b);
                for _ in 0..n {
                    v.push(l);
                    v.push(r);
                    let nx = l + r;
                    l = r;
                    r = nx;
                }
                let x = v[2 * n - 1];
                (RowMajorMatrix::new(v, 2), vec![a, b, x])
            }
            TAir::Mul { degree, reps, log_n: ln, .. } => {
                assert_eq!(*ln, log_n);
                let prep = self.prep::<F>().expect("mul has preprocessed columns");
                let mut main = Vec::with_capacity(n * reps);
                for ab in prep.values.chunks(2) {
                    main.push(ab[0].exp_u64(*degree - 1) * ab[1]);
                }
                (RowMajorMatrix::new(main, *reps), vec![])
            }
            TAir::Per { log_period, seed: s } => {
                let col = Self::per_col::<F>(*log_period, *s);
                let start = F::from_u64(rng.random::<u64>());
                let mut v = Vec::with_capacity(n);
                let mut x = start;
                for i in 0..n {
                    v.push(x);
                    x = (x + F::ONE) * col[i % col.len()];
                }
                (RowMajorMatrix::new(v, 1), vec![start])
            }
            TAir::Add | TAir::AddLocal => {
                let mut v = Vec::with_capacity(3 * n);
                for _ in 0..n {
                    let a = F::from_u64(rng.random::<u64>());
                    let b = F::from_u64(rng.random::<u64>());
                    v.extend([a, b, a + b]);
                }
                (RowMajorMatrix::new(v, 3), vec![])
            }
        }
    }
    fn prep<F: PrimeField64>(&self) -> Option<RowMajorMatrix<F>> {
        match self {
            TAir::Mul { reps, log_n, seed, .. } => {
                let n = 1usize << log_n;
                let mut rng = SmallRng::seed_from_u64(*seed ^ 0x9e37_79b9);
                let mut v = Vec::with_capacity(n * reps * 2);
                for i in 0..n * reps {
                    let row = i / reps;
                    let a = F::from_usize(i);
                    let b = if row == 0 {
                        a.square() + F::ONE
                    } else {
                        F::from_u64(rng.random::<u64>())
                    };
                    v.push(a);
                    v.push(b);
                }
                Some(RowMajorMatrix::new(v, reps * 2))
            }
            _ => None,
        }
    }
}

impl<F: PrimeField64> BaseAir<F> for TAir {
    fn width(&self) -> usize {
        match self {
            TAir::Fib => 2,
            TAir::Mul { reps, .. } => *reps,
            TAir::Per { .. } => 1,
            TAir::Add | TAir::AddLocal => 3,
        }
    }
    fn main_next_row_columns(&self) -> Vec<usize> {
        match self {
            TAir::AddLocal => vec![],
            _ => (0..<Self as BaseAir<F>>::width(self)).collect(),
        }
    }
    fn preprocessed_width(&self) -> usize {
        match self {
            TAir::Mul { reps, .. } => 2 * reps,
            _ => 0,
        }
    }
    fn preprocessed_trace(&self) -> Option<RowMajorMatrix<F>> {
        self.prep::<F>()
    }
    fn num_public_values(&self) -> usize {
        match self {
            TAir::Fib => 3,
            TAir::Per { .. } => 1,
            _ => 0,
        }
    }
    fn num_periodic_columns(&self) -> usize {
        matches!(self, TAir::Per { .. }) as usize
    }
    fn periodic_columns(&self) -> Vec<Vec<F>> {
        match self {
            TAir::Per { log_period, seed } => vec![Self::per_col::<F>(*log_period, *seed)],
            _ => vec![],
        }
    }
}

impl<AB: AirBuilder> Air<AB> for TAir
where
    AB::F: PrimeField64,
{
    fn eval(&self, builder: &mut AB) {
        match self {
            TAir::Fib => {
                let main = builder.main();
                let pis = builder.public_values();
                let (a, b, x) = (pis[0], pis[1], pis[2]);
                let (local, next) = (main.current_slice(), main.next_slice());
                let (ll, lr, nl, nr) = (local[0], local[1], next[0], next[1]);
                let mut first = builder.when_first_row();
                first.assert_eq(ll, a);
                first.assert_eq(lr, b);
                let mut tr = builder.when_transition();
                tr.assert_eq(lr, nl);
                tr.assert_eq(ll + lr, nr);
                builder.when_last_row().assert_eq(lr, x);
            }
            TAir::Mul { degree, reps, .. } => {
                let main = builder.main();
                let main_local = main.current_slice();
                let preprocessed = builder.preprocessed().clone();
                let pl = preprocessed.current_slice();
                let pn = preprocessed.next_slice();
                for (i, c) in main_local.iter().enumerate() {
                    let a = pl[2 * i];
                    let b = pl[2 * i + 1];
                    builder.assert_zero(a.into().exp_u64(*degree - 1) * b - *c);
                    builder.when_first_row().assert_eq(a * a + AB::Expr::ONE, b);
                    let next_a = pn[2 * i];
                    builder
                        .when_transition()
                        .assert_eq(a + AB::Expr::from_u8(*reps as u8), next_a);
                }
            }
            TAir::Per { .. } => {
                let p = builder.periodic_values()[0];
                let main = builder.main();
                let x = main.current_slice()[0];
                let nx = main.next_slice()[0];
                let start = builder.public_values()[0];
                builder.when_first_row().assert_eq(x, start);
                let p: AB::Expr = p.into();
                builder.when_transition().assert_eq((x + AB::Expr::ONE) * p, nx);
            }
            TAir::Add | TAir::AddLocal => {
                let main = builder.main();
                let r = main.current_slice();
                builder.assert_zero(r[0] + r[1] - r[2]);
            }
        }
    }
}

// ==========================================================================================
// case types
// ==========================================================================================

#[derive(Clone, Debug, Serialize, Deserialize, Hash, PartialEq, Eq)]
pub struct FriSel {
    pub log_blowup: u8,
    pub num_queries: u8,
    pub log_final_poly_len: u8,
    pub max_log_arity: u8,
    pub commit_pow: u8,
    pub query_pow: u8,
    pub cap_height: u8,
}

/// Resolved FRI parameters.
#[derive(Clone, Debug, PartialEq, Eq, Hash)]
pub struct RFri {
    pub log_blowup: usize,         // 1..=3
    pub num_queries: usize,        // 1..=3
    pub log_final_poly_len: usize, // 0..=2 (clamped below the smallest trace height)
    pub max_log_arity: usize,      // 1..=3
    pub commit_pow: usize,         // {0,1,4}
    pub query_pow: usize,          // {0,1,4}
    pub cap_height: usize,         // 0..=1
}

impl FriSel {
    fn resolve(&self) -> RFri {
        RFri {
            log_blowup: 1 + (self.log_blowup % 3) as usize,
            num_queries: 1 + (self.num_queries % 3) as usize,
            log_final_poly_len: (self.log_final_poly_len % 3) as usize,
            max_log_arity: 1 + (self.max_log_arity % 3) as usize,
            commit_pow: [0usize, 1, 4][(self.commit_pow % 3) as usize],
            query_pow: [0usize, 1, 4][(self.query_pow % 3) as usize],
            cap_height: (self.cap_height % 2) as usize,
        }
    }
}

impl RFri {
    /// p3-fri prover precondition: with `log_final_poly_len > 0` every committed matrix must be
    /// strictly taller than the final polynomial; the circuit needs >= 1 fold phase.
    fn clamp_to(&self, min_log_h: usize, min_log_blowup: usize) -> RFri {
        let mut r = self.clone();
        r.log_blowup = r.log_blowup.max(min_log_blowup);
        r.log_final_poly_len = r.log_final_poly_len.min(min_log_h.saturating_sub(1));
        r
    }
    fn label(&self) -> String {
        format!(
            "b{}q{}f{}a{}c{}p{}h{}",
            self.log_blowup,
            self.num_queries,
            self.log_final_poly_len,
            self.max_log_arity,
            self.commit_pow,
            self.query_pow,
            self.cap_height
        )
    }
}

#[derive(Clone, Debug, Serialize, Deserialize, Hash, PartialEq, Eq)]
pub struct AirSel {
    /// selects the AIR / circuit kind among those of the configuration
    pub kind: u8,
    /// log2 of the trace length (uni, direct batch) / size parameter of the tiny circuit
    pub size: u8,
    /// MulAir degree - 2 (mod 3) / second size parameter
    pub degree: u8,
    /// MulAir repetitions - 1 (mod 3) / number of extra instances in a direct batch
    pub reps: u8,
}

#[derive(Clone, Debug, Serialize, Deserialize, Hash, PartialEq, Eq)]
pub struct Mutation {
    /// selects the leaf class (JSON path with indices erased) among those present
    pub class: u16,
    /// selects the leaf inside the class
    pub leaf: u16,
    /// new value = old + 1 + delta (mod p, or mod the small range of an index leaf)
    pub delta: u64,
    /// additionally evaluate on a circuit rebuilt from scratch and compare (cache self-check)
    #[serde(default)]
    pub recheck: bool,
    /// explicit concrete JSON path (enumerations, hand-written replays); overrides class/leaf
    #[serde(default)]
    pub path: Option<String>,
}

#[derive(Clone, Debug, Serialize, Deserialize, Hash, PartialEq, Eq)]
pub struct Case {
    /// configuration name (see `CONFIGS`)
    pub cfg: String,
    pub fri: FriSel,
    pub air: AirSel,
    pub seed: u64,
    /// each alteration is applied ON ITS OWN to the honest bundle (never combined)
    pub muts: Vec<Mutation>,
    /// `Some((cell, delta))`: additionally evaluate the proof the (non-checking, release-profile)
    /// prover produces from a trace in which one cell was altered, i.e. a proof whose only
    /// defect is that the committed trace violates the AIR (or unbalances the lookup bus)
    #[serde(default)]
    pub bad_trace: Option<(u16, u64)>,
    /// bit 0 / bit 1: additionally evaluate a proof whose commit-phase / query proof-of-work was
    /// ground for 1 bit while both verifiers demand the configured 4 bits (a proof that
    /// is valid except for its grinding)
    #[serde(default)]
    pub under_grind: u8,
}

thread_local! {
    /// prover-side reduction of the PoW bits while an under-ground instance is being made
    static UNDER_GRIND: std::cell::Cell<u8> = const { std::cell::Cell::new(0) };
}

/// FRI parameters the *prover* uses (the verifiers always use `fri`).
pub fn prover_fri(fri: &RFri) -> RFri {
    let u = UNDER_GRIND.with(|c| c.get());
    let mut f = fri.clone();
    // ground for ONE bit instead of the configured 4: with 0 bits the prover would skip the
    // witness observation altogether and the transcripts would diverge, so the grinding would
    // not be the proof's only defect
    if u & 1 != 0 && f.commit_pow > 1 {
        f.commit_pow = 1;
    }
    if u & 2 != 0 && f.query_pow > 1 {
        f.query_pow = 1;
    }
    f
}

// ==========================================================================================
// verdicts, instance interface
// ==========================================================================================

#[derive(Clone, Debug, PartialEq, Eq)]
pub enum CV {
    Accept,
    Reject { stage: &'static str, err: String },
}

impl CV {
    fn rej(stage: &'static str, err: impl Into<String>) -> Self {
        CV::Reject {
            stage,
            err: err.into(),
        }
    }
    fn label(&self) -> String {
        match self {
            CV::Accept => "accept".into(),
            CV::Reject { stage, err } => format!("reject@{stage}:{err}"),
        }
    }
    fn is_accept(&self) -> bool {
        matches!(self, CV::Accept)
    }
}

pub struct Eval {
    pub native: Result<(), String>,
    pub circuit: CV,
    /// verdict of a circuit rebuilt from scratch (only when asked for)
    pub rebuilt: Option<CV>,
    /// the cached circuit of the shape was reused
    pub cache_hit: bool,
}

/// One honest proof of one configuration, able to evaluate altered bundles.
pub trait Inst {
    /// JSON of the honest bundle
    fn json(&self) -> &Value;
    /// field modulus
    fn p(&self) -> u64;
    /// human-readable shape (config, FRI parameters, AIR parameters)
    fn shape(&self) -> String;
    /// evidence labels about the shape
    fn shape_classes(&self) -> Vec<String>;
    /// what the instance is made of, for the signature of an honest-proof rejection
    fn honest_tag(&self) -> String;
    /// `Err` = the altered JSON does not deserialise (not a well-formed bundle)
    fn eval(&self, bundle: &Value, recheck: bool) -> Result<Eval, String>;
}

fn first_word(s: &str) -> String {
    s.split(|c: char| !c.is_alphanumeric())
        .find(|w| !w.is_empty())
        .unwrap_or("Err")
        .chars()
        .take(48)
        .collect()
}

fn err_label<E: std::fmt::Debug>(e: &E) -> String {
    // leading capitalised identifiers of the Debug rendering (at most three), e.g.
    // `Verification-InvalidOpeningArgument-InputError`, `InvalidProofShape-DegreeBitsTooLarge`
    let s = format!("{e:?}");
    let mut out: Vec<String> = vec![];
    for w in s.split(|c: char| !c.is_alphanumeric() && c != '_').filter(|w| !w.is_empty()) {
        if out.len() >= 3 || !w.chars().next().is_some_and(|c| c.is_uppercase()) {
            if out.is_empty() && w.chars().next().is_some_and(|c| c.is_alphabetic()) {
                out.push(w.chars().take(40).collect());
            }
            break;
        }
        out.push(w.chars().take(40).collect());
    }
    if out.is_empty() { "Err".to_string() } else { out.join("-") }
}

static T_PROVE: AtomicU64 = AtomicU64::new(0);
static T_NATIVE: AtomicU64 = AtomicU64::new(0);
static T_BUILD: AtomicU64 = AtomicU64::new(0);
static T_RUN: AtomicU64 = AtomicU64::new(0);
static N_BUILD: AtomicU64 = AtomicU64::new(0);
static N_RUN: AtomicU64 = AtomicU64::new(0);
static N_HIT: AtomicU64 = AtomicU64::new(0);

fn timed<R>(acc: &AtomicU64, f: impl FnOnce() -> R) -> R {
    let t = Instant::now();
    let r = f();
    acc.fetch_add(t.elapsed().as_micros() as u64, Ordering::Relaxed);
    r
}

// ==========================================================================================
// JSON leaves
// ==========================================================================================

#[derive(Clone, Debug, PartialEq, Eq)]
enum Seg {
    K(String),
    I(usize),
}

/// Keys whose numeric descendants decide the *shape* of the verification circuit (they are read
/// as Rust integers by the circuit builder, not packed as field elements).
const STRUCTURAL_KEYS: &[&str] = &[
    "degree_bits",
    "log_arity",
    "matrix_index",
    "width",
    "matrix_to_instance",
];

fn is_structural(path: &[Seg]) -> bool {
    path.iter()
        .any(|s| matches!(s, Seg::K(k) if STRUCTURAL_KEYS.contains(&k.as_str())))
}

/// Keys under which nothing is altered (AIR-defining metadata of a `BatchStarkProof`: the
/// statement, not the proof / public values / commitments / common data).
const EXCLUDED_TOP: &[&str] = &[
    "table_packing",
    "rows",
    "alu_variant",
    "ext_degree",
    "w_binomial",
    "alu_quintic_trinomial",
    "non_primitives",
];

fn walk(v: &Value, path: &mut Vec<Seg>, out: &mut Vec<(Vec<Seg>, u64)>) {
    match v {
        Value::Number(n) => {
            if let Some(x) = n.as_u64() {
                out.push((path.clone(), x));
            }
        }
        Value::Array(a) => {
            for (i, x) in a.iter().enumerate() {
                path.push(Seg::I(i));
                walk(x, path, out);
                path.pop();
            }
        }
        Value::Object(o) => {
            for (k, x) in o.iter() {
                if EXCLUDED_TOP.contains(&k.as_str()) {
                    continue;
                }
                path.push(Seg::K(k.clone()));
                walk(x, path, out);
                path.pop();
            }
        }
        _ => {}
    }
}

/// Hash of everything that decides the circuit shape: keys, array lengths, nulls, and the
/// values of structural and excluded leaves (value leaves contribute their position only).
fn structure_hash(v: &Value) -> u64 {
    fn go(v: &Value, structural: bool, acc: &mut Vec<u8>) {
        match v {
            Value::Null => acc.push(0),
            Value::Bool(b) => acc.extend([1, *b as u8]),
            Value::Number(n) => {
                acc.push(2);
                if structural {
                    acc.extend(n.as_u64().unwrap_or(u64::MAX).to_le_bytes());
                }
            }
            Value::String(s) => {
                acc.push(3);
                acc.extend(s.as_bytes());
            }
            Value::Array(a) => {
                acc.push(4);
                acc.extend((a.len() as u64).to_le_bytes());
                for x in a {
                    go(x, structural, acc);
                }
            }
            Value::Object(o) => {
                acc.push(5);
                for (k, x) in o {
                    acc.extend(k.as_bytes());
                    acc.push(b':');
                    let st = structural
                        || STRUCTURAL_KEYS.contains(&k.as_str())
                        || EXCLUDED_TOP.contains(&k.as_str());
                    go(x, st, acc);
                }
            }
        }
    }
    let mut acc = vec![];
    go(v, false, &mut acc);
    hash_of(&acc)
}

fn fmt_path(p: &[Seg], erase: bool) -> String {
    let mut s = String::new();
    for seg in p {
        match seg {
            Seg::K(k) => {
                if !s.is_empty() {
                    s.push('.');
                }
                s.push_str(k);
            }
            Seg::I(i) => {
                if erase {
                    s.push_str("[]");
                } else {
                    s.push_str(&format!("[{i}]"));
                }
            }
        }
    }
    s
}

fn parse_path(s: &str) -> Option<Vec<Seg>> {
    let mut out = vec![];
    for tok in s.split('.') {
        let (key, mut rest) = match tok.find('[') {
            Some(i) => (&tok[..i], &tok[i..]),
            None => (tok, ""),
        };
        if !key.is_empty() {
            out.push(Seg::K(key.to_string()));
        }
        while !rest.is_empty() {
            let close = rest.find(']')?;
            out.push(Seg::I(rest[1..close].parse().ok()?));
            rest = &rest[close + 1..];
        }
    }
    Some(out)
}

fn get_mut<'a>(v: &'a mut Value, path: &[Seg]) -> Option<&'a mut Value> {
    let mut cur = v;
    for seg in path {
        cur = match seg {
            Seg::K(k) => cur.get_mut(k.as_str())?,
            Seg::I(i) => cur.get_mut(*i)?,
        };
    }
    Some(cur)
}

/// Range of an index leaf: new values are drawn from `0..=max`.
fn index_range(path: &[Seg]) -> u64 {
    let last_key = path
        .iter()
        .rev()
        .find_map(|s| if let Seg::K(k) = s { Some(k.as_str()) } else { None })
        .unwrap_or("");
    match last_key {
        "degree_bits" => 12,
        "log_arity" => 6,
        "width" => 12,
        _ => 5, // matrix_index, matrix_to_instance
    }
}

struct Applied {
    json: Value,
    class: String,
    path: String,
    old: u64,
    new: u64,
    structural: bool,
}

fn apply(
    honest: &Value,
    leaves: &[(Vec<Seg>, u64)],
    by_class: &BTreeMap<String, Vec<usize>>,
    p: u64,
    m: &Mutation,
) -> Result<Applied, String> {
    let (segs, old) = if let Some(ps) = &m.path {
        let segs = parse_path(ps).ok_or("unparsable path")?;
        let (_, old) = leaves
            .iter()
            .find(|(s, _)| *s == segs)
            .ok_or("path is not a numeric leaf of this bundle")?;
        (segs, *old)
    } else {
        let classes: Vec<&String> = by_class.keys().collect();
        let cl = classes[fw::pick(m.class, classes.len())];
        let idxs = &by_class[cl];
        let (segs, old) = &leaves[idxs[fw::pick(m.leaf, idxs.len())]];
        (segs.clone(), *old)
    };
    let structural = is_structural(&segs);
    let new = if structural {
        let r = index_range(&segs);
        // old may lie outside 0..=r (never for honest proofs of the generated sizes)
        let o = old.min(r);
        let n = (o + 1 + m.delta % r) % (r + 1);
        if n == old { (n + 1) % (r + 1) } else { n }
    } else {
        ((old as u128 + 1 + (m.delta % (p - 1)) as u128) % p as u128) as u64
    };
    let mut v = honest.clone();
    *get_mut(&mut v, &segs).ok_or("path vanished")? = Value::from(new);
    Ok(Applied {
        json: v,
        class: fmt_path(&segs, true),
        path: fmt_path(&segs, false),
        old,
        new,
        structural,
    })
}

// ==========================================================================================
// coverage bookkeeping (evidence only)
// ==========================================================================================

#[derive(Default)]
struct Cover {
    /// shape hash -> (all numeric leaf paths, distinct altered path hashes)
    shapes: BTreeMap<u64, (usize, BTreeSet<u64>)>,
    evaluated: u64,
    native_accepts: u64,
}

static COVER: Mutex<BTreeMap<String, Cover>> = Mutex::new(BTreeMap::new());

fn cover_note(cfg: &str, shape: u64, total: usize, path: Option<&str>, native_ok: bool) {
    let mut g = COVER.lock().unwrap();
    let c = g.entry(cfg.to_string()).or_default();
    let e = c.shapes.entry(shape).or_insert((total, BTreeSet::new()));
    if let Some(p) = path {
        e.1.insert(hash_of(&p));
        c.evaluated += 1;
        if native_ok {
            c.native_accepts += 1;
        }
    }
}

// ==========================================================================================
// configurations
// ==========================================================================================

/// Per-thread circuit cache size bound (entries are dropped wholesale when exceeded).
const CACHE_MAX: usize = 64;

thread_local! {
    static CACHE: RefCell<HashMap<u64, Rc<dyn std::any::Any>>> = RefCell::new(HashMap::new());
}

/// What a configuration family provides; `Inst` is implemented on top of it (caching, timing).
pub trait Fam {
    type Bundle: serde::de::DeserializeOwned;
    type Built: 'static;
    fn honest_json(&self) -> &Value;
    fn modulus(&self) -> u64;
    fn describe(&self) -> String;
    fn labels(&self) -> Vec<String>;
    /// AIR kind(s) / circuit kind, for the signature of an honest-proof rejection
    fn tag(&self) -> String;
    /// hash of everything outside the bundle that decides the circuit (config, FRI, AIRs)
    fn params_key(&self) -> u64;
    fn native(&self, b: &Self::Bundle) -> Result<(), String>;
    fn build(&self, b: &Self::Bundle) -> Result<Self::Built, CV>;
    fn run(&self, built: &Self::Built, b: &Self::Bundle) -> CV;
}

impl<T: Fam> Inst for T {
    fn json(&self) -> &Value {
        self.honest_json()
    }
    fn p(&self) -> u64 {
        self.modulus()
    }
    fn shape(&self) -> String {
        self.describe()
    }
    fn shape_classes(&self) -> Vec<String> {
        self.labels()
    }
    fn honest_tag(&self) -> String {
        self.tag()
    }
    fn eval(&self, v: &Value, recheck: bool) -> Result<Eval, String> {
        let b: T::Bundle = match catch(|| serde_json::from_value::<T::Bundle>(v.clone())) {
            Ok(Ok(b)) => b,
            Ok(Err(e)) => return Err(format!("deserialise: {e}")),
            Err(p) => return Err(format!("deserialise panic: {p}")),
        };
        let native = timed(&T_NATIVE, || match catch(|| self.native(&b)) {
            Ok(r) => r,
            Err(p) => Err(format!("panic:{}", sig_of_panic(&p))),
        });
        let key = hash_of(&(self.params_key(), structure_hash(v)));
        let guarded_build = |b: &T::Bundle| -> Result<T::Built, CV> {
            match catch(|| self.build(b)) {
                Ok(x) => x,
                Err(p) => Err(CV::rej("build-panic", sig_of_panic(&p))),
            }
        };
        let guarded_run = |bl: &T::Built, b: &T::Bundle| -> CV {
            match catch(|| self.run(bl, b)) {
                Ok(v) => v,
                Err(p) => CV::rej("run-panic", sig_of_panic(&p)),
            }
        };
        let cached: Option<Rc<T::Built>> = CACHE.with(|c| {
            c.borrow()
                .get(&key)
                .cloned()
                .and_then(|rc| rc.downcast::<T::Built>().ok())
        });
        let cache_hit = cached.is_some();
        let built: Result<Rc<T::Built>, CV> = match cached {
            Some(bl) => {
                N_HIT.fetch_add(1, Ordering::Relaxed);
                Ok(bl)
            }
            None => {
                N_BUILD.fetch_add(1, Ordering::Relaxed);
                match timed(&T_BUILD, || guarded_build(&b)) {
                    Ok(bl) => {
                        let rc = Rc::new(bl);
                        CACHE.with(|c| {
                            let mut c = c.borrow_mut();
                            if c.len() >= CACHE_MAX {
                                c.clear();
                            }
                            c.insert(key, rc.clone() as Rc<dyn std::any::Any>);
                        });
                        Ok(rc)
                    }
                    Err(cv) => Err(cv),
                }
            }
        };
        let circuit = match &built {
            Ok(bl) => {
                N_RUN.fetch_add(1, Ordering::Relaxed);
                timed(&T_RUN, || guarded_run(bl, &b))
            }
            Err(cv) => cv.clone(),
        };
        let rebuilt = if recheck && cache_hit {
            N_BUILD.fetch_add(1, Ordering::Relaxed);
            Some(match timed(&T_BUILD, || guarded_build(&b)) {
                Ok(bl) => timed(&T_RUN, || guarded_run(&bl, &b)),
                Err(cv) => cv,
            })
        } else {
            None
        };
        Ok(Eval {
            native,
            circuit,
            rebuilt,
            cache_hit,
        })
    }
}

thread_local! {
    static POOL1: rayon::ThreadPool = rayon::ThreadPoolBuilder::new()
        .num_threads(1)
        .build()
        .expect("single-thread rayon pool");
}

/// `HidingFriPcs::get_quotient_ldes` (p3-fri 0.6.3) holds its `spin::Mutex<Rng>` while it runs a
/// parallel DFT; `prove_batch` calls it from a `par_iter` over the instances, so a rayon worker
/// waiting inside the DFT can steal the next instance's job, spin on the lock it already holds
/// and never return (observed: two workers spinning in `get_quotient_ldes`, 50 CPU-minutes).
/// That is a liveness defect of the upstream *prover*, outside this property; the ZK provers are
/// therefore run on a one-thread rayon pool (LIFO job order on a single worker cannot re-enter).
pub fn serial_if<R: Send>(serial: bool, f: impl FnOnce() -> R + Send) -> R {
    if serial {
        POOL1.with(|p| p.install(f))
    } else {
        f()
    }
}

/// `(instance cell index, delta)`: the prover is run on a trace with one altered cell.
pub type BadTrace = Option<(u16, u64)>;

// ------------------------------------------------------------------------------------------
// family: uni-STARK  (p3_uni_stark::prove / verify, verify_p3_uni_proof_circuit)
// ------------------------------------------------------------------------------------------

macro_rules! uni_family {
    ($label:expr) => {
        pub mod uni {
            use super::*;

            pub type Pcs = TwoAdicFriPcs<F, Dft, ValMmcs, ChMmcs>;
            pub type SC = StarkConfig<Pcs, Challenge, DetCh<Challenger>>;
            pub type InnerFri = FriProofTargets<F, Challenge, RecExt, InP, Witness<F>>;
            type Com = <Pcs as p3_commit::Pcs<Challenge, DetCh<Challenger>>>::Commitment;

            pub fn make_config(fri: &RFri, seed: u64) -> SC {
                let val_mmcs = val_mmcs(fri.cap_height, seed);
                let fp = fri_parameters(fri, ChMmcs::new(val_mmcs.clone()));
                SC::new(Pcs::new(Dft::default(), val_mmcs, fp), DetCh(challenger()))
            }

            #[derive(Serialize, Deserialize)]
            pub struct Bundle {
                proof: Proof<SC>,
                pis: Vec<F>,
                prep: Option<Com>,
            }

            pub struct Built {
                circuit: Circuit<Challenge>,
                ops: Vec<NonPrimitiveOpId>,
                vi: StarkVerifierInputsBuilder<SC, CapT, InnerFri>,
            }

            pub struct UniInst {
                fri: RFri,
                air: TAir,
                log_n: usize,
                config: SC,
                /// (width, degree_bits) of the honest preprocessed verifier key
                vk_meta: Option<(usize, usize)>,
                json: Value,
            }

            impl UniInst {
                pub fn new(fri: &RFri, air: TAir, log_n: usize, seed: u64, bad: BadTrace) -> Result<Self, String> {
                    let fri = fri.clamp_to(log_n, air.min_log_blowup());
                    let config = make_config(&fri, seed);
                    let pconfig = make_config(&prover_fri(&fri), seed);
                    let (mut trace, pis) = air.trace::<F>(log_n, seed);
                    if let Some((cell, delta)) = bad {
                        let i = fw::pick(cell, trace.values.len());
                        trace.values[i] += F::from_u64(delta % (<F as PrimeField64>::ORDER_U64 - 1)) + F::ONE;
                    }
                    let r = catch(|| {
                        let (pd, vk) = setup_preprocessed(&pconfig, &air, log_n).unzip();
                        let proof = prove_with_preprocessed(&pconfig, &air, trace, &pis, pd.as_ref());
                        (proof, vk)
                    });
                    let (proof, vk) = r.map_err(|p| format!("prover panicked: {p}"))?;
                    let vk_meta = vk.as_ref().map(|k| (k.width, k.degree_bits));
                    let bundle = Bundle {
                        proof,
                        pis,
                        prep: vk.map(|k| k.commitment),
                    };
                    let json = serde_json::to_value(&bundle).map_err(|e| format!("serialise: {e}"))?;
                    Ok(Self {
                        fri,
                        air,
                        log_n,
                        config,
                        vk_meta,
                        json,
                    })
                }
            }

            impl Fam for UniInst {
                type Bundle = Bundle;
                type Built = Built;
                fn honest_json(&self) -> &Value {
                    &self.json
                }
                fn modulus(&self) -> u64 {
                    <F as PrimeField64>::ORDER_U64
                }
                fn describe(&self) -> String {
                    format!("uni-{} {} {:?} log_n={}", $label, self.fri.label(), self.air, self.log_n)
                }
                fn labels(&self) -> Vec<String> {
                    vec![format!("air:{}", self.air.kind()), format!("log_n:{}", self.log_n)]
                }
                fn tag(&self) -> String {
                    self.air.kind().to_string()
                }
                fn params_key(&self) -> u64 {
                    hash_of(&("uni", $label, &self.fri, &self.air, self.log_n))
                }
                fn native(&self, b: &Bundle) -> Result<(), String> {
                    let vk = match (&b.prep, self.vk_meta) {
                        (Some(c), Some((width, degree_bits))) => Some(PreprocessedVerifierKey::<SC> {
                            width,
                            degree_bits,
                            commitment: c.clone(),
                        }),
                        _ => None,
                    };
                    verify_with_preprocessed(&self.config, &self.air, &b.proof, &b.pis, vk.as_ref())
                        .map_err(|e| err_label(&e))
                }
                fn build(&self, b: &Bundle) -> Result<Built, CV> {
                    let mut cb = new_builder();
                    let vi = StarkVerifierInputsBuilder::<SC, CapT, InnerFri>::allocate(
                        &mut cb,
                        &b.proof,
                        b.prep.as_ref(),
                        b.pis.len(),
                    );
                    let ops = verify_p3_uni_proof_circuit::<TAir, SC, CapT, InP, InnerFri, _, WIDTH, RATE>(
                        &self.config,
                        &self.air,
                        &mut cb,
                        &vi.proof_targets,
                        &vi.air_public_targets,
                        &vi.preprocessed_commit,
                        &fri_verifier_params(&self.fri),
                        PCFG,
                    )
                    .map_err(|e| CV::rej("verify_circuit", err_label(&e)))?;
                    let circuit = cb.build().map_err(|e| CV::rej("build", err_label(&e)))?;
                    Ok(Built { circuit, ops, vi })
                }
                fn run(&self, built: &Built, b: &Bundle) -> CV {
                    let (pubs, privs) = built.vi.pack_values(&b.pis, &b.proof, &b.prep);
                    let mut runner = built.circuit.runner();
                    if let Err(e) = runner.set_public_inputs(&pubs) {
                        return CV::rej("set_public", err_label(&e));
                    }
                    if let Err(e) = runner.set_private_inputs(&privs) {
                        return CV::rej("set_private", err_label(&e));
                    }
                    if let Err(e) = set_private_fri(&mut runner, &built.ops, &b.proof.opening_proof) {
                        return CV::rej("mmcs_private_data", e.replace(' ', "-"));
                    }
                    match runner.run() {
                        Ok(_) => CV::Accept,
                        Err(e) => CV::rej("run", err_label(&e)),
                    }
                }
            }
        }
    };
}

// ------------------------------------------------------------------------------------------
// family: direct batch-STARK  (p3_batch_stark::prove_batch / verify_batch, verify_batch_circuit)
// with `TwoAdicFriPcs` (plain) or `HidingFriPcs` (ZK)
// ------------------------------------------------------------------------------------------

macro_rules! dbatch_family {
    (@pcs plain) => {
        pub type Pcs = TwoAdicFriPcs<F, Dft, ValMmcs, ChMmcs>;
        pub type InnerFri = FriProofTargets<F, Challenge, RecExt, InP, Witness<F>>;
        const ZK: usize = 0;
        fn new_pcs(val_mmcs: ValMmcs, fp: FriParameters<ChMmcs>, _seed: u64) -> Pcs {
            Pcs::new(Dft::default(), val_mmcs, fp)
        }
        fn inner_fri(p: &<Pcs as p3_commit::Pcs<Challenge, DetCh<Challenger>>>::Proof) -> &FriProofOf {
            p
        }
    };
    (@pcs hiding) => {
        pub type Pcs = HidingFriPcs<F, Dft, ValMmcs, ChMmcs, SmallRng>;
        pub type InnerFri = HidingFriProofTargets<F, Challenge, RecExt, InP, Witness<F>>;
        const ZK: usize = 1;
        fn new_pcs(val_mmcs: ValMmcs, fp: FriParameters<ChMmcs>, seed: u64) -> Pcs {
            Pcs::new(Dft::default(), val_mmcs, fp, 2, SmallRng::seed_from_u64(seed ^ 0x7a6b))
        }
        fn inner_fri(p: &<Pcs as p3_commit::Pcs<Challenge, DetCh<Challenger>>>::Proof) -> &FriProofOf {
            &p.1
        }
    };
    ($m:ident, $label:expr, $kind:tt) => {
        pub mod $m {
            use super::*;

            dbatch_family!(@pcs $kind);
            pub type SC = StarkConfig<Pcs, Challenge, DetCh<Challenger>>;
            type Com = <Pcs as p3_commit::Pcs<Challenge, DetCh<Challenger>>>::Commitment;

            pub fn make_config(fri: &RFri, seed: u64) -> SC {
                let val_mmcs = val_mmcs(fri.cap_height, seed);
                let fp = fri_parameters(fri, ChMmcs::new(val_mmcs.clone()));
                SC::new(new_pcs(val_mmcs, fp, seed), DetCh(challenger()))
            }

            #[derive(Serialize, Deserialize)]
            pub struct Meta {
                matrix_index: usize,
                width: usize,
                degree_bits: usize,
            }
            #[derive(Serialize, Deserialize)]
            pub struct SerCommon {
                commitment: Com,
                instances: Vec<Option<Meta>>,
                matrix_to_instance: Vec<usize>,
            }
            #[derive(Serialize, Deserialize)]
            pub struct Bundle {
                proof: BatchProof<SC>,
                pis: Vec<Vec<F>>,
                common: Option<SerCommon>,
            }

            pub struct Built {
                circuit: Circuit<Challenge>,
                ops: Vec<NonPrimitiveOpId>,
                vi: BatchStarkVerifierInputsBuilder<SC, CapT, InnerFri>,
            }

            pub struct DbInst {
                fri: RFri,
                airs: Vec<TAir>,
                log_ns: Vec<usize>,
                config: SC,
                lookups: Vec<Lookups<F>>,
                json: Value,
            }

            impl DbInst {
                pub fn new(fri: &RFri, airs: Vec<(TAir, usize)>, seed: u64, bad: BadTrace) -> Result<Self, String> {
                    let min_log_h = airs.iter().map(|(_, l)| *l).min().unwrap() + ZK;
                    let min_blowup = airs.iter().map(|(a, _)| a.min_log_blowup()).max().unwrap() + ZK;
                    let fri = fri.clamp_to(min_log_h, min_blowup);
                    let config = make_config(&fri, seed);
                    let pconfig = make_config(&prover_fri(&fri), seed);
                    let mut traces: Vec<(RowMajorMatrix<F>, Vec<F>)> = airs
                        .iter()
                        .enumerate()
                        .map(|(i, (a, l))| a.trace::<F>(*l, seed.wrapping_add(i as u64)))
                        .collect();
                    if let Some((cell, delta)) = bad {
                        let total: usize = traces.iter().map(|(t, _)| t.values.len()).sum();
                        let mut i = fw::pick(cell, total);
                        for (t, _) in traces.iter_mut() {
                            if i < t.values.len() {
                                t.values[i] += F::from_u64(delta % (<F as PrimeField64>::ORDER_U64 - 1)) + F::ONE;
                                break;
                            }
                            i -= t.values.len();
                        }
                    }
                    let (log_ns, airs): (Vec<usize>, Vec<TAir>) = (
                        airs.iter().map(|(_, l)| *l).collect(),
                        airs.into_iter().map(|(a, _)| a).collect(),
                    );
                    let r = serial_if(ZK == 1, || catch(|| {
                        let instances: Vec<StarkInstance<'_, SC, TAir>> = airs
                            .iter()
                            .zip(&traces)
                            .map(|(air, (t, pv))| StarkInstance {
                                air,
                                trace: t,
                                public_values: pv.clone(),
                            })
                            .collect();
                        let pd = ProverData::from_instances(&pconfig, &instances);
                        let proof = prove_batch(&pconfig, &instances, &pd);
                        (proof, pd.common)
                    }));
                    let (proof, common) = r.map_err(|p| format!("prover panicked: {p}"))?;
                    let bundle = Bundle {
                        proof,
                        pis: traces.into_iter().map(|(_, pv)| pv).collect(),
                        common: common.preprocessed.as_ref().map(|g| SerCommon {
                            commitment: g.commitment.clone(),
                            instances: g
                                .instances
                                .iter()
                                .map(|o| {
                                    o.as_ref().map(|m| Meta {
                                        matrix_index: m.matrix_index,
                                        width: m.width,
                                        degree_bits: m.degree_bits,
                                    })
                                })
                                .collect(),
                            matrix_to_instance: g.matrix_to_instance.clone(),
                        }),
                    };
                    let json = serde_json::to_value(&bundle).map_err(|e| format!("serialise: {e}"))?;
                    Ok(Self {
                        fri,
                        airs,
                        log_ns,
                        config,
                        lookups: common.lookups,
                        json,
                    })
                }

                fn common(&self, b: &Bundle) -> CommonData<SC> {
                    CommonData::new(
                        b.common.as_ref().map(|c| GlobalPreprocessed {
                            commitment: c.commitment.clone(),
                            instances: c
                                .instances
                                .iter()
                                .map(|o| {
                                    o.as_ref().map(|m| PreprocessedInstanceMeta {
                                        matrix_index: m.matrix_index,
                                        width: m.width,
                                        degree_bits: m.degree_bits,
                                    })
                                })
                                .collect(),
                            matrix_to_instance: c.matrix_to_instance.clone(),
                        }),
                        self.lookups.clone(),
                    )
                }
            }

            impl Fam for DbInst {
                type Bundle = Bundle;
                type Built = Built;
                fn honest_json(&self) -> &Value {
                    &self.json
                }
                fn modulus(&self) -> u64 {
                    <F as PrimeField64>::ORDER_U64
                }
                fn describe(&self) -> String {
                    format!(
                        "{}-{} {} airs={:?} log_ns={:?}",
                        stringify!($m),
                        $label,
                        self.fri.label(),
                        self.airs,
                        self.log_ns
                    )
                }
                fn labels(&self) -> Vec<String> {
                    let mut v: Vec<String> = self.airs.iter().map(|a| format!("air:{}", a.kind())).collect();
                    v.sort();
                    v.dedup();
                    v.push(format!("instances:{}", self.airs.len()));
                    let hs: BTreeSet<usize> = self.log_ns.iter().copied().collect();
                    v.push(format!("distinct_heights:{}", hs.len()));
                    v
                }
                fn tag(&self) -> String {
                    if self.airs.iter().any(|a| matches!(a, TAir::Per { .. })) {
                        "periodic".to_string()
                    } else {
                        let mut v: Vec<&str> = self.airs.iter().map(|a| a.kind()).collect();
                        v.sort();
                        v.dedup();
                        v.join("+")
                    }
                }
                fn params_key(&self) -> u64 {
                    hash_of(&(stringify!($m), $label, &self.fri, &self.airs, &self.log_ns))
                }
                fn native(&self, b: &Bundle) -> Result<(), String> {
                    let common = self.common(b);
                    verify_batch(&self.config, &self.airs, &b.proof, &b.pis, &common).map_err(|e| err_label(&e))
                }
                fn build(&self, b: &Bundle) -> Result<Built, CV> {
                    let common = self.common(b);
                    let mut cb = new_builder();
                    let counts: Vec<usize> = b.pis.iter().map(|p| p.len()).collect();
                    let vi = BatchStarkVerifierInputsBuilder::<SC, CapT, InnerFri>::allocate(
                        &mut cb, &b.proof, &common, &counts,
                    );
                    let ops = verify_batch_circuit::<TAir, SC, CapT, InP, InnerFri, LogUpGadget, _, WIDTH, RATE>(
                        &self.config,
                        &self.airs,
                        &mut cb,
                        &vi.proof_targets,
                        &vi.air_public_targets,
                        &fri_verifier_params(&self.fri),
                        &vi.common_data,
                        &LogUpGadget::new(),
                        PCFG,
                    )
                    .map_err(|e| CV::rej("verify_circuit", err_label(&e)))?;
                    let circuit = cb.build().map_err(|e| CV::rej("build", err_label(&e)))?;
                    Ok(Built { circuit, ops, vi })
                }
                fn run(&self, built: &Built, b: &Bundle) -> CV {
                    let common = self.common(b);
                    let (pubs, privs) = built.vi.pack_values(&b.pis, &b.proof, &common);
                    let mut runner = built.circuit.runner();
                    if let Err(e) = runner.set_public_inputs(&pubs) {
                        return CV::rej("set_public", err_label(&e));
                    }
                    if let Err(e) = runner.set_private_inputs(&privs) {
                        return CV::rej("set_private", err_label(&e));
                    }
                    if let Err(e) = set_private_fri(&mut runner, &built.ops, inner_fri(&b.proof.opening_proof)) {
                        return CV::rej("mmcs_private_data", e.replace(' ', "-"));
                    }
                    match runner.run() {
                        Ok(_) => CV::Accept,
                        Err(e) => CV::rej("run", err_label(&e)),
                    }
                }
            }
        }
    };
}

// ------------------------------------------------------------------------------------------
// family: BatchStarkProver  (prove_all_tables / verify_all_tables, verify_p3_batch_proof_circuit)
// ------------------------------------------------------------------------------------------

/// Tiny circuits over `CF`; returns the builder and the public inputs.
pub fn tiny_circuit<CF: Field>(sel: &AirSel, seed: u64) -> (p3_circuit::CircuitBuilder<CF>, Vec<CF>, &'static str) {
    let mut rng = SmallRng::seed_from_u64(seed);
    let mut rnd = || CF::from_u64(rng.random::<u64>() | 1);
    let mut b = p3_circuit::CircuitBuilder::<CF>::new();
    match sel.kind % 3 {
        0 => {
            // Fibonacci: F(n) == public
            let n = 2 + (sel.size as usize % 12);
            let expected = b.public_input();
            let mut x = b.define_const(CF::ZERO);
            let mut y = b.define_const(CF::ONE);
            let (mut vx, mut vy) = (CF::ZERO, CF::ONE);
            for _ in 2..=n {
                let nx = b.add(x, y);
                x = y;
                y = nx;
                let nv = vx + vy;
                vx = vy;
                vy = nv;
            }
            b.connect(y, expected);
            (b, vec![vy], "fib")
        }
        1 => {
            // y = a*x + b, repeated
            let n = 1 + (sel.size as usize % 6);
            let (x, a, c, expected) = (b.public_input(), b.public_input(), b.public_input(), b.public_input());
            let (vx, va, vc) = (rnd(), rnd(), rnd());
            let mut y = b.mul(a, x);
            y = b.add(c, y);
            let mut vy = va * vx + vc;
            for _ in 0..n {
                y = b.mul(a, y);
                y = b.add(c, y);
                vy = va * vy + vc;
            }
            b.connect(y, expected);
            (b, vec![vx, va, vc, vy], "arith")
        }
        _ => {
            // mixed ops with a constant, a subtraction and a division
            let (p0, p1, expected) = (b.public_input(), b.public_input(), b.public_input());
            let (v0, v1, vk) = (rnd(), rnd(), rnd());
            let k = b.define_const(vk);
            let t1 = b.mul(p0, p1);
            let t2 = b.add(t1, k);
            let t3 = b.sub(t2, p0);
            let t4 = b.div(t3, p1);
            let mut y = t4;
            let mut vy = (v0 * v1 + vk - v0) * v1.inverse();
            for _ in 0..(sel.size as usize % 4) {
                y = b.mul(y, k);
                y = b.add(y, p0);
                vy = vy * vk + v0;
            }
            b.connect(y, expected);
            (b, vec![v0, v1, vy], "mixed")
        }
    }
}

macro_rules! bsp_family {
    ($m:ident, $label:expr, $cf:ty, $d:literal) => {
        pub mod $m {
            use super::*;

            pub type Pcs = TwoAdicFriPcs<F, Dft, ValMmcs, ChMmcs>;
            pub type SC = StarkConfig<Pcs, Challenge, DetCh<Challenger>>;
            pub type InnerFri = FriProofTargets<F, Challenge, RecExt, InP, Witness<F>>;
            pub type CF = $cf;

            pub fn make_config(fri: &RFri, seed: u64) -> SC {
                let val_mmcs = val_mmcs(fri.cap_height, seed);
                let fp = fri_parameters(fri, ChMmcs::new(val_mmcs.clone()));
                SC::new(Pcs::new(Dft::default(), val_mmcs, fp), DetCh(challenger()))
            }

            pub struct Built {
                circuit: Circuit<Challenge>,
                ops: Vec<NonPrimitiveOpId>,
                vi: BatchStarkVerifierInputsBuilder<SC, CapT, InnerFri>,
            }

            pub struct BspInst {
                fri: RFri,
                kind: &'static str,
                packing: (usize, usize),
                degrees: Vec<usize>,
                config: SC,
                prover: BatchStarkProver<SC>,
                lookups: Vec<Lookups<F>>,
                n_tables: usize,
                json: Value,
            }

            fn split_common(c: &CommonData<SC>, lookups: &[Lookups<F>]) -> CommonData<SC> {
                CommonData::new(
                    c.preprocessed.as_ref().map(|g| GlobalPreprocessed {
                        commitment: g.commitment.clone(),
                        instances: g.instances.clone(),
                        matrix_to_instance: g.matrix_to_instance.clone(),
                    }),
                    lookups.to_vec(),
                )
            }

            impl BspInst {
                pub fn new(fri: &RFri, sel: &AirSel, seed: u64, bad: BadTrace) -> Result<Self, String> {
                    let (builder, publics, kind) = tiny_circuit::<CF>(sel, seed);
                    let packing_sel = [(1usize, 1usize), (2, 4), (4, 4), (1, 2)][(sel.degree % 4) as usize];
                    // the p3-fri prover needs every committed matrix strictly taller than the final
                    // polynomial when log_final_poly_len > 0
                    let packing = TablePacking::new(packing_sel.0, packing_sel.1)
                        .with_min_trace_height(1 << (fri.log_final_poly_len + 1));
                    let r = catch(|| -> Result<_, String> {
                        let circuit = builder.build().map_err(|e| format!("circuit build: {e:?}"))?;
                        let (airs_degrees, prim, nonprim) = get_airs_and_degrees_with_prep::<SC, CF, $d>(
                            &circuit,
                            &packing,
                            &[],
                            &[],
                            ConstraintProfile::Standard,
                        )
                        .map_err(|e| format!("airs: {e:?}"))?;
                        let (airs, degrees): (Vec<_>, Vec<usize>) = airs_degrees.into_iter().unzip();
                        let mut runner = circuit.runner();
                        runner.set_public_inputs(&publics).map_err(|e| format!("publics: {e:?}"))?;
                        let mut traces = runner.run().map_err(|e| format!("run: {e:?}"))?;
                        if let Some((cell, delta)) = bad {
                            // one public value or one ALU operand cell
                            let np = traces.public_trace.values.len();
                            let na = traces.alu_trace.values.len() * 4;
                            let i = fw::pick(cell, np + na);
                            if i < np {
                                traces.public_trace.values[i] += CF::from_u64(delta | 1);
                            } else {
                                traces.alu_trace.values[(i - np) / 4][(i - np) % 4] += CF::from_u64(delta | 1);
                            }
                        }
                        let min_log_h = *degrees.iter().min().unwrap();
                        let fri = fri.clamp_to(min_log_h, 1);
                        let pconfig = make_config(&prover_fri(&fri), seed);
                        let pd = ProverData::from_airs_and_degrees(&pconfig, &airs, &degrees);
                        let cpd = CircuitProverData::new(pd, prim, nonprim);
                        let proving = BatchStarkProver::new(pconfig).with_table_packing(packing.clone());
                        let proof = proving
                            .prove_all_tables(&traces, &cpd)
                            .map_err(|e| format!("prove_all_tables: {e:?}"))?;
                        // the stored prover object is only used as the native *verifier*
                        let prover = BatchStarkProver::new(make_config(&fri, seed)).with_table_packing(packing.clone());
                        Ok((fri, degrees, prover, proof))
                    });
                    let (fri, degrees, prover, proof) = match r {
                        Ok(Ok(x)) => x,
                        Ok(Err(e)) => return Err(e),
                        Err(p) => return Err(format!("prover panicked: {p}")),
                    };
                    let json = serde_json::to_value(&proof).map_err(|e| format!("serialise: {e}"))?;
                    let n_tables = proof.proof.opened_values.instances.len();
                    Ok(Self {
                        config: make_config(&fri, seed),
                        fri,
                        kind,
                        packing: packing_sel,
                        degrees,
                        prover,
                        lookups: proof.stark_common.lookups.clone(),
                        n_tables,
                        json,
                    })
                }
            }

            impl Fam for BspInst {
                type Bundle = BatchStarkProof<SC>;
                type Built = Built;
                fn honest_json(&self) -> &Value {
                    &self.json
                }
                fn modulus(&self) -> u64 {
                    <F as PrimeField64>::ORDER_U64
                }
                fn describe(&self) -> String {
                    format!(
                        "{}-{} {} circuit={} packing={:?} log_degrees={:?}",
                        stringify!($m),
                        $label,
                        self.fri.label(),
                        self.kind,
                        self.packing,
                        self.degrees
                    )
                }
                fn labels(&self) -> Vec<String> {
                    let hs: BTreeSet<usize> = self.degrees.iter().copied().collect();
                    vec![
                        format!("circuit:{}", self.kind),
                        format!("packing:{:?}", self.packing),
                        format!("distinct_heights:{}", hs.len()),
                    ]
                }
                fn tag(&self) -> String {
                    format!("circuit-{}", self.kind)
                }
                fn params_key(&self) -> u64 {
                    // the AIRs are rebuilt from the proof's own metadata (excluded leaves are part
                    // of the structure hash), so the FRI parameters are all that is left
                    hash_of(&(stringify!($m), $label, &self.fri))
                }
                fn native(&self, b: &BatchStarkProof<SC>) -> Result<(), String> {
                    self.prover
                        .verify_all_tables::<CF>(b)
                        .map_err(|e| {
                            let s = format!("{e:?}");
                            // Verify("<Debug of BatchVerificationError>") -> inner identifier
                            let inner = s.strip_prefix("Verify(\"").unwrap_or(&s);
                            err_label(&inner)
                        })
                }
                fn build(&self, b: &BatchStarkProof<SC>) -> Result<Built, CV> {
                    let common = split_common(&b.stark_common, &self.lookups);
                    let mut cb = new_builder();
                    let (vi, ops) = verify_p3_batch_proof_circuit::<
                        SC,
                        CapT,
                        InP,
                        InnerFri,
                        LogUpGadget,
                        _,
                        WIDTH,
                        RATE,
                        $d,
                    >(
                        &self.config,
                        &mut cb,
                        b,
                        &fri_verifier_params(&self.fri),
                        &common,
                        &LogUpGadget::new(),
                        PCFG,
                        &[],
                    )
                    .map_err(|e| CV::rej("verify_circuit", err_label(&e)))?;
                    let circuit = cb.build().map_err(|e| CV::rej("build", err_label(&e)))?;
                    Ok(Built { circuit, ops, vi })
                }
                fn run(&self, built: &Built, b: &BatchStarkProof<SC>) -> CV {
                    let common = split_common(&b.stark_common, &self.lookups);
                    let pis: Vec<Vec<F>> = vec![vec![]; self.n_tables];
                    let (pubs, privs) = built.vi.pack_values(&pis, &b.proof, &common);
                    let mut runner = built.circuit.runner();
                    if let Err(e) = runner.set_public_inputs(&pubs) {
                        return CV::rej("set_public", err_label(&e));
                    }
                    if let Err(e) = runner.set_private_inputs(&privs) {
                        return CV::rej("set_private", err_label(&e));
                    }
                    if let Err(e) = set_private_fri(&mut runner, &built.ops, &b.proof.opening_proof) {
                        return CV::rej("mmcs_private_data", e.replace(' ', "-"));
                    }
                    match runner.run() {
                        Ok(_) => CV::Accept,
                        Err(e) => CV::rej("run", err_label(&e)),
                    }
                }
            }
        }
    };
}

mod cfg_common {
    pub use p3_batch_stark::common::{GlobalPreprocessed, PreprocessedInstanceMeta};
    pub use p3_batch_stark::{BatchProof, CommonData, ProverData, StarkInstance, prove_batch, verify_batch};
    pub use p3_circuit::ops::{generate_poseidon2_trace, generate_recompose_trace};
    pub use p3_circuit::{Circuit, CircuitBuilder, CircuitRunner, NonPrimitiveOpId};
    pub use p3_circuit_prover::common::get_airs_and_degrees_with_prep;
    pub use p3_circuit_prover::{
        BatchStarkProof, BatchStarkProver, CircuitProverData, ConstraintProfile, TablePacking,
    };
    pub use p3_commit::{BatchOpening, ExtensionMmcs};
    pub use p3_fri::{FriParameters, FriProof, HidingFriPcs, TwoAdicFriPcs};
    pub use p3_lookup::Lookups;
    pub use p3_lookup::logup::LogUpGadget;
    pub use p3_recursion::pcs::fri::{
        FriProofTargets, FriVerifierParams, HidingFriProofTargets, InputProofTargets, MerkleCapTargets,
        RecExtensionValMmcs, RecExtensionValMmcsArity4, RecValHidingMmcs, RecValMmcs, RecValMmcsArity4,
        Witness,
    };
    pub use p3_recursion::pcs::{
        set_fri_mmcs_private_data, set_fri_mmcs_private_data_arity4, set_salted_fri_mmcs_private_data,
    };
    pub use p3_recursion::public_inputs::{BatchStarkVerifierInputsBuilder, StarkVerifierInputsBuilder};
    pub use p3_recursion::verifier::verify_p3_batch_proof_circuit;
    pub use p3_recursion::{Poseidon2Config, verify_batch_circuit, verify_p3_uni_proof_circuit};
    pub use p3_uni_stark::{
        PreprocessedVerifierKey, Proof, StarkConfig, prove_with_preprocessed, setup_preprocessed,
        verify_with_preprocessed,
    };

    pub use super::*;

    pub fn fri_parameters<M>(fri: &RFri, mmcs: M) -> FriParameters<M> {
        FriParameters {
            log_blowup: fri.log_blowup,
            log_final_poly_len: fri.log_final_poly_len,
            max_log_arity: fri.max_log_arity,
            num_queries: fri.num_queries,
            commit_proof_of_work_bits: fri.commit_pow,
            query_proof_of_work_bits: fri.query_pow,
            mmcs,
        }
    }
}

/// Items every configuration module shares once its concrete aliases are in scope.
macro_rules! cfg_shared {
    () => {
        pub type CapT = MerkleCapTargets<F, DIGEST_ELEMS>;
        pub type InP = InputProofTargets<F, Challenge, RecVal>;
        pub type FriProofOf = FriProof<Challenge, ChMmcs, F, Vec<BatchOpening<F, ValMmcs>>>;
        pub fn fri_verifier_params(fri: &RFri) -> FriVerifierParams {
            FriVerifierParams::with_mmcs(
                fri.log_blowup,
                fri.log_final_poly_len,
                fri.commit_pow,
                fri.query_pow,
                MMCS_PCFG,
            )
        }
    };
}

/// Plain configuration of `p3_test_utils::$params` (arity-2 MMCS, one Poseidon2 permutation for
/// challenger, hash and compression).
macro_rules! plain_cfg {
    ($m:ident, $label:literal, $params:ident, perm = $perm:expr, circuit_perm = $cperm:expr,
     pcfg = $pcfg:expr, enable = $enable:ident :: $ccfg:ty, extra = $extra:expr, { $($fam:tt)* }) => {
        pub mod $m {
            pub use p3_test_utils::$params::{
                Challenge, ChallengeMmcs as ChMmcs, Challenger, DIGEST_ELEMS, Dft, F, MyCompress,
                MyHash, MyMmcs as ValMmcs, Perm, RATE, WIDTH,
            };

            pub use super::cfg_common::*;

            pub type RecVal = RecValMmcs<F, DIGEST_ELEMS, MyHash, MyCompress>;
            pub type RecExt = RecExtensionValMmcs<F, Challenge, DIGEST_ELEMS, RecVal>;
            pub const PCFG: Poseidon2Config = $pcfg;
            pub const MMCS_PCFG: Poseidon2Config = $pcfg;
            cfg_shared!();

            pub fn perm() -> Perm {
                $perm
            }
            pub fn val_mmcs(cap: usize, _seed: u64) -> ValMmcs {
                let perm = perm();
                ValMmcs::new(MyHash::new(perm.clone()), MyCompress::new(perm), cap)
            }
            pub fn challenger() -> Challenger {
                Challenger::new(perm())
            }
            pub fn new_builder() -> CircuitBuilder<Challenge> {
                let mut b = CircuitBuilder::<Challenge>::new();
                b.$enable::<$ccfg, _>(generate_poseidon2_trace::<Challenge, $ccfg>, $cperm);
                b.enable_recompose::<F>(generate_recompose_trace::<F, Challenge>);
                let extra: fn(&mut CircuitBuilder<Challenge>) = $extra;
                extra(&mut b);
                b
            }
            pub fn set_private_fri(
                runner: &mut CircuitRunner<'_, Challenge>,
                ops: &[NonPrimitiveOpId],
                fri: &FriProofOf,
            ) -> Result<(), String> {
                set_fri_mmcs_private_data::<F, Challenge, ChMmcs, ValMmcs, MyHash, MyCompress, DIGEST_ELEMS>(
                    runner, ops, fri, MMCS_PCFG,
                )
                .map_err(|e| e.to_string())
            }

            $($fam)*
        }
    };
}

plain_cfg!(bb4, "bb4", baby_bear_params,
    perm = p3_baby_bear::default_babybear_poseidon2_16(),
    circuit_perm = p3_baby_bear::default_babybear_poseidon2_16(),
    pcfg = Poseidon2Config::BABY_BEAR_D4_W16,
    enable = enable_poseidon2_perm::p3_poseidon2_circuit_air::BabyBearD4Width16,
    extra = |_| {},
    {
        uni_family!("bb4");
        dbatch_family!(dbatch, "bb4", plain);
        dbatch_family!(zk, "bb4", hiding);
        bsp_family!(bsp, "bb4", F, 1);
    });

plain_cfg!(kb4, "kb4", koala_bear_params,
    perm = p3_koala_bear::default_koalabear_poseidon2_16(),
    circuit_perm = p3_koala_bear::default_koalabear_poseidon2_16(),
    pcfg = Poseidon2Config::KOALA_BEAR_D4_W16,
    enable = enable_poseidon2_perm::p3_poseidon2_circuit_air::KoalaBearD4Width16,
    extra = |_| {},
    {
        uni_family!("kb4");
        dbatch_family!(dbatch, "kb4", plain);
        dbatch_family!(zk, "kb4", hiding);
        bsp_family!(bsp, "kb4", F, 1);
        bsp_family!(bspx, "kb4", Challenge, 4);
    });

plain_cfg!(gl2, "gl2", goldilocks_params,
    perm = p3_goldilocks::Poseidon2Goldilocks::<8>::new_from_rng_128(&mut SmallRng::seed_from_u64(1)),
    circuit_perm = p3_goldilocks::Poseidon2Goldilocks::<8>::new_from_rng_128(&mut SmallRng::seed_from_u64(1)),
    pcfg = Poseidon2Config::GOLDILOCKS_D2_W8,
    enable = enable_poseidon2_perm_width_8::p3_circuit::ops::GoldilocksD2Width8,
    extra = |_| {},
    {
        uni_family!("gl2");
        dbatch_family!(dbatch, "gl2", plain);
        bsp_family!(bsp, "gl2", F, 1);
    });

plain_cfg!(kb5, "kb5", koala_bear_quintic_params,
    perm = p3_koala_bear::default_koalabear_poseidon2_16(),
    circuit_perm = p3_test_utils::koala_bear_quintic_params::LiftKoalaPermForQuintic::new(
        p3_koala_bear::default_koalabear_poseidon2_16()),
    pcfg = Poseidon2Config::KOALA_BEAR_D1_W16,
    enable = enable_poseidon2_perm_base::p3_circuit::ops::KoalaBearD1Width16,
    extra = |b| b.set_recompose_coeff_ctl_for_decompose_links(true),
    {
        uni_family!("kb5");
        bsp_family!(bsp, "kb5", Challenge, 5);
    });

/// KoalaBear D4, W16 challenger + W32 arity-4 MMCS (the mixed configuration of
/// `recursion/examples/recursive_aggregation.rs --arity4`).
pub mod kb4a4 {
    pub use p3_test_utils::koala_bear_params::{Challenge, Challenger, DIGEST_ELEMS, Dft, F, RATE, WIDTH};

    pub use super::cfg_common::*;

    pub type Perm32 = p3_koala_bear::Poseidon2KoalaBear<32>;
    pub type Hash32 = p3_symmetric::PaddingFreeSponge<Perm32, 32, 24, 8>;
    pub type Compress4 = p3_symmetric::TruncatedPermutation<Perm32, 4, 8, 32>;
    pub type ValMmcs = p3_merkle_tree::MerkleTreeMmcs<
        <F as Field>::Packing,
        <F as Field>::Packing,
        Hash32,
        Compress4,
        4,
        8,
    >;
    pub type ChMmcs = ExtensionMmcs<F, Challenge, ValMmcs>;
    pub type RecVal = RecValMmcsArity4<F, DIGEST_ELEMS, Hash32, Compress4>;
    pub type RecExt = RecExtensionValMmcsArity4<F, Challenge, DIGEST_ELEMS, RecVal>;
    pub const PCFG: Poseidon2Config = Poseidon2Config::KOALA_BEAR_D4_W16;
    pub const MMCS_PCFG: Poseidon2Config = Poseidon2Config::KOALA_BEAR_D4_W32;
    cfg_shared!();

    pub fn val_mmcs(cap: usize, _seed: u64) -> ValMmcs {
        let perm = p3_koala_bear::default_koalabear_poseidon2_32();
        ValMmcs::new(Hash32::new(perm.clone()), Compress4::new(perm), cap)
    }
    pub fn challenger() -> Challenger {
        Challenger::new(p3_koala_bear::default_koalabear_poseidon2_16())
    }
    pub fn new_builder() -> CircuitBuilder<Challenge> {
        use p3_poseidon2_circuit_air::{KoalaBearD4Width16, KoalaBearD4Width32};
        let mut b = CircuitBuilder::<Challenge>::new();
        b.enable_poseidon2_perm::<KoalaBearD4Width16, _>(
            generate_poseidon2_trace::<Challenge, KoalaBearD4Width16>,
            p3_koala_bear::default_koalabear_poseidon2_16(),
        );
        b.enable_poseidon2_perm_width_32::<KoalaBearD4Width32, _>(
            generate_poseidon2_trace::<Challenge, KoalaBearD4Width32>,
            p3_koala_bear::default_koalabear_poseidon2_32(),
        );
        b.enable_recompose::<F>(generate_recompose_trace::<F, Challenge>);
        b
    }
    pub fn set_private_fri(
        runner: &mut CircuitRunner<'_, Challenge>,
        ops: &[NonPrimitiveOpId],
        fri: &FriProofOf,
    ) -> Result<(), String> {
        set_fri_mmcs_private_data_arity4::<F, Challenge, ChMmcs, ValMmcs, DIGEST_ELEMS>(runner, ops, fri, MMCS_PCFG)
            .map_err(|e| e.to_string())
    }

    uni_family!("kb4a4");
    dbatch_family!(dbatch, "kb4a4", plain);
}

/// KoalaBear D4 with the hiding (salted) `MerkleTreeHidingMmcs` for both MMCSs
/// (`recursion/tests/zk_hiding_mmcs.rs`).
pub mod kb4hm {
    pub use p3_test_utils::koala_bear_params::{
        Challenge, Challenger, DIGEST_ELEMS, Dft, F, MyCompress, MyHash, RATE, WIDTH,
    };

    pub use super::cfg_common::*;

    pub const SALT_ELEMS: usize = 4;
    pub type ValMmcs = p3_merkle_tree::MerkleTreeHidingMmcs<
        <F as Field>::Packing,
        <F as Field>::Packing,
        MyHash,
        MyCompress,
        SmallRng,
        2,
        DIGEST_ELEMS,
        SALT_ELEMS,
    >;
    pub type ChMmcs = ExtensionMmcs<F, Challenge, ValMmcs>;
    pub type RecVal = RecValHidingMmcs<F, DIGEST_ELEMS, SALT_ELEMS, MyHash, MyCompress, SmallRng>;
    pub type RecExt = RecExtensionValMmcs<F, Challenge, DIGEST_ELEMS, RecVal>;
    pub const PCFG: Poseidon2Config = Poseidon2Config::KOALA_BEAR_D4_W16;
    pub const MMCS_PCFG: Poseidon2Config = Poseidon2Config::KOALA_BEAR_D4_W16;
    cfg_shared!();

    pub fn val_mmcs(cap: usize, seed: u64) -> ValMmcs {
        let perm = p3_koala_bear::default_koalabear_poseidon2_16();
        ValMmcs::new(
            MyHash::new(perm.clone()),
            MyCompress::new(perm),
            cap,
            SmallRng::seed_from_u64(seed ^ 0x5a17),
        )
    }
    pub fn challenger() -> Challenger {
        Challenger::new(p3_koala_bear::default_koalabear_poseidon2_16())
    }
    pub fn new_builder() -> CircuitBuilder<Challenge> {
        use p3_poseidon2_circuit_air::KoalaBearD4Width16;
        let mut b = CircuitBuilder::<Challenge>::new();
        b.enable_poseidon2_perm::<KoalaBearD4Width16, _>(
            generate_poseidon2_trace::<Challenge, KoalaBearD4Width16>,
            p3_koala_bear::default_koalabear_poseidon2_16(),
        );
        b.enable_recompose::<F>(generate_recompose_trace::<F, Challenge>);
        b
    }
    pub fn set_private_fri(
        runner: &mut CircuitRunner<'_, Challenge>,
        ops: &[NonPrimitiveOpId],
        fri: &FriProofOf,
    ) -> Result<(), String> {
        set_salted_fri_mmcs_private_data::<F, Challenge, ChMmcs, ValMmcs, DIGEST_ELEMS>(runner, ops, fri, MMCS_PCFG)
            .map_err(|e| e.to_string())
    }

    dbatch_family!(zk, "kb4hm", hiding);
}

// ==========================================================================================
// configuration table, instance construction
// ==========================================================================================

pub const CONFIGS: &[&str] = &[
    "uni-bb4",
    "uni-kb4",
    "uni-gl2",
    "uni-kb5",
    "uni-kb4a4",
    "dbatch-bb4",
    "dbatch-kb4",
    "dbatch-gl2",
    "dbatch-kb4a4",
    "zk-bb4",
    "zk-kb4",
    "zk-kb4hm",
    "bsp-bb4",
    "bsp-kb4",
    "bspx-kb4",
    "bsp-gl2",
    "bsp-kb5",
];

/// Periodic-column AIRs are excluded by construction while the finding is listed as known.
pub const KNOWN_PERIODIC: &str =
    "C01/honest-rejected-by-circuit:periodic:reject@build-panic:index out of bounds: the len is # but the index is #";
pub static EXCLUDE_PERIODIC: std::sync::atomic::AtomicBool = std::sync::atomic::AtomicBool::new(false);

/// The uni-STARK circuit verifier insists on a `trace_next` opening; AIRs that never read the
/// next row are excluded from the uni configurations while that finding is listed as known.
pub const KNOWN_UNI_NO_NEXT: &str =
    "C01/honest-rejected-by-circuit:add-local:reject@verify_circuit:InvalidProofShape-Expected";
pub static EXCLUDE_UNI_NO_NEXT: std::sync::atomic::AtomicBool = std::sync::atomic::AtomicBool::new(false);

fn uni_no_next_excluded() -> bool {
    crate::e1::exclude_known() && EXCLUDE_UNI_NO_NEXT.load(Ordering::Relaxed)
}

fn periodic_excluded() -> bool {
    crate::e1::exclude_known() && EXCLUDE_PERIODIC.load(Ordering::Relaxed)
}

fn one_air(kind: u8, sel: &AirSel, log_n: usize, seed: u64) -> TAir {
    match kind % 5 {
        0 => TAir::Fib,
        1 => TAir::Mul {
            degree: 2 + (sel.degree % 3) as u64,
            reps: 1 + (sel.reps % 3) as usize,
            log_n,
            seed,
        },
        2 if !periodic_excluded() => TAir::Per {
            log_period: (sel.degree as usize % 3).min(log_n),
            seed,
        },
        2 => TAir::Fib,
        3 => TAir::Add,
        _ => TAir::AddLocal,
    }
}

fn uni_air(sel: &AirSel, seed: u64) -> (TAir, usize) {
    let log_n = 1 + (sel.size % 5) as usize;
    let air = match one_air(sel.kind, sel, log_n, seed) {
        TAir::AddLocal if uni_no_next_excluded() => TAir::Add,
        a => a,
    };
    (air, log_n)
}

/// 1-3 instances of different kinds and heights.
fn batch_airs(sel: &AirSel, seed: u64) -> Vec<(TAir, usize)> {
    let n = 1 + (sel.reps % 3) as usize;
    (0..n)
        .map(|i| {
            let log_n = 1 + ((sel.size as usize + 2 * i) % 4);
            (one_air(sel.kind.wrapping_add(i as u8), sel, log_n, seed.wrapping_add(i as u64)), log_n)
        })
        .collect()
}

fn make_instance(c: &Case, bad: BadTrace) -> Result<Box<dyn Inst>, String> {
    let fri = c.fri.resolve();
    macro_rules! uni {
        ($m:ident) => {{
            let (air, log_n) = uni_air(&c.air, c.seed);
            Ok(Box::new($m::uni::UniInst::new(&fri, air, log_n, c.seed, bad)?))
        }};
    }
    macro_rules! db {
        ($m:ident :: $f:ident) => {{ Ok(Box::new($m::$f::DbInst::new(&fri, batch_airs(&c.air, c.seed), c.seed, bad)?)) }};
    }
    macro_rules! bsp {
        ($m:ident :: $f:ident) => {{ Ok(Box::new($m::$f::BspInst::new(&fri, &c.air, c.seed, bad)?)) }};
    }
    match c.cfg.as_str() {
        "uni-bb4" => uni!(bb4),
        "uni-kb4" => uni!(kb4),
        "uni-gl2" => uni!(gl2),
        "uni-kb5" => uni!(kb5),
        "uni-kb4a4" => uni!(kb4a4),
        "dbatch-bb4" => db!(bb4::dbatch),
        "dbatch-kb4" => db!(kb4::dbatch),
        "dbatch-gl2" => db!(gl2::dbatch),
        "dbatch-kb4a4" => db!(kb4a4::dbatch),
        "zk-bb4" => db!(bb4::zk),
        "zk-kb4" => db!(kb4::zk),
        "zk-kb4hm" => db!(kb4hm::zk),
        "bsp-bb4" => bsp!(bb4::bsp),
        "bsp-kb4" => bsp!(kb4::bsp),
        "bspx-kb4" => bsp!(kb4::bspx),
        "bsp-gl2" => bsp!(gl2::bsp),
        "bsp-kb5" => bsp!(kb5::bsp),
        other => Err(format!("unknown configuration {other}")),
    }
}

// ==========================================================================================
// oracle
// ==========================================================================================

pub const RULE: &str = "configuration x FRI parameters (log_blowup 1-3, queries 1-3, log_final_poly_len 0-2, \
max_log_arity 1-3, commit/query PoW bits in {0,1,4}, cap height 0-1) x AIR instance x honest proof (generated seed) x \
single-leaf alterations of the bundle {proof, public values, preprocessed commitment / common data}, each applied alone \
(+ optionally a proof made from a trace with one altered cell, + optionally a proof ground for 1 proof-of-work bit \
while both verifiers demand the configured 4 bits); oracle: native verifier verdict == verification-circuit verdict (honest accepted by both); non-trivial = >= 1 altered \
leaf evaluated; distinct = (configuration, shape, concrete path) of the altered leaves";

pub fn oracle(c: &Case) -> Report {
    let inst = match timed(&T_PROVE, || make_instance(c, None)) {
        Ok(i) => i,
        Err(e) => {
            return Report::fail(
                format!("C01/harness:honest-prover:{}:{}", c.cfg, first_word(&e)),
                format!("could not produce an honest proof: {e}"),
            );
        }
    };
    let cfg = c.cfg.as_str();
    let shape = inst.shape();
    let mut classes: Vec<String> = inst.shape_classes();

    // ---- honest bundle: both must accept ---------------------------------------------------
    let j0 = inst.json();
    let e0 = match inst.eval(j0, false) {
        Ok(e) => e,
        Err(e) => {
            return Report::fail(
                format!("C01/harness:honest-roundtrip:{cfg}"),
                format!("the honest bundle does not survive a JSON round trip: {e}; {shape}"),
            );
        }
    };
    if let Err(e) = &e0.native {
        return Report::fail(
            format!("C01/honest-rejected-by-native:{}:{cfg}:{e}", inst.honest_tag()),
            format!("the native verifier rejects the native prover's own proof ({e}); {shape}"),
        )
        .classes(classes);
    }
    if !e0.circuit.is_accept() {
        return Report::fail(
            format!("C01/honest-rejected-by-circuit:{}:{}", inst.honest_tag(), e0.circuit.label()),
            format!(
                "the native verifier accepts the honest proof, the verification circuit does not: {:?}; {shape}",
                e0.circuit
            ),
        )
        .classes(classes);
    }
    classes.push("honest:accepted-by-both".to_string());

    // ---- alterations, one at a time --------------------------------------------------------
    let mut leaves = vec![];
    walk(j0, &mut vec![], &mut leaves);
    let mut by_class: BTreeMap<String, Vec<usize>> = BTreeMap::new();
    for (i, (p, _)) in leaves.iter().enumerate() {
        by_class.entry(fmt_path(p, true)).or_default().push(i);
    }
    // coverage is counted per shape; the AIR seeds inside the description are not part of it
    let shape_h = {
        let mut t = String::new();
        let mut rest = shape.as_str();
        while let Some(i) = rest.find("seed: ") {
            t.push_str(&rest[..i + 6]);
            rest = rest[i + 6..].trim_start_matches(|c: char| c.is_ascii_digit());
        }
        t.push_str(rest);
        hash_of(&t)
    };
    cover_note(cfg, shape_h, leaves.len(), None, false);
    let mut evaluated = 0usize;
    let mut failure: Option<(String, String)> = None;
    let mut keys: Vec<u64> = vec![];
    for (mi, m) in c.muts.iter().enumerate() {
        let ap = match apply(j0, &leaves, &by_class, inst.p(), m) {
            Ok(a) => a,
            Err(e) => {
                classes.push(format!("alteration-skipped:{}", first_word(&e)));
                continue;
            }
        };
        let ev = match inst.eval(&ap.json, m.recheck) {
            Ok(e) => e,
            Err(e) => {
                classes.push(format!("not-well-formed@{}", ap.class));
                classes.push(format!("not-well-formed:{}", first_word(&e)));
                continue;
            }
        };
        evaluated += 1;
        keys.push(hash_of(&(cfg, shape_h, &ap.path)));
        cover_note(cfg, shape_h, leaves.len(), Some(&ap.path), ev.native.is_ok());
        classes.push(format!("leaf:{}", ap.class));
        classes.push(if ap.structural { "leaf-kind:index".into() } else { "leaf-kind:value".into() });
        classes.push(if ev.cache_hit { "circuit:cached-shape".into() } else { "circuit:built".into() });
        if let Some(rb) = &ev.rebuilt {
            classes.push("cache-selfcheck:done".into());
            if rb.is_accept() != ev.circuit.is_accept() {
                failure.get_or_insert((
                    format!("C01/harness:cache-divergence:{cfg}:{}", ap.class),
                    format!(
                        "alteration #{mi} {} : {} -> {}; cached circuit says {:?}, circuit rebuilt from the altered bundle says {:?}; {shape}",
                        ap.path, ap.old, ap.new, ev.circuit, rb
                    ),
                ));
            }
        }
        match (&ev.native, &ev.circuit) {
            (Ok(()), CV::Accept) => {
                if std::env::var("VERIF_C01_DEBUG").is_ok_and(|v| ap.class.contains(&v)) {
                    eprintln!("DEBUG native-accept {} : {} -> {} ; {shape}", ap.path, ap.old, ap.new);
                }
                classes.push("native:accept".to_string());
                classes.push(format!("native-accept@{}", ap.class));
            }
            (Err(e), CV::Reject { stage, err }) => {
                classes.push("native:reject".to_string());
                classes.push(format!("native-reject:{e}"));
                classes.push(format!("circuit-reject@{stage}:{err}"));
            }
            (Err(e), CV::Accept) => {
                failure.get_or_insert((
                    format!("C01/circuit-accepts-native-rejects:{cfg}:{}:{e}", ap.class),
                    format!(
                        "alteration #{mi} {} : {} -> {}; the native verifier rejects ({e}) but the verification \
                         circuit built from the altered bundle is satisfied; {shape}",
                        ap.path, ap.old, ap.new
                    ),
                ));
            }
            (Ok(()), CV::Reject { stage, err }) => {
                failure.get_or_insert((
                    format!("C01/circuit-rejects-native-accepts:{cfg}:{}:{stage}:{err}", ap.class),
                    format!(
                        "alteration #{mi} {} : {} -> {}; the native verifier accepts but the verification circuit \
                         rejects at {stage}: {err}; {shape}",
                        ap.path, ap.old, ap.new
                    ),
                ));
            }
        }
    }
    // ---- a proof whose only defect is an invalid trace ---------------------------------------
    if let Some(bad) = c.bad_trace {
        match timed(&T_PROVE, || make_instance(c, Some(bad))) {
            Err(e) => classes.push(format!("bad-trace:prover-failed:{}", first_word(&e))),
            Ok(bi) => match bi.eval(bi.json(), false) {
                Err(e) => classes.push(format!("bad-trace:not-well-formed:{}", first_word(&e))),
                Ok(ev) => {
                    evaluated += 1;
                    keys.push(hash_of(&(cfg, shape_h, "bad-trace", bad)));
                    match (&ev.native, &ev.circuit) {
                        (Ok(()), CV::Accept) => classes.push("bad-trace:both-accept".to_string()),
                        (Err(e), CV::Reject { stage, err }) => {
                            classes.push("bad-trace:both-reject".to_string());
                            classes.push(format!("bad-trace:native-reject:{e}"));
                            classes.push(format!("bad-trace:circuit-reject@{stage}:{err}"));
                        }
                        (Err(e), CV::Accept) => {
                            failure.get_or_insert((
                                format!("C01/circuit-accepts-native-rejects:{cfg}:bad-trace:{e}"),
                                format!(
                                    "a proof produced from a trace with one altered cell {bad:?} is rejected by the native \
                                     verifier ({e}) but satisfies the verification circuit; {}",
                                    bi.shape()
                                ),
                            ));
                        }
                        (Ok(()), CV::Reject { stage, err }) => {
                            failure.get_or_insert((
                                format!("C01/circuit-rejects-native-accepts:{cfg}:bad-trace:{stage}:{err}"),
                                format!(
                                    "a proof produced from a trace with one altered cell {bad:?} is accepted by the native \
                                     verifier but the verification circuit rejects at {stage}: {err}; {}",
                                    bi.shape()
                                ),
                            ));
                        }
                    }
                }
            },
        }
    }
    // ---- a proof whose only defect is insufficient grinding -----------------------------------
    if c.under_grind & 3 != 0 {
        let r = c.fri.resolve();
        let effective = (c.under_grind & 1 != 0 && r.commit_pow > 1) || (c.under_grind & 2 != 0 && r.query_pow > 1);
        if !effective {
            classes.push("under-ground:no-pow-configured".to_string());
        } else {
            UNDER_GRIND.with(|u| u.set(c.under_grind & 3));
            let made = timed(&T_PROVE, || make_instance(c, None));
            UNDER_GRIND.with(|u| u.set(0));
            match made {
                Err(e) => classes.push(format!("under-ground:prover-failed:{}", first_word(&e))),
                Ok(ui) => match ui.eval(ui.json(), false) {
                    Err(e) => classes.push(format!("under-ground:not-well-formed:{}", first_word(&e))),
                    Ok(ev) => {
                        evaluated += 1;
                        keys.push(hash_of(&(cfg, shape_h, "under-ground", c.under_grind & 3)));
                        match (&ev.native, &ev.circuit) {
                            (Ok(()), CV::Accept) => classes.push("under-ground:both-accept(lucky witness)".to_string()),
                            (Err(e), CV::Reject { stage, err }) => {
                                classes.push("under-ground:both-reject".to_string());
                                classes.push(format!("under-ground:native-reject:{e}"));
                                classes.push(format!("under-ground:circuit-reject@{stage}:{err}"));
                            }
                            (Err(e), CV::Accept) => {
                                failure.get_or_insert((
                                    format!("C01/circuit-accepts-native-rejects:{cfg}:under-ground-pow:{e}"),
                                    format!(
                                        "a proof ground for fewer proof-of-work bits than both verifiers demand (mask {}) is \
                                         rejected by the native verifier ({e}) but satisfies the verification circuit; {}",
                                        c.under_grind & 3,
                                        ui.shape()
                                    ),
                                ));
                            }
                            (Ok(()), CV::Reject { stage, err }) => {
                                failure.get_or_insert((
                                    format!("C01/circuit-rejects-native-accepts:{cfg}:under-ground-pow:{stage}:{err}"),
                                    format!(
                                        "an under-ground proof the native verifier accepts is rejected by the circuit at {stage}: {err}; {}",
                                        ui.shape()
                                    ),
                                ));
                            }
                        }
                    }
                },
            }
        }
    }
    keys.sort_unstable();
    let mut rep = Report::pass()
        .classes(classes)
        .nontrivial(evaluated > 0)
        .key(hash_of(&keys) | 1);
    if let Some((sig, msg)) = failure {
        rep.verdict = fw::Verdict::Fail { sig, msg };
        rep.nontrivial = true;
    }
    rep
}

// ==========================================================================================
// strategies
// ==========================================================================================

fn fri_strategy() -> impl Strategy<Value = FriSel> {
    prop_oneof![
        // the smallest parameter set of each configuration (dense leaf coverage)
        2 => Just(FriSel { log_blowup: 0, num_queries: 0, log_final_poly_len: 0, max_log_arity: 0, commit_pow: 0, query_pow: 1, cap_height: 0 }),
        5 => (0u8..3, 0u8..3, 0u8..3, 0u8..3, 0u8..3, 0u8..3, 0u8..2).prop_map(
            |(log_blowup, num_queries, log_final_poly_len, max_log_arity, commit_pow, query_pow, cap_height)| FriSel {
                log_blowup,
                num_queries,
                log_final_poly_len,
                max_log_arity,
                commit_pow,
                query_pow,
                cap_height,
            }
        ),
    ]
}

fn air_strategy() -> impl Strategy<Value = AirSel> {
    (0u8..5, prop_oneof![2 => Just(1u8), 3 => 0u8..5], 0u8..4, 0u8..3)
        .prop_map(|(kind, size, degree, reps)| AirSel { kind, size, degree, reps })
}

fn mutation_strategy() -> impl Strategy<Value = Mutation> {
    (
        any::<u16>(),
        any::<u16>(),
        prop_oneof![2 => Just(0u64), 1 => 0u64..8, 4 => any::<u64>()],
        prop::bool::weighted(0.08),
    )
        .prop_map(|(class, leaf, delta, recheck)| Mutation {
            class,
            leaf,
            delta,
            recheck,
            path: None,
        })
}

pub fn strategy(cfgs: &'static [&'static str], n_muts: usize) -> impl Strategy<Value = Case> {
    (
        0..cfgs.len(),
        fri_strategy(),
        air_strategy(),
        any::<u64>(),
        prop::collection::vec(mutation_strategy(), 1..=n_muts),
        prop_oneof![2 => Just(None), 1 => (any::<u16>(), any::<u64>()).prop_map(Some)],
        prop_oneof![3 => Just(0u8), 1 => Just(1u8), 1 => Just(2u8), 1 => Just(3u8)],
    )
        .prop_map(move |(ci, fri, air, seed, muts, bad_trace, under_grind)| Case {
            cfg: cfgs[ci].to_string(),
            fri,
            air,
            seed,
            muts,
            bad_trace,
            under_grind,
        })
}


pub const ENUM_RULE: &str = "for every configuration and each of its small shapes (smallest FRI parameter set; thorough: \
three more parameter sets and a second seed): EVERY numeric leaf of the honest bundle is altered once (thorough: two \
values), each alteration alone; same oracle; non-trivial = >= 1 altered leaf evaluated; distinct = (configuration, \
shape, concrete path)";

/// (FRI, AIR) shapes enumerated exhaustively, per configuration family.
fn enumeration_shapes(cfg: &str, thorough: bool) -> Vec<(FriSel, AirSel)> {
    let f = |log_blowup, num_queries, log_final_poly_len, max_log_arity, commit_pow, query_pow, cap_height| FriSel {
        log_blowup,
        num_queries,
        log_final_poly_len,
        max_log_arity,
        commit_pow,
        query_pow,
        cap_height,
    };
    let a = |kind, size, degree, reps| AirSel { kind, size, degree, reps };
    let small = f(0, 0, 0, 0, 0, 1, 0);
    let fam = cfg.split('-').next().unwrap_or("");
    let mut v = match fam {
        // Fibonacci (public values) and MulAir (preprocessed commitment), 4 rows
        "uni" => vec![(small.clone(), a(0, 1, 0, 0)), (small.clone(), a(1, 1, 0, 0))],
        // [Mul, Add] (preprocessed + plain, two heights) / [Fib]
        "dbatch" | "zk" => vec![(small.clone(), a(1, 0, 0, 1)), (small.clone(), a(0, 1, 0, 0))],
        // Fibonacci circuit, 1 lane
        _ => vec![(small.clone(), a(0, 1, 0, 0))],
    };
    if thorough {
        let more = [f(1, 1, 1, 1, 1, 2, 1), f(2, 2, 2, 2, 2, 0, 0), f(0, 2, 0, 0, 1, 1, 1)];
        let airs: Vec<AirSel> = match fam {
            "uni" => vec![a(0, 2, 0, 0), a(1, 2, 1, 1), a(3, 1, 0, 0), a(1, 1, 2, 0)],
            "dbatch" | "zk" => vec![a(0, 1, 0, 2), a(3, 1, 1, 1), a(1, 2, 2, 2)],
            _ => vec![a(1, 1, 1, 0), a(2, 1, 2, 0)],
        };
        for (i, air) in airs.into_iter().enumerate() {
            v.push((more[i % more.len()].clone(), air));
        }
    }
    v
}

static ENUM_SIZES: Mutex<BTreeMap<String, Value>> = Mutex::new(BTreeMap::new());

fn enumeration_cases(ctx: &Ctx, cfg: &str, thorough: bool) -> Vec<Case> {
    let seeds: &[u64] = if thorough { &[11, 12] } else { &[11] };
    let chunk = 24usize;
    let mut out = vec![];
    let mut sizes = ENUM_SIZES.lock().unwrap();
    {
        for (si, (fri, air)) in enumeration_shapes(cfg, thorough).into_iter().enumerate() {
            for &seed0 in seeds {
                let seed = seed0.wrapping_mul(0x9E37_79B9).wrapping_add(ctx.seed);
                let base = Case {
                    cfg: cfg.to_string(),
                    fri: fri.clone(),
                    air: air.clone(),
                    seed,
                    muts: vec![],
                    bad_trace: None,
                    under_grind: 0,
                };
                let inst = match catch(|| make_instance(&base, None)) {
                    Ok(Ok(i)) => i,
                    _ => {
                        // the oracle reports the honest-prover failure for this shape
                        out.push(base);
                        continue;
                    }
                };
                let mut leaves = vec![];
                walk(inst.json(), &mut vec![], &mut leaves);
                sizes.insert(format!("{cfg}#{si}/seed{seed0}"), json!({"shape": inst.shape(), "leaves": leaves.len()}));
                let values: &[u64] = if thorough { &[0, 0x5bd1_e995_9e37_79b9] } else { &[0] };
                let muts: Vec<Mutation> = leaves
                    .iter()
                    .flat_map(|(p, _)| {
                        let path = fmt_path(p, false);
                        values.iter().map(move |&d| Mutation {
                            class: 0,
                            leaf: 0,
                            delta: d ^ (d != 0) as u64 * hash_of(&path),
                            recheck: false,
                            path: Some(path.clone()),
                        })
                    })
                    .collect();
                for ch in muts.chunks(chunk) {
                    let mut c = base.clone();
                    c.muts = ch.to_vec();
                    out.push(c);
                }
            }
        }
    }
    out
}

pub fn run(ctx: &Ctx) {
    EXCLUDE_PERIODIC.store(ctx.is_known(KNOWN_PERIODIC), Ordering::Relaxed);
    EXCLUDE_UNI_NO_NEXT.store(ctx.is_known(KNOWN_UNI_NO_NEXT), Ordering::Relaxed);
    ctx.shrink_iters.store(120, Ordering::Relaxed);
    // replaying a stored case of a known finding needs the exclusion switched off
    let excl_off = ctx
        .replay
        .as_ref()
        .is_some_and(|r| r.signature == KNOWN_PERIODIC || r.signature == KNOWN_UNI_NO_NEXT);
    let oracle_x = move |c: &Case| {
        if excl_off {
            crate::e1::without_exclusions(|| oracle(c))
        } else {
            oracle(c)
        }
    };
    // one sub-check per configuration so that the class histograms are per configuration
    let n = ctx.tier.pick(700, 14_000);
    let thorough = ctx.tier == fw::Tier::Thorough;
    for (i, cfg) in CONFIGS.iter().enumerate() {
        let sub = format!("explore:{cfg}");
        ctx.explore(&sub, RULE, n, || strategy(&CONFIGS[i..=i], 12), oracle_x);
        ctx.replay_known(&sub, |c: &Case| crate::e1::without_exclusions(|| oracle(c)));
        // complete single-leaf enumeration of small proofs of this configuration
        let sub = format!("enumerate:{cfg}");
        if !ctx.in_replay() || ctx.replay.as_ref().is_some_and(|r| r.sub == sub) {
            let cases = if ctx.in_replay() { vec![] } else { enumeration_cases(ctx, cfg, thorough) };
            ctx.enumerate(&sub, ENUM_RULE, cases, true, oracle);
        }
    }
    ctx.extra("enumerated_proofs", json!(*ENUM_SIZES.lock().unwrap()));

    let us = |a: &AtomicU64| a.load(Ordering::Relaxed) as f64 / 1e6;
    ctx.note(format!(
        "cpu seconds (summed over threads): honest prove {:.1}, native verify {:.1}, circuit build {:.1} ({} builds, {} cache hits), circuit run {:.1} ({} runs)",
        us(&T_PROVE),
        us(&T_NATIVE),
        us(&T_BUILD),
        N_BUILD.load(Ordering::Relaxed),
        N_HIT.load(Ordering::Relaxed),
        us(&T_RUN),
        N_RUN.load(Ordering::Relaxed)
    ));
    let cover = COVER.lock().unwrap();
    let mut cov = serde_json::Map::new();
    for (cfg, c) in cover.iter() {
        let total: usize = c.shapes.values().map(|(t, _)| *t).sum();
        let hit: usize = c.shapes.values().map(|(_, s)| s.len()).sum();
        let best = c
            .shapes
            .values()
            .map(|(t, s)| s.len() as f64 / (*t).max(1) as f64)
            .fold(0.0f64, f64::max);
        cov.insert(
            cfg.clone(),
            json!({
                "shapes": c.shapes.len(),
                "leaf_paths_over_all_shapes": total,
                "distinct_altered_paths": hit,
                "coverage": (hit as f64 / total.max(1) as f64 * 1e4).round() / 1e4,
                "best_single_shape_coverage": (best * 1e4).round() / 1e4,
                "alterations_evaluated": c.evaluated,
                "alterations_accepted_by_native": c.native_accepts,
            }),
        );
    }
    ctx.extra("coverage_per_configuration", Value::Object(cov));
}
