//! C12 — bit and coefficient decompositions admit only the canonical witness.
//!
//! Fault enumeration on decomposition hints: the hint outputs of `decompose_to_bits` /
//! `decompose_ext_to_base_coeffs` are replaced by an alternative that still satisfies the
//! recomposition identity, everything downstream is re-derived, the forged traces are proven
//! and verified natively.  Accepted ⇒ the committed decomposition is the canonical one.

use std::collections::HashMap;

use p3_circuit::ops::generate_recompose_trace;
use p3_circuit::{CircuitBuilder, Op};
use p3_circuit_prover::TablePacking;
use p3_field::{Field, PrimeCharacteristicRing, PrimeField64};
use proptest::prelude::*;
use serde::{Deserialize, Serialize};

use crate::dispatch_field;
use crate::fields::Fc;
use crate::forge;
use crate::fw::{Ctx, Report, Verdict, hash_of};
use crate::opsem;
use crate::pv::{NpoSel, Pv, PvErr};

#[derive(Clone, Debug, Serialize, Deserialize, Hash, PartialEq, Eq)]
pub enum What {
    /// decompose_to_bits(x, n) with n = full width minus `short` bits (0 = full width)
    Bits { short: u8 },
    /// decompose_ext_to_base_coeffs with the ALU recomposition chain
    ExtAlu,
    /// ... with the standard recompose table
    ExtNpo,
    /// ... with the recompose/coeff table (per-coefficient lookups)
    ExtNpoCoeff,
}

#[derive(Clone, Debug, Serialize, Deserialize, Hash, PartialEq, Eq)]
pub enum Alt {
    /// negative control: the canonical decomposition (must be accepted)
    Canonical,
    /// bits of `limb + p` instead of `limb` (the limb is generated small enough)
    AddP { limb: u8 },
    /// b[pos] += 2, b[pos+1] -= 1: same weighted sum, not boolean
    NonBool { pos: u8 },
    /// like `NonBool`, and the operand columns of the two bits' BoolCheck rows are set to 0
    /// independently of the slot value (the check only binds if those columns are on the bus)
    NonBoolDecoupled { pos: u8 },
    /// as above, but only the checked `a` cell of the BoolCheck row gets the boolean value; the
    /// `c` / `out` cells keep the forged slot value
    NonBoolDecoupledA { pos: u8 },
    /// two adjacent bits carry extension-field junk that cancels inside each bit's higher
    /// coefficients and across the weighted sum: b[pos] -= 2J, b[pos+1] += J, J = t(X - X^2)
    /// (degree >= 3 circuits; the degree-0 coefficients stay boolean)
    ExtJunkBits { pos: u8, t: u8 },
    /// bit `k` flipped and bit `pos` of the same limb absorbs the difference as an arbitrary
    /// field element: b[pos] += 2^(k-pos) * (b[k] - b'[k]); every other bit stays boolean
    Absorb { pos: u8, k: u8 },
    /// one bit flipped (breaks the recomposition identity: must be rejected)
    Flip { pos: u8 },
    /// coefficient j decreased by t, coefficient i increased by t * e_j / e_i (not a base value)
    MoveMass { i: u8, j: u8, t: u8 },
    /// one coefficient changed (breaks the identity: must be rejected)
    Bump { i: u8, t: u8 },
}

#[derive(Clone, Debug, Serialize, Deserialize, Hash)]
pub struct Case {
    pub field: u8,
    /// raw limbs of x (reduced / shaped per alternative)
    pub x: Vec<u64>,
    pub what: What,
    pub alt: Alt,
    pub alu_lanes: u8,
}

pub const RULE: &str = "decompose_to_bits (full and shortened widths) and decompose_ext_to_base_coeffs (ALU chain, \
recompose table, recompose/coeff table) of a generated public value x over 7 field configurations x an alternative \
hint output: canonical (control), bits of limb+p, non-boolean 'bits' with the same weighted sum, bits carrying extension-field junk that cancels within each bit and across the sum, one bit flipped with another bit of the limb (often the lowest) absorbing the difference as a field element, a flipped bit, \
coefficient mass moved between two positions (non-base coefficient, same recomposition), a bumped coefficient; the \
alternative is propagated through the op list and the forged traces are proven and verified. Oracle: accepted => \
the hint outputs are the canonical decomposition. Non-trivial = an alternative that differs from the canonical \
witness and satisfies the recomposition identity; distinct on (field, what, alternative class, limb/positions)";

pub static KNOWN: std::sync::OnceLock<Vec<String>> = std::sync::OnceLock::new();

fn check<C: Pv>(c: &Case) -> Report {
    let d = C::D;
    let fb = <C::BF as Field>::bits();
    let p = C::p();
    // ---- shape x for the alternative
    let mut limbs: Vec<u64> = (0..d).map(|i| c.x.get(i).copied().unwrap_or(0) % p).collect();
    let headroom: u64 = if fb == 64 { p.wrapping_neg() } else { (1u64 << fb) - p }; // 2^fb - p
    let is_ext = !matches!(c.what, What::Bits { .. });
    if is_ext && d == 1 {
        return Report::discard("extension decomposition needs D > 1");
    }
    let nbits = match &c.what {
        What::Bits { short } => (fb * d).saturating_sub(*short as usize % 8).max(1),
        _ => 0,
    };
    if let Alt::AddP { limb } = &c.alt {
        let l = *limb as usize % d;
        limbs[l] %= headroom;
    }
    if let What::Bits { .. } = &c.what {
        // shortened widths: make the value fit so that the honest decomposition exists
        for (l, limb) in limbs.iter_mut().enumerate() {
            let lo = l * fb;
            let width = nbits.saturating_sub(lo).min(fb);
            if width == 0 {
                *limb = 0;
            } else if width < 64 {
                *limb %= 1u64 << width;
                *limb %= p;
            }
        }
    }
    let x = C::ef(&limbs);

    // ---- circuit
    let mut b = CircuitBuilder::<C::EF>::new();
    match c.what {
        What::ExtNpo | What::ExtNpoCoeff => {
            b.enable_recompose::<C::BF>(generate_recompose_trace::<C::BF, C::EF>);
            if c.what == What::ExtNpoCoeff {
                b.set_recompose_coeff_ctl_for_decompose_links(true);
            }
        }
        _ => {}
    }
    let xe = b.public_input();
    let parts = match &c.what {
        What::Bits { .. } => match b.decompose_to_bits::<C::BF>(xe, nbits) {
            Ok(v) => v,
            Err(e) => return Report::fail("C12/build-error", format!("{e:?}")),
        },
        _ => match b.decompose_ext_to_base_coeffs::<C::BF>(xe) {
            Ok(v) => v,
            Err(e) => return Report::fail("C12/build-error", format!("{e:?}")),
        },
    };
    // consume the parts the way callers do (an index / a transcript value built from them)
    let mut acc = b.define_const(C::EF::ZERO);
    for (i, pt) in parts.iter().enumerate() {
        let k = b.define_const(C::base(i as u64 + 3));
        acc = b.mul_add(*pt, k, acc);
    }
    let y = b.public_input();
    b.connect(acc, y);
    let circuit = match b.build() {
        Ok(x) => x,
        Err(e) => return Report::fail("C12/build-error", format!("{e:?}")),
    };

    // ---- canonical parts and the alternative
    let canon: Vec<C::EF> = match &c.what {
        What::Bits { .. } => (0..nbits)
            .map(|k| C::base((limbs[k / fb] >> (k % fb)) & 1))
            .collect(),
        _ => limbs.iter().map(|l| C::base(*l)).collect(),
    };
    let mut alt = canon.clone();
    let mut class = "canonical".to_string();
    let mut keeps_identity = true;
    match (&c.what, &c.alt) {
        (_, Alt::Canonical) => {}
        (What::Bits { .. }, Alt::AddP { limb }) => {
            let l = *limb as usize % d;
            let lo = l * fb;
            let width = nbits.saturating_sub(lo).min(fb);
            if width < fb {
                return Report::discard("limb + p needs the full limb width");
            }
            let v = (limbs[l] as u128) + (p as u128);
            if v >> fb != 0 {
                return Report::discard("limb + p does not fit");
            }
            for k in 0..fb {
                alt[lo + k] = C::base(((v >> k) & 1) as u64);
            }
            class = "bits:x+p".into();
        }
        (What::Bits { .. }, Alt::NonBool { pos }) | (What::Bits { .. }, Alt::NonBoolDecoupled { pos }) | (What::Bits { .. }, Alt::NonBoolDecoupledA { pos }) => {
            if nbits < 2 {
                return Report::discard("needs two bits");
            }
            let mut k = *pos as usize % (nbits - 1);
            if (k + 1) % fb == 0 {
                // keep both bits in one limb
                k = k.saturating_sub(1);
            }
            if (k + 1) / fb != k / fb {
                return Report::discard("no two adjacent bits in one limb");
            }
            alt[k] = alt[k] + C::EF::TWO;
            alt[k + 1] = alt[k + 1] - C::EF::ONE;
            class = if matches!(c.alt, Alt::NonBoolDecoupled { .. }) {
                "bits:non-boolean-decoupled".into()
            } else if matches!(c.alt, Alt::NonBoolDecoupledA { .. }) {
                "bits:non-boolean-decoupled-a-only".into()
            } else {
                "bits:non-boolean".into()
            };
        }
        (What::Bits { .. }, Alt::ExtJunkBits { pos, t }) => {
            if d < 3 || nbits < 2 {
                return Report::discard("needs an extension of degree >= 3 and two bits");
            }
            let mut k = *pos as usize % (nbits - 1);
            if (k + 1) % fb == 0 {
                k = k.saturating_sub(1);
            }
            if (k + 1) / fb != k / fb {
                return Report::discard("no two adjacent bits in one limb");
            }
            let t = 1 + *t as u64 % 7;
            let mut jv = vec![0u64; d];
            jv[1] = t;
            jv[2] = p - t;
            let j = C::ef(&jv);
            alt[k] = alt[k] - j - j;
            alt[k + 1] = alt[k + 1] + j;
            class = "bits:cancelling-extension-junk".into();
        }
        (What::Bits { .. }, Alt::Absorb { pos, k }) => {
            if nbits < 2 {
                return Report::discard("needs two bits");
            }
            // both positions inside one limb
            let limb = (*pos as usize % nbits) / fb;
            let lo = limb * fb;
            let hi = (lo + fb).min(nbits);
            if hi - lo < 2 {
                return Report::discard("limb has a single bit");
            }
            let p_abs = lo + (*pos as usize % (hi - lo));
            let mut k_abs = lo + (*k as usize % (hi - lo));
            if k_abs == p_abs {
                k_abs = if k_abs + 1 < hi { k_abs + 1 } else { lo };
            }
            let old = alt[k_abs];
            let new = C::EF::ONE - old;
            alt[k_abs] = new;
            // weight ratio 2^(k - pos) in the field (pos may be above k)
            let two = C::EF::TWO;
            let pow = |e: usize| (0..e).fold(C::EF::ONE, |a, _| a * two);
            let ratio = pow(k_abs - lo) * pow(p_abs - lo).inverse();
            alt[p_abs] = alt[p_abs] + ratio * (old - new);
            class = if p_abs == lo { "bits:absorbed-in-lowest-bit".into() } else { "bits:absorbed-in-one-bit".into() };
        }
        (What::Bits { .. }, Alt::Flip { pos }) => {
            let k = *pos as usize % nbits;
            alt[k] = C::EF::ONE - alt[k];
            class = "bits:flip".into();
            keeps_identity = false;
        }
        (w, Alt::MoveMass { i, j, t }) if *w != (What::Bits { short: 0 }) && is_ext => {
            let (i, j) = (*i as usize % d, *j as usize % d);
            if i == j {
                return Report::discard("needs two positions");
            }
            let t = C::base(1 + *t as u64 % 7);
            let e = |k: usize| {
                let mut v = vec![0u64; d];
                v[k] = 1;
                C::ef(&v)
            };
            alt[j] = alt[j] - t;
            alt[i] = alt[i] + t * e(j) * e(i).inverse();
            class = "ext:non-base-coefficient".into();
        }
        (_, Alt::Bump { i, t }) if is_ext => {
            let i = *i as usize % d;
            alt[i] = alt[i] + C::base(1 + *t as u64 % 7);
            class = "ext:bump".into();
            keeps_identity = false;
        }
        _ => return Report::discard("alternative does not apply to this decomposition"),
    }
    let differs = alt != canon;

    // ---- honest run, then forge
    let yv = canon
        .iter()
        .enumerate()
        .fold(C::EF::ZERO, |a, (i, v)| a + *v * C::base(i as u64 + 3));
    let mut runner = circuit.runner();
    if runner.set_public_inputs(&[x, yv]).is_err() {
        return Report::fail("C12/honest-inputs-rejected", "set_public_inputs failed".to_string());
    }
    let honest = match runner.run() {
        Ok(t) => t,
        Err(e) => return Report::fail("C12/honest-run-failed", format!("{e:?}")),
    };
    let w0 = forge::assignment_of::<C>(&circuit, &honest);
    let Some(hint_outs) = circuit.ops.iter().find_map(|op| match op {
        Op::Hint { outputs, .. } if outputs.len() == canon.len() => Some(outputs.clone()),
        _ => None,
    }) else {
        return Report::fail("C12/no-hint-op", "decomposition emitted no hint op".to_string());
    };
    // the honest hint must produce the canonical decomposition
    for (o, v) in hint_outs.iter().zip(&canon) {
        if w0[o.0 as usize] != *v {
            return Report::fail(
                "C12/honest-hint-not-canonical",
                format!("hint output slot {} = {:?}, canonical {:?}", o.0, C::coeffs(&w0[o.0 as usize]), C::coeffs(v)),
            );
        }
    }
    let mut pins: HashMap<u32, C::EF> = HashMap::new();
    for (o, v) in hint_outs.iter().zip(&alt) {
        pins.insert(o.0, *v);
    }
    // the second public input (the consumer's result) is chosen by the prover as well
    let y_slot = circuit.public_rows[1].0;
    let y_alt = alt
        .iter()
        .enumerate()
        .fold(C::EF::ZERO, |a, (i, v)| a + *v * C::base(i as u64 + 3));
    pins.insert(y_slot, y_alt);
    let w = opsem::propagate::<C>(&circuit, &w0, &pins);
    let mut t = forge::traces_from_assignment::<C>(&circuit, &w, &honest);
    if matches!(c.alt, Alt::NonBoolDecoupled { .. } | Alt::NonBoolDecoupledA { .. }) {
        // BoolCheck rows of forged bits: put a boolean value into the checked columns
        let forged: std::collections::HashSet<u32> = hint_outs
            .iter()
            .zip(alt.iter().zip(&canon))
            .filter(|(_, (a, cn))| a != cn)
            .map(|(o, _)| o.0)
            .collect();
        for (r, kind) in t.alu_trace.op_kind.clone().iter().enumerate() {
            if *kind == p3_circuit::AluOpKind::BoolCheck && forged.contains(&t.alu_trace.indices[r][3].0) {
                t.alu_trace.values[r][0] = C::EF::ZERO;
                if matches!(c.alt, Alt::NonBoolDecoupled { .. }) {
                    t.alu_trace.values[r][2] = C::EF::ZERO;
                }
            }
        }
    }

    let pk = TablePacking::new(1, 1 + (c.alu_lanes % 4) as usize);
    let npo = NpoSel {
        recompose: matches!(c.what, What::ExtNpo | What::ExtNpoCoeff),
        debug_lookups: false,
        poseidon2: None,
        poseidon1: None,
    };
    let setup = match C::setup(&circuit, &pk, &npo) {
        Ok(s) => s,
        Err(e) => return Report::fail(format!("C12/setup-failed:{}", e.kind()), e.msg().to_string()),
    };
    if std::env::var("VERIF_DEBUG").is_ok() {
        for op in &circuit.ops {
            eprintln!("  {}", crate::e1::fmt_op::<C>(op));
        }
        if let Ok(pt) = C::prep(&circuit, &pk, &npo) {
            for e in &pt.entries {
                eprintln!("  {e:?}");
            }
            eprintln!("analysis: {:?}", crate::checks::c09::analyse(&pt));
        }
        for (o, v) in hint_outs.iter().zip(&alt) {
            eprintln!("hint slot {} := {:?}", o.0, C::coeffs(v));
        }
    }
    let accepted = match C::prove(&setup, &t) {
        Ok(pf) => C::verify(&setup, &pf).is_ok(),
        Err(PvErr::Prove(_)) | Err(PvErr::ProvePanic(_)) => false,
        Err(_) => false,
    };
    let what = match c.what {
        What::Bits { .. } => "bits",
        What::ExtAlu => "ext-alu",
        What::ExtNpo => "ext-recompose-std",
        What::ExtNpoCoeff => "ext-recompose-coeff",
    };
    let rep = Report::pass()
        .class(format!("field:{}", C::NAME))
        .class(format!("what:{what}"))
        .class(format!("alt:{class}"))
        .nontrivial(differs && keeps_identity)
        .key(hash_of(&(C::NAME, what, &class, &c.alt, nbits)));
    match (accepted, differs) {
        (true, false) => rep.class("outcome:canonical-accepted"),
        (false, false) => {
            let mut r = rep;
            r.verdict = Verdict::Fail {
                sig: format!("C12/canonical-rejected:{what}"),
                msg: "the honest (canonical) decomposition was rejected".into(),
            };
            r
        }
        (false, true) => rep.class(if keeps_identity {
            "outcome:alternative-rejected"
        } else {
            "outcome:identity-breaking-rejected"
        }),
        (true, true) => {
            let mut r = rep;
            r.verdict = Verdict::Fail {
                sig: format!("C12/accepted-noncanonical:{what}:{class}"),
                msg: format!(
                    "x = {:?}: proof accepted with hint outputs {:?} instead of the canonical {:?}",
                    limbs,
                    alt.iter().map(C::coeffs).collect::<Vec<_>>(),
                    canon.iter().map(C::coeffs).collect::<Vec<_>>()
                ),
            };
            r.nontrivial = true;
            r
        }
    }
}

pub fn oracle(c: &Case) -> Report {
    dispatch_field!(c.field as usize, C => check::<C>(c))
}

fn strategy() -> impl Strategy<Value = Case> {
    let limb = || {
        prop_oneof![
            2 => Just(0u64),
            2 => 0u64..16,
            2 => any::<u64>(),
            1 => (0u32..64).prop_map(|k| 1u64 << k),
            1 => (0u32..64).prop_map(|k| (1u64 << k).wrapping_sub(1)),
        ]
    };
    // bit decompositions: every field; alternatives that apply to bits
    let bits = (
        0u8..7,
        prop_oneof![2 => Just(0u8), 1 => 0u8..8],
        prop_oneof![
            1 => Just(Alt::Canonical),
            3 => (0u8..5).prop_map(|limb| Alt::AddP { limb }),
            3 => any::<u8>().prop_map(|pos| Alt::NonBool { pos }),
            3 => any::<u8>().prop_map(|pos| Alt::NonBoolDecoupled { pos }),
            3 => any::<u8>().prop_map(|pos| Alt::NonBoolDecoupledA { pos }),
            3 => (any::<u8>(), any::<u8>()).prop_map(|(pos, t)| Alt::ExtJunkBits { pos, t }),
            3 => (prop_oneof![2 => Just(0u8), 1 => any::<u8>()], any::<u8>()).prop_map(|(pos, k)| Alt::Absorb { pos, k }),
            1 => any::<u8>().prop_map(|pos| Alt::Flip { pos }),
        ],
    )
        .prop_map(|(field, short, alt)| {
            // limb + p only fits a full-width decomposition
            let short = if matches!(alt, Alt::AddP { .. }) { 0 } else { short };
            (field, What::Bits { short }, alt)
        });
    // coefficient decompositions: extension fields only
    let ext = (
        proptest::sample::select(vec![1u8, 3, 4, 6]),
        prop_oneof![Just(What::ExtAlu), Just(What::ExtNpo), Just(What::ExtNpoCoeff)],
        prop_oneof![
            1 => Just(Alt::Canonical),
            5 => (0u8..5, 1u8..5, any::<u8>()).prop_map(|(i, dj, t)| Alt::MoveMass { i, j: i.wrapping_add(dj), t }),
            1 => (0u8..5, any::<u8>()).prop_map(|(i, t)| Alt::Bump { i, t }),
        ],
    );
    (
        prop_oneof![3 => bits, 2 => ext],
        proptest::collection::vec(limb(), 5),
        0u8..4,
    )
        .prop_map(|((field, what, alt), x, alu_lanes)| Case {
            field,
            x,
            what,
            alt,
            alu_lanes,
        })
}

pub fn run(ctx: &Ctx) {
    let _ = KNOWN.set(ctx.known_sigs());
    ctx.assume("the prover controls every hint output and the consumer's public result; everything else is re-derived over Circuit::ops");
    ctx.shrink_iters.store(150, std::sync::atomic::Ordering::Relaxed);
    let n = ctx.tier.pick(4000, 200_000);
    ctx.explore("alternatives", RULE, n, strategy, oracle);
    ctx.replay_known("alternatives", oracle);
}
