//! C03 — compilation never drops an asserted relation.
//!
//! Search for witness assignments that satisfy every relation of the *emitted* operation
//! list (judged by `opsem::ops_sat`, independently of the runner and its post-run checks)
//! but violate the *source* program (judged by `e1::src_relations_hold`).

use std::collections::HashMap;

use proptest::prelude::*;
use serde::{Deserialize, Serialize};

use crate::dispatch_field;
use crate::e1::{self, Built, GenOpts, Prog, Val};
use crate::fields::Fc;
use crate::fw::{Ctx, Report, Verdict, hash_of, pick};
use crate::opsem;

#[derive(Clone, Debug, Serialize, Deserialize, Hash)]
pub struct Case {
    pub prog: Prog,
    /// (slot selector, new value, propagate downstream?)
    pub pins: Vec<(u16, Val)>,
    /// pin inputs (public/private slots) rather than arbitrary slots
    pub pin_inputs: bool,
}

pub const RULE: &str = "random satisfying source programs (arithmetic, connect/assert, bits, Horner; 5 fields) x an \
assignment obtained from the honest one by pinning 1-3 witness slots (inputs or arbitrary slots) to new values and \
re-deriving all other slots by executing Circuit::ops in order without conflict checks; oracle: ops_sat(w) => every \
source relation holds on w; non-trivial = ops_sat(w) holds and w differs from the honest assignment (the implication \
was exercised with a true antecedent) on a program where an optimiser mechanism fired; distinct on (program, pins)";

fn check<C: Fc>(c: &Case) -> Report {
    let built: Built<C> = e1::interpret::<C>(&c.prog, e1::Excl {
        select_ext: true,
        two_creators: false,
        sat_only: true,
    });
    // build consumes the builder: rebuild the interpretation for the node table
    let publics = built.publics.clone();
    let privates = built.privates.clone();
    let features = built.features.clone();
    let (circuit, built) = {
        let Built {
            builder,
            nodes,
            asserts,
            recs,
            excluded,
            connects,
            div_zero,
            ..
        } = built;
        let circuit = match builder.build() {
            Ok(x) => x,
            Err(e) => return Report::fail("C03/build-error", format!("{e:?}")),
        };
        (circuit, (nodes, asserts, recs, excluded, connects, div_zero))
    };
    let (nodes, _asserts, recs, excluded, _connects, div_zero) = built;
    if div_zero {
        return Report::discard("division by zero");
    }
    let mech = crate::checks::c02::mechanisms::<C>(&features, &circuit);
    let mut runner = circuit.runner();
    if runner
        .set_public_inputs(&publics)
        .and_then(|_| runner.set_private_inputs(&privates))
        .is_err()
    {
        return Report::discard("inputs rejected");
    }
    let traces = match runner.run() {
        Ok(t) => t,
        Err(_) => return Report::discard("honest run failed (C02's business)"),
    };
    let n = circuit.witness_count as usize;
    let w0: Vec<C::EF> = (0..n)
        .map(|i| *traces.witness_trace.get_value(p3_circuit::WitnessId(i as u32)).unwrap())
        .collect();
    // sanity: the honest assignment satisfies the emitted ops (else the evaluator or the
    // runner is wrong — reported, since either way it is a disagreement on Circuit::ops)
    if let Err(v) = opsem::ops_sat::<C>(&circuit, &w0) {
        return Report::fail(
            format!("C03/honest-assignment-violates-op:{}", v.what),
            format!("op #{} ({}) is not satisfied by the runner's own witness", v.op_index, v.what),
        );
    }
    // choose pins
    let input_slots: Vec<u32> = circuit
        .public_rows
        .iter()
        .chain(&circuit.private_input_rows)
        .map(|w| w.0)
        .collect();
    let mut pins: HashMap<u32, C::EF> = HashMap::new();
    // fused products that nothing else refers to are "don't care" slots by design
    let orphan = opsem::orphan_intermediates(&circuit);
    let mut dropped = 0;
    for (sel, val) in &c.pins {
        let slot = if c.pin_inputs && !input_slots.is_empty() {
            input_slots[pick(*sel, input_slots.len())]
        } else {
            pick(*sel, n) as u32
        };
        if orphan.contains(&slot) {
            dropped += 1;
            continue;
        }
        pins.insert(slot, val.resolve::<C>());
    }
    let w = opsem::propagate::<C>(&circuit, &w0, &pins);
    if std::env::var("VERIF_DEBUG").is_ok() {
        for (k, nd) in nodes.iter().enumerate() {
            let s = circuit.expr_to_widx.get(&nd.expr).map(|x| x.0);
            eprintln!("node {k}: {:?} stmt {} expr {:?} slot {:?} ref {:?} w0 {:?} w {:?}", nd.kind, nd.stmt as isize, nd.expr, s,
                C::coeffs(&nd.val), s.map(|s| C::coeffs(&w0[s as usize])), s.map(|s| C::coeffs(&w[s as usize])));
        }
        for op in &circuit.ops {
            eprintln!("  {}", e1::fmt_op::<C>(op));
        }
        eprintln!("pins {:?} public_rows {:?} private_rows {:?}", pins.keys().collect::<Vec<_>>(), circuit.public_rows, circuit.private_input_rows);
    }
    let changed = w != w0;
    let sat = opsem::ops_sat::<C>(&circuit, &w);
    let mut rep = Report::pass()
        .class(format!("field:{}", C::NAME))
        .classes(mech.classes.clone())
        .classes(excluded.iter().map(|e| format!("excluded_by_known_finding:{e}")))
        .class(if c.pin_inputs { "pins:inputs" } else { "pins:any-slot" })
        .class(format!("pins-dropped(orphan fused product):{dropped}"))
        .key(hash_of(c));
    match sat {
        Err(_) => rep.class("antecedent:ops-violated"),
        Ok(()) if !changed => rep.class("antecedent:ops-sat(unchanged)"),
        Ok(()) => {
            rep = rep.class("antecedent:ops-sat(changed)").nontrivial(mech.fired);
            // value of node k under w
            let nodes_ref = &nodes;
            let circuit_ref = &circuit;
            let v = move |k: usize| -> C::EF {
                let e = nodes_ref[k].expr;
                w[circuit_ref.expr_to_widx[&e].0 as usize]
            };
            let mut b2 = Built::<C>::empty();
            b2.nodes = nodes.clone();
            b2.recs = recs;
            match e1::src_relations_hold::<C>(&c.prog, &b2, &v) {
                Ok(()) => rep.class("outcome:source-also-satisfied"),
                Err(what) => {
                    let kind = what.split('@').next().unwrap_or("").to_string();
                    rep.verdict = Verdict::Fail {
                        sig: format!("C03/ops-sat-but-source-violated:{kind}"),
                        msg: format!(
                            "assignment satisfies all {} emitted ops but violates source relation {what}; pins {:?}",
                            circuit.ops.len(),
                            pins.iter().map(|(s, v)| (*s, C::coeffs(v))).collect::<Vec<_>>()
                        ),
                    };
                    rep.nontrivial = true;
                    rep
                }
            }
        }
    }
}

pub fn oracle(c: &Case) -> Report {
    dispatch_field!(c.prog.field as usize, C => check::<C>(c))
}

fn strategy(max_len: usize) -> impl Strategy<Value = Case> {
    (
        e1::prog_strategy(GenOpts {
            violating: false,
            free_connect: true,
            // coefficient (de)composition has a value precondition (base-field coefficients)
            // that arbitrary pins would break; its soundness is C12's subject
            allow_ext: false,
            max_len,
            ..GenOpts::default()
        }),
        proptest::collection::vec((any::<u16>(), e1::val_strategy()), 1..4),
        prop_oneof![3 => Just(true), 1 => Just(false)],
    )
        .prop_map(|(prog, pins, pin_inputs)| Case {
            prog,
            pins,
            pin_inputs,
        })
}

pub fn run(ctx: &Ctx) {
    ctx.assume("ops relations as documented on p3_circuit::Op; MulAdd's intermediate_out and the runner's post-run rewrite checks are NOT relations");
    ctx.assume("decomposition canonicity (coefficients in the base field, bits canonical) is C12's subject, not C03's");
    let n = ctx.tier.pick(400_000, 12_000_000);
    ctx.explore("assignments", RULE, n, || strategy(30), oracle);
    if ctx.tier == crate::fw::Tier::Thorough {
        ctx.explore("assignments-long", RULE, 500_000, || strategy(120), oracle);
    }
    ctx.replay_known("assignments", |c: &Case| e1::without_exclusions(|| oracle(c)));
}
